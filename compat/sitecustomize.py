"""Harness-side compatibility shim (see DESIGN.md §1).

tranp targets CPython 3.13; the pinned interpreter is 3.12.1. Two names are missing there:
`typing.TypeIs` (py2cpp.py) and `property.__name__` (self-hosted parser: Rules.keywords.__name__).
This file is put first on PYTHONPATH by every harness process; /repo is not changed.
"""
import builtins
import sys
import typing

if sys.version_info < (3, 13):
	if not hasattr(typing, 'TypeIs'):
		try:
			from typing_extensions import TypeIs as _TypeIs
			typing.TypeIs = _TypeIs  # type: ignore[attr-defined]
		except Exception:  # pragma: no cover
			pass

	_orig_property = builtins.property

	class property(_orig_property):  # noqa: N801
		@_orig_property
		def __name__(self) -> str:  # type: ignore[override]
			fget = self.fget
			return getattr(fget, '__name__', '')

	builtins.property = property  # type: ignore[misc]
