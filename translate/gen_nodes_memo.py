"""Translator for property C10: the memo keys of `Nodes` (rogw/tranp/syntax/node/query.py) as a Lean function.

Reads the AST of query.py (never imports it) and writes `lean/Tranp/Generated/NodesMemo.lean`:

* `memoKey : Query → Option Str` — for each public query of `Nodes` (`by`, `parent`, `ancestor`, `siblings`, `children`,
  `expand`, `values`) the key under which its result is memoised (`self.__memo.get(f'…', factory)`), or `none` when the
  method does not go through the memo.

Recognised method shapes (anything else is a TranslateError — the tie is broken, never a silent default):

  memoised     [docstring]  [assignments / `if …: raise …` guards]  def factory() -> …: …   return self.__memo.get(<f-string>, factory)
  unmemoised   no reference to `self.__memo` anywhere in the method

The f-string may contain literal text and the method's own `str` parameters (`{via}`, `{tag}`), without conversion or
format spec. `Tranp.C10.memo_keys_injective` / `memo_transparent` are proved about the generated function, so a change of a
key in the source changes the proof obligation on the next run.
"""
from __future__ import annotations

import ast
import os
from typing import Any

from harness.common import GENERATED_DIR, REPO, write_if_changed

OUT = os.path.join(GENERATED_DIR, 'NodesMemo.lean')
SOURCE = 'rogw/tranp/syntax/node/query.py'

# Lean constructor of `Query` and its parameter names, per method of Nodes
QUERIES: dict[str, tuple[str, list[str]]] = {
	'by': ('by_', ['full_path']),
	'parent': ('parent', ['via']),
	'ancestor': ('ancestor', ['via', 'tag']),
	'siblings': ('siblings', ['via']),
	'children': ('children', ['via']),
	'expand': ('expand', ['via']),
	'values': ('values', ['via']),
}
# public methods that return neither nodes nor values (no memo expected; checked)
PLAIN = ['exists', 'id', 'source_map']


class TranslateError(Exception):
	pass


def _is_memo_attr(n: ast.AST) -> bool:
	return isinstance(n, ast.Attribute) and n.attr == '__memo' and isinstance(n.value, ast.Name) and n.value.id == 'self'


def _uses_memo(fn: ast.FunctionDef) -> bool:
	return any(_is_memo_attr(n) for n in ast.walk(fn))


def _template(fn: ast.FunctionDef, params: list[str]) -> list[tuple[str, str]] | None:
	"""[('lit', text) | ('var', param)] of the memo key, None for an unmemoised method."""
	args = [a.arg for a in fn.args.args]
	if args != ['self', *params] or fn.args.vararg or fn.args.kwarg or fn.args.kwonlyargs:
		raise TranslateError(f'{SOURCE}: Nodes.{fn.name} has parameters {args}, expected {["self", *params]}')
	if not _uses_memo(fn):
		return None
	body = [st for st in fn.body if not (isinstance(st, ast.Expr) and isinstance(st.value, ast.Constant) and isinstance(st.value.value, str))]
	# statements in front of the factory (guards that raise before the memo is consulted) are accepted when they are plain
	# assignments / `if …: raise …` and do not touch the memo; the key is what the proofs are about
	pre = body[:-2]
	for st in pre:
		ok = isinstance(st, (ast.Assign, ast.AnnAssign)) or (isinstance(st, ast.If) and not st.orelse and all(isinstance(x, ast.Raise) for x in st.body))
		if not ok or any(_is_memo_attr(n) for n in ast.walk(st)):
			raise TranslateError(f'{SOURCE}: Nodes.{fn.name} (line {st.lineno}): unrecognised statement in front of the memoised factory')
	if len(body) < 2 or not isinstance(body[-2], ast.FunctionDef) or not isinstance(body[-1], ast.Return):
		raise TranslateError(f'{SOURCE}: Nodes.{fn.name} (line {fn.lineno}) uses the memo but is not "[guards] def factory… / return self.__memo.get(key, factory)"')
	factory, ret = body[-2], body[-1]
	if factory.args.args or _uses_memo(factory):
		raise TranslateError(f'{SOURCE}: Nodes.{fn.name}: the factory takes arguments or touches the memo itself')
	call = ret.value
	if not (isinstance(call, ast.Call) and isinstance(call.func, ast.Attribute) and call.func.attr == 'get' and _is_memo_attr(call.func.value)
			and len(call.args) == 2 and not call.keywords and isinstance(call.args[1], ast.Name) and call.args[1].id == factory.name):
		raise TranslateError(f'{SOURCE}: Nodes.{fn.name}: the return statement is not self.__memo.get(key, {factory.name})')
	key = call.args[0]
	segs: list[tuple[str, str]] = []
	if isinstance(key, ast.Constant) and isinstance(key.value, str):
		segs.append(('lit', key.value))
	elif isinstance(key, ast.JoinedStr):
		for v in key.values:
			if isinstance(v, ast.Constant) and isinstance(v.value, str):
				segs.append(('lit', v.value))
			elif isinstance(v, ast.FormattedValue) and isinstance(v.value, ast.Name) and v.value.id in params and v.conversion == -1 and v.format_spec is None:
				segs.append(('var', v.value.id))
			else:
				raise TranslateError(f'{SOURCE}: Nodes.{fn.name}: unrecognised part of the memo key at line {key.lineno}')
	else:
		raise TranslateError(f'{SOURCE}: Nodes.{fn.name}: the memo key is not a string literal / f-string')
	return segs


def memo_templates() -> dict[str, list[tuple[str, str]] | None]:
	with open(os.path.join(REPO, SOURCE), encoding='utf-8') as f:
		tree = ast.parse(f.read())
	cls = [n for n in tree.body if isinstance(n, ast.ClassDef) and n.name == 'Nodes']
	if len(cls) != 1:
		raise TranslateError(f'{SOURCE}: expected exactly one class Nodes')
	methods = {n.name: n for n in cls[0].body if isinstance(n, ast.FunctionDef)}
	public = [m for m in methods if not m.startswith('_')]
	unknown = [m for m in public if m not in QUERIES and m not in PLAIN]
	if unknown:
		raise TranslateError(f'{SOURCE}: Nodes has public methods the model does not know: {unknown}')
	out: dict[str, list[tuple[str, str]] | None] = {}
	for m, (_, params) in QUERIES.items():
		if m not in methods:
			raise TranslateError(f'{SOURCE}: Nodes.{m} is missing')
		out[m] = _template(methods[m], params)
	for m in PLAIN:
		if m in methods and _uses_memo(methods[m]):
			raise TranslateError(f'{SOURCE}: Nodes.{m} goes through the memo (not modelled)')
	for m, fn in methods.items():
		if m.startswith('_') and m != '__init__' and _uses_memo(fn):
			raise TranslateError(f'{SOURCE}: private method Nodes.{m} touches the memo (not modelled)')
	return out


def _chars(s: str) -> str:
	def one(c: str) -> str:
		if c == "'":
			return "'\\''"
		if c == '\\':
			return "'\\\\'"
		if not (32 <= ord(c) < 127):
			raise TranslateError(f'memo key contains the non-printable / non-ASCII character {c!r}')
		return f"'{c}'"
	return '[' + ', '.join(one(c) for c in s) + ']'


def render(templates: dict[str, list[tuple[str, str]] | None]) -> str:
	lines = [
		'/-',
		f'  GENERATED by translate/gen_nodes_memo.py from {SOURCE} — do not edit.',
		'  The key under which each query of `Nodes` memoises its result (`self.__memo.get(key, factory)`), `none` = not memoised.',
		'-/',
		'import Tranp.Model.AstPath',
		'',
		'namespace Tranp.AstPath',
		'',
		'def memoKey : Query → Option Str',
	]
	for m, (ctor, params) in QUERIES.items():
		names = ['via', 'tag'][:len(params)]
		ren = dict(zip(params, names))
		t = templates[m]
		pat = f'  | .{ctor} ' + ' '.join(names if t is not None else ['_'] * len(names))
		if t is None:
			lines.append(f'{pat} => none')
		else:
			parts = [(_chars(v) if k == 'lit' else ren[v]) for k, v in t if not (k == 'lit' and v == '')]
			lines.append(f'{pat} => some ({" ++ ".join(parts) if parts else "[]"})')
	lines += ['', 'end Tranp.AstPath', '']
	return '\n'.join(lines)


def generate() -> list[dict[str, Any]]:
	templates = memo_templates()
	changed = write_if_changed(OUT, render(templates))
	show = {m: (None if t is None else ''.join(v if k == 'lit' else '{' + v + '}' for k, v in t)) for m, t in templates.items()}
	return [{
		'file': os.path.relpath(OUT, os.path.dirname(GENERATED_DIR)),
		'source': SOURCE + ' (memo keys of Nodes)',
		'entries': len(templates),
		'memo_keys': show,
		'changed': changed,
	}]
