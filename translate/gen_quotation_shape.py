"""Translator for property C16: the arithmetic and the text templates of the error quotation, read from the source.

Reads (AST only) `ErrorRender.Quotation` (rogw/tranp/view/error_render.py) and `ErrorCollector`
(rogw/tranp/implements/syntax/tranp/syntax.py) and writes `lean/Tranp/Generated/QuotationShape.lean`:

* `Quotation.__load_line`: binary `readlines()`, index `lines[line_no]`, the chain of `.replace(a, b)` after `.decode()`;
* `Quotation.__cause_range` / `ErrorCollector._cause_token_range`: the two components of the returned range as arithmetic
  expressions (`PExpr`) over the span fields and `len(cause_line)`, local names inlined;
* `__build_line_mark` / `_cause_line_mark`: the repeated characters and their counts (`begin`, `max(1, end - begin)`);
* `Quotation.build` / `ErrorCollector._quotation_lines`: the printed lines as templates (literal text and placeholders), and
  the expression of the printed line number;
* `ErrorCollector._cause_line`: `self.source.split('\\n')[begin_line]`.

Props/C16.lean proves that these generated expressions and templates, evaluated by the interpreters of Model/QuotationShape.lean,
are the hand-written `causeRange`, `lineMark`, `quotationBuild`, `collectorLines` for every input. Unknown shapes are a
`TranslateError`.
"""
from __future__ import annotations

import ast
import os
from typing import Any

from harness.common import GENERATED_DIR, REPO, write_if_changed

OUT = os.path.join(GENERATED_DIR, 'QuotationShape.lean')
RENDER_PY = 'rogw/tranp/view/error_render.py'
SYNTAX_PY = 'rogw/tranp/implements/syntax/tranp/syntax.py'


class TranslateError(Exception):
	pass


def need(cond: bool, msg: str) -> None:
	if not cond:
		raise TranslateError(msg)


def src(n: ast.AST) -> str:
	return ast.unparse(n)


def parse_file(rel: str) -> ast.Module:
	with open(os.path.join(REPO, rel), encoding='utf-8') as f:
		return ast.parse(f.read())


def find_class(tree: ast.AST, name: str) -> ast.ClassDef:
	hits = [n for n in ast.walk(tree) if isinstance(n, ast.ClassDef) and n.name == name]
	need(len(hits) == 1, f'expected exactly one class {name}')
	return hits[0]


def find_func(cls: ast.ClassDef, name: str) -> ast.FunctionDef:
	hits = [n for n in cls.body if isinstance(n, ast.FunctionDef) and n.name == name]
	need(len(hits) == 1, f'expected exactly one function {name} in {cls.name}')
	return hits[0]


def body(fn: ast.FunctionDef) -> list[ast.stmt]:
	b = fn.body
	if b and isinstance(b[0], ast.Expr) and isinstance(b[0].value, ast.Constant) and isinstance(b[0].value.value, str):
		return b[1:]
	return b


def lstr(s: str) -> str:
	return '[' + ', '.join("'" + {"'": "\\'", '\\': '\\\\', '\n': '\\n', '\t': '\\t'}.get(c, c) + "'" for c in s) + ']'


# ---------------------------------------------------------------------------------------------
# arithmetic expressions


def pexpr(n: ast.AST, names: dict[str, str], where: str) -> str:
	"""Python arithmetic → Lean `PExpr`; `names` maps source expressions to model variable names or inlined PExpr text"""
	text = src(n)
	if text in names:
		v = names[text]
		return v if v.startswith('(') else f'(.var {lstr(v)})'
	if isinstance(n, ast.Constant) and isinstance(n.value, int) and not isinstance(n.value, bool):
		return f'(.int {n.value})'
	if isinstance(n, ast.BinOp) and isinstance(n.op, (ast.Add, ast.Sub)):
		return f"(.{'add' if isinstance(n.op, ast.Add) else 'sub'} {pexpr(n.left, names, where)} {pexpr(n.right, names, where)})"
	if isinstance(n, ast.Call) and src(n.func) == 'max' and len(n.args) == 2 and not n.keywords:
		return f'(.max {pexpr(n.args[0], names, where)} {pexpr(n.args[1], names, where)})'
	if isinstance(n, ast.Call) and src(n.func) == 'len' and len(n.args) == 1 and src(n.args[0]) in names:
		return f'(.len {lstr(names[src(n.args[0])])})'
	if isinstance(n, ast.IfExp) and isinstance(n.test, ast.Compare) and len(n.test.ops) == 1 and isinstance(n.test.ops[0], ast.Eq):
		return f'(.ifEq {pexpr(n.test.left, names, where)} {pexpr(n.test.comparators[0], names, where)} {pexpr(n.body, names, where)} {pexpr(n.orelse, names, where)})'
	raise TranslateError(f'{where}: expression {text} not understood')


def template(n: ast.AST, names: dict[str, str], where: str) -> str:
	"""an f-string → list of `Part`s"""
	parts: list[str] = []
	if isinstance(n, ast.Constant) and isinstance(n.value, str):
		return f'[.lit {lstr(n.value)}]'
	need(isinstance(n, ast.JoinedStr), f'{where}: {src(n)} is not an f-string')
	assert isinstance(n, ast.JoinedStr)
	for v in n.values:
		if isinstance(v, ast.Constant) and isinstance(v.value, str):
			parts.append(f'.lit {lstr(v.value)}')
		elif isinstance(v, ast.FormattedValue) and v.conversion == -1 and v.format_spec is None and src(v.value) in names:
			parts.append(f'.ph {lstr(names[src(v.value)])}')
		else:
			raise TranslateError(f'{where}: f-string part {src(v)} not understood')
	return '[' + ', '.join(parts) + ']'


def repeat_of(stmt: ast.stmt, names: dict[str, str], where: str) -> tuple[str, str]:
	"""`x = 'c' * <expr>` → (char, PExpr)"""
	need(isinstance(stmt, ast.Assign) and isinstance(stmt.value, ast.BinOp) and isinstance(stmt.value.op, ast.Mult), f'{where}: {src(stmt)} is not `c * n`')
	assert isinstance(stmt, ast.Assign) and isinstance(stmt.value, ast.BinOp)
	c = stmt.value.left
	need(isinstance(c, ast.Constant) and isinstance(c.value, str) and len(c.value) == 1, f'{where}: repeated text is not one character')
	assert isinstance(c, ast.Constant)
	return c.value, pexpr(stmt.value.right, names, where)


def line_mark(fn: ast.FunctionDef, range_expr: str, where: str) -> dict[str, Any]:
	b = body(fn)
	need(len(b) == 4 and src(b[0]) == f'begin, end = {range_expr}', f'{where}: first statement is not `begin, end = {range_expr}`')
	names = {'begin': 'begin', 'end': 'end'}
	ic, ie = repeat_of(b[1], names, where)
	mc, me = repeat_of(b[2], names, where)
	need(src(b[1].targets[0]) == 'indent' and src(b[2].targets[0]) == 'explain' and src(b[3]) == "return f'{indent}{explain}'", f'{where}: mark assembly changed')  # type: ignore[attr-defined]
	return {'indentChar': ic, 'indentCount': ie, 'markChar': mc, 'markCount': me}


def quotation() -> dict[str, Any]:
	q = find_class(parse_file(RENDER_PY), 'Quotation')
	init = [src(s) for s in body(find_func(q, '__init__'))]
	need(init == ['self.filepath = filepath', 'self.begin_line = source_map[0]', 'self.cause_line = self.__load_line(filepath, self.begin_line)', 'self.cause_range = self.__cause_range(source_map)'], f'Quotation.__init__ changed: {init}')
	ll = body(find_func(q, '__load_line'))
	need(len(ll) == 1 and isinstance(ll[0], ast.With) and src(ll[0].items[0]) == "open(filepath, mode='rb') as f", 'Quotation.__load_line: not `with open(filepath, mode=\'rb\') as f`')
	inner = ll[0].body  # type: ignore[attr-defined]
	need(len(inner) == 2 and src(inner[0]) == 'lines = f.readlines()' and isinstance(inner[1], ast.Return), 'Quotation.__load_line: body changed')
	chain = inner[1].value
	reps: list[tuple[str, str]] = []
	while isinstance(chain, ast.Call) and isinstance(chain.func, ast.Attribute) and chain.func.attr == 'replace':
		need(len(chain.args) == 2 and all(isinstance(a, ast.Constant) and isinstance(a.value, str) for a in chain.args), 'Quotation.__load_line: replace with non-literal arguments')
		reps.insert(0, (chain.args[0].value, chain.args[1].value))  # type: ignore[attr-defined]
		chain = chain.func.value
	need(src(chain) == 'lines[line_no].decode()', f'Quotation.__load_line: the line is {src(chain)}, not lines[line_no].decode()')
	cr = body(find_func(q, '__cause_range'))
	need(len(cr) == 3 and src(cr[0]) == 'begin_line, begin_column, end_line, end_column = source_map', 'Quotation.__cause_range: unpacking changed')
	names = {'begin_line': 'bl', 'begin_column': 'bc', 'end_line': 'el', 'end_column': 'ec', 'self.cause_line': 'cause_line'}
	need(isinstance(cr[1], ast.Assign) and src(cr[1].targets[0]) == 'diff', 'Quotation.__cause_range: expected `diff = …`')
	names['diff'] = pexpr(cr[1].value, names, 'Quotation.__cause_range')  # type: ignore[attr-defined]
	need(isinstance(cr[2], ast.Return) and isinstance(cr[2].value, ast.Tuple) and len(cr[2].value.elts) == 2, 'Quotation.__cause_range: does not return a pair')
	rng = [pexpr(e, names, 'Quotation.__cause_range') for e in cr[2].value.elts]  # type: ignore[attr-defined]
	mark = line_mark(find_func(q, '__build_line_mark'), 'self.cause_range', 'Quotation.__build_line_mark')
	bd = body(find_func(q, 'build'))
	need(len(bd) == 3 and isinstance(bd[0], ast.Assign) and src(bd[0].targets[0]) == 'line_no' and src(bd[1]) == 'line_mark = self.__build_line_mark()', 'Quotation.build: preamble changed')
	line_no = pexpr(bd[0].value, {'self.begin_line': 'bl'}, 'Quotation.build')  # type: ignore[attr-defined]
	need(isinstance(bd[2], ast.Return) and isinstance(bd[2].value, ast.List), 'Quotation.build: does not return a list literal')
	tn = {'self.filepath': 'filepath', 'line_no': 'line_no', 'self.cause_line': 'cause_line', 'line_mark': 'line_mark'}
	lines = [template(e, tn, 'Quotation.build') for e in bd[2].value.elts]  # type: ignore[attr-defined]
	return {'replaces': reps, 'range': rng, 'mark': mark, 'lineNo': line_no, 'lines': lines}


def collector() -> dict[str, Any]:
	c = find_class(parse_file(SYNTAX_PY), 'ErrorCollector')
	tr = body(find_func(c, '_cause_token_range'))
	need(len(tr) == 3 and src(tr[0]) == 'source_map = self._cause_source_map', 'ErrorCollector._cause_token_range: preamble changed')
	names = {'source_map.begin_line': 'bl', 'source_map.begin_column': 'bc', 'source_map.end_line': 'el', 'source_map.end_column': 'ec', 'self._cause_line': 'cause_line'}
	need(isinstance(tr[1], ast.Assign) and src(tr[1].targets[0]) == 'diff', 'ErrorCollector._cause_token_range: expected `diff = …`')
	names['diff'] = pexpr(tr[1].value, names, 'ErrorCollector._cause_token_range')  # type: ignore[attr-defined]
	need(isinstance(tr[2], ast.Return) and isinstance(tr[2].value, ast.Tuple) and len(tr[2].value.elts) == 2, 'ErrorCollector._cause_token_range: does not return a pair')
	rng = [pexpr(e, names, 'ErrorCollector._cause_token_range') for e in tr[2].value.elts]  # type: ignore[attr-defined]
	mark = line_mark(find_func(c, '_cause_line_mark'), 'self._cause_token_range', 'ErrorCollector._cause_line_mark')
	cl = [src(s) for s in body(find_func(c, '_cause_line'))]
	need(cl == ["lines = self.source.split('\\n')", 'return lines[self._cause_source_map.begin_line]'], f'ErrorCollector._cause_line changed: {cl}')
	ct = [src(s) for s in body(find_func(c, '_cause_token'))]
	need(ct == ['return self.tokens[self.steps]'], f'ErrorCollector._cause_token changed: {ct}')
	ql = body(find_func(c, '_quotation_lines'))
	need(len(ql) == 3 and isinstance(ql[0], ast.Assign) and src(ql[0].targets[0]) == 'line_no', 'ErrorCollector._quotation_lines: preamble changed')
	line_no = pexpr(ql[0].value, {'self._cause_source_map.begin_line': 'bl'}, 'ErrorCollector._quotation_lines')  # type: ignore[attr-defined]
	need(src(ql[1]) == "line_ns = ' ' * len(str(line_no))", f'ErrorCollector._quotation_lines: {src(ql[1])}')
	need(isinstance(ql[2], ast.Return) and isinstance(ql[2].value, ast.List), 'ErrorCollector._quotation_lines: does not return a list literal')
	tn = {'line_no': 'line_no', 'self._cause_line': 'cause_line', 'line_ns': 'line_ns', 'self._cause_line_mark': 'line_mark'}
	lines = [template(e, tn, 'ErrorCollector._quotation_lines') for e in ql[2].value.elts]  # type: ignore[attr-defined]
	return {'range': rng, 'mark': mark, 'lineNo': line_no, 'lines': lines}


def generate() -> list[dict[str, Any]]:
	q = quotation()
	c = collector()

	def mark(m: dict[str, Any]) -> str:
		return f"⟨'{m['indentChar']}', {m['indentCount']}, '{m['markChar']}', {m['markCount']}⟩"

	lines = [
		'/-',
		'  GENERATED by verif/translate/gen_quotation_shape.py from the working tree of the repository — do not edit.',
		f'  Sources: {RENDER_PY} (class ErrorRender.Quotation), {SYNTAX_PY} (class ErrorCollector).',
		'-/',
		'import Tranp.Model.QuotationShape',
		'',
		'namespace Tranp.Generated.QuotationShape',
		'open Tranp Tranp.QShape',
		'',
		'/-- Quotation.__load_line: the `.replace(a, b)` calls applied to the decoded line, in order -/',
		'def loadLineReplaces : List (Str × Str) := [' + ', '.join(f'({lstr(a)}, {lstr(b)})' for a, b in q['replaces']) + ']',
		'/-- Quotation.__cause_range: (begin, end) -/',
		f"def causeRangeBegin : PExpr := {q['range'][0]}",
		f"def causeRangeEnd : PExpr := {q['range'][1]}",
		'/-- Quotation.__build_line_mark -/',
		f"def lineMark : MarkShape := {mark(q['mark'])}",
		'/-- Quotation.build: the printed line number and the four lines -/',
		f"def lineNo : PExpr := {q['lineNo']}",
		'def buildLines : List (List Part) := [' + ', '.join(q['lines']) + ']',
		'',
		'/-- ErrorCollector._cause_token_range -/',
		f"def collectorRangeBegin : PExpr := {c['range'][0]}",
		f"def collectorRangeEnd : PExpr := {c['range'][1]}",
		f"def collectorMark : MarkShape := {mark(c['mark'])}",
		f"def collectorLineNo : PExpr := {c['lineNo']}",
		'def collectorLines : List (List Part) := [' + ', '.join(c['lines']) + ']',
		'',
		'end Tranp.Generated.QuotationShape',
		'',
	]
	changed = write_if_changed(OUT, '\n'.join(lines))
	return [{'file': os.path.relpath(OUT, os.path.dirname(GENERATED_DIR)), 'entries': 10 + len(q['lines']) + len(c['lines']), 'changed': changed, 'from': [RENDER_PY, SYNTAX_PY]}]


if __name__ == '__main__':
	for r in generate():
		print(r)
