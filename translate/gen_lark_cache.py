"""Translator for properties C15/C16: the shapes of the syntax-tree cache and of the error quotation, read from the source.

Reads (AST only, never imports) the working tree of the repository and writes `lean/Tranp/Generated/LarkCache.lean`:

* `EntryOfLark.source_map` (implements/syntax/lark/entry.py): the attributes read for a tree (`meta.line …`) and for a token, the
  attributes whose truthiness guards the token branch, the guard of the tree branch, how the 4-tuple is folded into begin/end,
  the fallback span;
* `Serialization.__dumps` / `__loads`: the record keys in order, which view field feeds which key, the order of the stored
  span tuple, the attribute each stored position is assigned to on restore, the constant assigned to `meta.empty`, the
  constructor calls;
* `EntryStored.save` / `load` (implements/syntax/lark/parser.py): the `json.dumps` keyword arguments and the encoding;
* `SyntaxParserOfLark.__load_entry` / `__load_parser`: the keys of the cache identities and, verbatim, the expressions that
  fill them; the keyword arguments of `lark.Lark(...)` (propagate_positions, postlex); `__load_source`'s completion rule;
* `ErrorRender.__build_quotation` (view/error_render.py): the disjuncts of the no-position guard, the shift tuple, and that the
  guard stands before the shift and tests the unshifted span;
* every place under rogw/ that reads `.source` of an entry (the Entry interface is the only other access path).

The hand-written models (Model/LarkEntry.lean, Model/JsonCodec.lean, Model/Quotation.lean) are compared with these tables by
`decide`d theorems in Props/C15.lean and Props/C16.lean; a shape the generator does not recognise is a `TranslateError` (the
tie is broken), never a silent default.
"""
from __future__ import annotations

import ast
import os
from typing import Any

from harness.common import GENERATED_DIR, REPO, write_if_changed

OUT = os.path.join(GENERATED_DIR, 'LarkCache.lean')

ENTRY_PY = 'rogw/tranp/implements/syntax/lark/entry.py'
PARSER_PY = 'rogw/tranp/implements/syntax/lark/parser.py'
RENDER_PY = 'rogw/tranp/view/error_render.py'


class TranslateError(Exception):
	pass


def need(cond: bool, msg: str) -> None:
	if not cond:
		raise TranslateError(msg)


def parse_file(rel: str) -> ast.Module:
	with open(os.path.join(REPO, rel), encoding='utf-8') as f:
		return ast.parse(f.read())


def find_class(tree: ast.AST, name: str) -> ast.ClassDef:
	hits = [n for n in ast.walk(tree) if isinstance(n, ast.ClassDef) and n.name == name]
	need(len(hits) == 1, f'expected exactly one class {name}')
	return hits[0]


def find_func(cls: ast.AST, name: str) -> ast.FunctionDef:
	hits = [n for n in getattr(cls, 'body', []) if isinstance(n, ast.FunctionDef) and n.name == name]
	need(len(hits) == 1, f'expected exactly one function {name}')
	return hits[0]


def body_without_doc(fn: ast.FunctionDef) -> list[ast.stmt]:
	b = fn.body
	if b and isinstance(b[0], ast.Expr) and isinstance(b[0].value, ast.Constant) and isinstance(b[0].value.value, str):
		return b[1:]
	return b


def src(n: ast.AST) -> str:
	return ast.unparse(n)


# ---------------------------------------------------------------------------------------------
# EntryOfLark.source_map


def fold_of(ret: ast.stmt, where: str) -> list[int]:
	"""`return {'begin': (source_map[a], source_map[b]), 'end': (source_map[c], source_map[d])}` → [a, b, c, d]"""
	need(isinstance(ret, ast.Return) and isinstance(ret.value, ast.Dict), f'{where}: expected return of a dict')
	d = ret.value
	assert isinstance(d, ast.Dict)
	need([src(k) for k in d.keys if k is not None] == ["'begin'", "'end'"], f'{where}: keys are not begin/end')
	out = []
	for v in d.values:
		need(isinstance(v, ast.Tuple) and len(v.elts) == 2, f'{where}: begin/end is not a pair')
		assert isinstance(v, ast.Tuple)
		for e in v.elts:
			need(isinstance(e, ast.Subscript) and src(e.value) == 'source_map' and isinstance(e.slice, ast.Constant) and isinstance(e.slice.value, int), f'{where}: pair element is not source_map[i]')
			assert isinstance(e, ast.Subscript) and isinstance(e.slice, ast.Constant)
			out.append(e.slice.value)
	return out


def attr_tuple(stmt: ast.stmt, prefix: str, where: str) -> list[str]:
	"""`source_map = (<prefix>.a, <prefix>.b, …)` → ['a', 'b', …]"""
	need(isinstance(stmt, ast.Assign) and src(stmt.targets[0]) == 'source_map' and isinstance(stmt.value, ast.Tuple), f'{where}: expected `source_map = (…)`')
	assert isinstance(stmt, ast.Assign) and isinstance(stmt.value, ast.Tuple)
	out = []
	for e in stmt.value.elts:
		need(isinstance(e, ast.Attribute) and src(e.value) == prefix, f'{where}: element {src(e)} is not {prefix}.<attr>')
		assert isinstance(e, ast.Attribute)
		out.append(e.attr)
	return out


def view_source_map() -> dict[str, Any]:
	cls = find_class(parse_file(ENTRY_PY), 'EntryOfLark')
	fn = find_func(cls, 'source_map')
	body = body_without_doc(fn)
	need(len(body) == 1 and isinstance(body[0], ast.If), 'source_map: expected one if/elif/else')
	top = body[0]
	assert isinstance(top, ast.If)
	need(isinstance(top.test, ast.BoolOp) and isinstance(top.test.op, ast.And), 'source_map: tree guard is not an `and` chain')
	assert isinstance(top.test, ast.BoolOp)
	tree_guard = [src(v) for v in top.test.values]
	need(tree_guard == ['type(self.__entry) is lark.Tree', 'self.__entry.meta is not None', 'not self.__entry.meta.empty'], f'source_map: tree guard changed: {tree_guard}')
	need(len(top.body) == 2, 'source_map: tree branch is not assignment + return')
	tree_fields = attr_tuple(top.body[0], 'self.__entry.meta', 'source_map tree branch')
	tree_fold = fold_of(top.body[1], 'source_map tree branch')
	need(len(top.orelse) == 1 and isinstance(top.orelse[0], ast.If), 'source_map: expected elif')
	mid = top.orelse[0]
	assert isinstance(mid, ast.If)
	need(isinstance(mid.test, ast.BoolOp) and isinstance(mid.test.op, ast.And), 'source_map: token guard is not an `and` chain')
	assert isinstance(mid.test, ast.BoolOp)
	need(src(mid.test.values[0]) == 'type(self.__entry) is lark.Token', 'source_map: token guard does not start with the type test')
	truthy = []
	for v in mid.test.values[1:]:
		need(isinstance(v, ast.Attribute) and src(v.value) == 'self.__entry', f'source_map: token guard operand {src(v)} is not a plain attribute truth test')
		assert isinstance(v, ast.Attribute)
		truthy.append(v.attr)
	need(len(mid.body) == 2, 'source_map: token branch is not assignment + return')
	token_fields = attr_tuple(mid.body[0], 'self.__entry', 'source_map token branch')
	token_fold = fold_of(mid.body[1], 'source_map token branch')
	need(len(mid.orelse) == 1 and src(mid.orelse[0]) == "return {'begin': (0, 0), 'end': (0, 0)}", 'source_map: fallback is not the zero span')
	return {'viewTreeFields': tree_fields, 'viewTreeFold': tree_fold, 'viewTokenFields': token_fields, 'viewTokenFold': token_fold, 'viewTokenTruthy': truthy}


# ---------------------------------------------------------------------------------------------
# Serialization


def dict_literal(ret: ast.stmt, where: str) -> list[tuple[str, str]]:
	need(isinstance(ret, ast.Return) and isinstance(ret.value, ast.Dict), f'{where}: expected return of a dict literal')
	assert isinstance(ret, ast.Return) and isinstance(ret.value, ast.Dict)
	out = []
	for k, v in zip(ret.value.keys, ret.value.values):
		need(isinstance(k, ast.Constant) and isinstance(k.value, str), f'{where}: non-literal key')
		assert isinstance(k, ast.Constant)
		out.append((k.value, src(v)))
	return out


def serialization() -> dict[str, Any]:
	cls = find_class(parse_file(ENTRY_PY), 'Serialization')
	dumps = find_func(cls, '_Serialization__dumps') if any(isinstance(n, ast.FunctionDef) and n.name == '_Serialization__dumps' for n in cls.body) else find_func(cls, '__dumps')
	body = body_without_doc(dumps)
	need(len(body) == 3, f'__dumps: expected 3 statements, found {len(body)}')
	need(src(body[0]) == 'proxy = EntryOfLark(entry)', '__dumps: first statement is not the proxy')
	st = body[1]
	need(isinstance(st, ast.Assign) and src(st.targets[0]) == 'source_map' and isinstance(st.value, ast.Tuple), '__dumps: expected `source_map = (…)`')
	assert isinstance(st, ast.Assign) and isinstance(st.value, ast.Tuple)
	order: list[tuple[str, int]] = []
	for e in st.value.elts:
		text = src(e)
		hit = [(w, i) for w in ('begin', 'end') for i in (0, 1) if text == f"proxy.source_map['{w}'][{i}]"]
		need(len(hit) == 1, f'__dumps: span tuple element {text} not recognised')
		order.append(hit[0])
	br = body[2]
	need(isinstance(br, ast.If) and src(br.test) == 'proxy.has_child', '__dumps: first branch is not `if proxy.has_child`')
	assert isinstance(br, ast.If)
	tree_rec = dict_literal(br.body[-1], '__dumps tree branch')
	loop = [s for s in br.body if isinstance(s, ast.For)]
	need(len(loop) == 1 and src(loop[0].iter) == 'proxy.children' and src(loop[0].body[0]) == 'children.append(cls.__dumps(child.source))', '__dumps: children loop changed')
	need(len(br.orelse) == 1 and isinstance(br.orelse[0], ast.If) and src(br.orelse[0].test) == 'not proxy.is_empty', '__dumps: second branch is not `elif not proxy.is_empty`')
	tok = br.orelse[0]
	assert isinstance(tok, ast.If)
	token_rec = dict_literal(tok.body[-1], '__dumps token branch')
	need(len(tok.orelse) == 1 and src(tok.orelse[0]) == 'return None', '__dumps: last branch is not `return None`')

	loads = find_func(cls, '__loads')
	lb = body_without_doc(loads)
	need(len(lb) == 1 and isinstance(lb[0], ast.If), '__loads: expected one if/elif/else')
	t = lb[0]
	assert isinstance(t, ast.If)
	need(src(t.test) == "type(entry) is dict and 'children' in entry", f'__loads: tree test changed: {src(t.test)}')

	def assigns(stmts: list[ast.stmt], obj: str, rec: str, where: str) -> tuple[list[tuple[str, int]], list[tuple[str, str]]]:
		pos: list[tuple[str, int]] = []
		const: list[tuple[str, str]] = []
		for s in stmts:
			if isinstance(s, ast.Assign) and isinstance(s.targets[0], ast.Attribute) and src(s.targets[0].value) == obj:
				attr = s.targets[0].attr
				v = s.value
				if isinstance(v, ast.Subscript) and src(v.value) == f"{rec}['source_map']" and isinstance(v.slice, ast.Constant) and isinstance(v.slice.value, int):
					pos.append((attr, v.slice.value))
				elif isinstance(v, ast.Constant):
					const.append((attr, repr(v.value)))
				else:
					raise TranslateError(f'{where}: {src(s)} is neither a stored position nor a constant')
		return pos, const

	meta_pos, meta_const = assigns(t.body, 'meta', 'entry_tree', '__loads tree branch')
	need(src(t.body[-1]) == "return lark.Tree(entry_tree['name'], children, meta)", f'__loads: tree constructor changed: {src(t.body[-1])}')
	need(any(src(s) == 'meta = lark.tree.Meta()' for s in t.body), '__loads: meta is not a fresh lark.tree.Meta()')
	loop2 = [s for s in t.body if isinstance(s, ast.For)]
	need(len(loop2) == 1 and src(loop2[0].iter) == "cast(list[DumpTreeEntry], entry_tree['children'])" and src(loop2[0].body[0]) == 'children.append(cls.__loads(child))', '__loads: children loop changed')
	need(len(t.orelse) == 1 and isinstance(t.orelse[0], ast.If), '__loads: expected elif')
	k = t.orelse[0]
	assert isinstance(k, ast.If)
	need(src(k.test) == "type(entry) is dict and 'value' in entry", f'__loads: token test changed: {src(k.test)}')
	tok_pos, tok_const = assigns(k.body, 'token', 'entry_token', '__loads token branch')
	need(any(src(s) == "token = lark.Token(entry_token['name'], entry_token['value'])" for s in k.body), '__loads: token constructor changed')
	need(src(k.body[-1]) == 'return token' and not tok_const, '__loads: token branch changed')
	need(len(k.orelse) == 1 and src(k.orelse[0]) == 'return None', '__loads: last branch is not `return None`')
	return {'dumpTupleOrder': order, 'dumpTreeRecord': tree_rec, 'dumpTokenRecord': token_rec,
		'loadsMeta': meta_pos, 'loadsMetaConst': meta_const, 'loadsToken': tok_pos}


# ---------------------------------------------------------------------------------------------
# EntryStored / SyntaxParserOfLark


def call_kwargs(call: ast.Call) -> list[tuple[str, str]]:
	out = []
	for kw in call.keywords:
		need(kw.arg is not None, 'unexpected **kwargs')
		out.append((str(kw.arg), src(kw.value)))
	return out


def parser_side() -> dict[str, Any]:
	tree = parse_file(PARSER_PY)
	stored = find_class(tree, 'EntryStored')
	save = body_without_doc(find_func(stored, 'save'))
	need(len(save) == 2 and src(save[0]) == 'data = Serialization.dumps(cast(lark.Tree, self.entry.source))', 'EntryStored.save: first statement changed')
	w = save[1]
	need(isinstance(w, ast.Expr) and isinstance(w.value, ast.Call) and src(w.value.func) == 'stream.write' and len(w.value.args) == 1, 'EntryStored.save: expected stream.write(…)')
	assert isinstance(w, ast.Expr) and isinstance(w.value, ast.Call)
	enc = w.value.args[0]
	need(isinstance(enc, ast.Call) and isinstance(enc.func, ast.Attribute) and enc.func.attr == 'encode' and [src(a) for a in enc.args] == ["'utf-8'"], 'EntryStored.save: text is not .encode(\'utf-8\')')
	assert isinstance(enc, ast.Call) and isinstance(enc.func, ast.Attribute)
	dumps = enc.func.value
	need(isinstance(dumps, ast.Call) and src(dumps.func) == 'json.dumps' and [src(a) for a in dumps.args] == ['data'], 'EntryStored.save: text is not json.dumps(data, …) directly (something stands between dumps and encode)')
	assert isinstance(dumps, ast.Call)
	save_kwargs = call_kwargs(dumps)
	load = body_without_doc(find_func(stored, 'load'))
	need([src(s) for s in load] == ['data = json.load(stream)', 'tree = cast(lark.Tree, Serialization.loads(data))', 'return EntryStored(EntryOfLark(tree))'], 'EntryStored.load changed')

	sp = find_class(tree, 'SyntaxParserOfLark')

	def identity_of(fn_name: str) -> tuple[list[tuple[str, str]], list[tuple[str, str]], str]:
		fn = find_func(sp, fn_name)
		ids = [s for s in ast.walk(fn) if isinstance(s, ast.Assign) and src(s.targets[0]) == 'identity']
		need(len(ids) == 1 and isinstance(ids[0].value, ast.Dict), f'{fn_name}: expected one `identity = {{…}}`')
		d = ids[0].value
		assert isinstance(d, ast.Dict)
		pairs = []
		for k, v in zip(d.keys, d.values):
			need(isinstance(k, ast.Constant) and isinstance(k.value, str), f'{fn_name}: identity key is not a literal')
			assert isinstance(k, ast.Constant)
			pairs.append((k.value, src(v)))
		gets = [c for c in ast.walk(fn) if isinstance(c, ast.Call) and src(c.func) == 'self.__caches.get']
		need(len(gets) == 1 and len(gets[0].args) == 1, f'{fn_name}: expected one self.__caches.get(key, …)')
		return pairs, call_kwargs(gets[0]), src(gets[0].args[0])

	tree_id, tree_get, tree_key = identity_of('__load_entry')
	parser_id, parser_get, parser_key = identity_of('__load_parser')
	lp = find_func(sp, '__load_parser')
	larks = [c for c in ast.walk(lp) if isinstance(c, ast.Call) and src(c.func) == 'lark.Lark']
	need(len(larks) == 1, '__load_parser: expected one lark.Lark(…)')
	ls = body_without_doc(find_func(sp, '__load_source'))
	need(len(ls) == 2 and src(ls[0]) == 'source = self.__source_provider(module_path)', '__load_source: first statement changed')
	return {'saveKwargs': save_kwargs, 'treeIdentity': tree_id, 'treeCacheKwargs': tree_get, 'treeCacheKey': tree_key,
		'parserIdentity': parser_id, 'parserCacheKwargs': parser_get, 'parserCacheKey': parser_key,
		'larkKwargs': call_kwargs(larks[0]), 'loadSourceRule': src(ls[1])}


# ---------------------------------------------------------------------------------------------
# ErrorRender.__build_quotation


def render_guard() -> dict[str, Any]:
	cls = find_class(parse_file(RENDER_PY), 'ErrorRender')
	fn = find_func(cls, '__build_quotation')
	body = body_without_doc(fn)
	texts = [src(s) for s in body]
	guards = [i for i, s in enumerate(body) if isinstance(s, ast.If) and 'source_map' in src(s.test)]
	need(len(guards) == 1, '__build_quotation: expected exactly one guard on the source map')
	g = body[guards[0]]
	assert isinstance(g, ast.If)
	need([src(s) for s in g.body] == ['return []'] and not g.orelse, '__build_quotation: the guard does not return []')
	tests = g.test.values if isinstance(g.test, ast.BoolOp) and isinstance(g.test.op, ast.Or) else None
	need(tests is not None, '__build_quotation: the guard is not an `or` of comparisons')
	assert tests is not None
	disj: list[tuple[str, int, str, int]] = []
	for t in tests:
		need(isinstance(t, ast.Compare) and len(t.ops) == 1 and isinstance(t.comparators[0], ast.Constant) and isinstance(t.comparators[0].value, int), f'__build_quotation: guard operand {src(t)} is not a comparison with an int')
		assert isinstance(t, ast.Compare) and isinstance(t.comparators[0], ast.Constant)
		hit = [(w, i) for w in ('begin', 'end') for i in (0, 1) if src(t.left) == f"node.source_map['{w}'][{i}]"]
		need(len(hit) == 1, f'__build_quotation: guard tests {src(t.left)}, not an unshifted field of node.source_map')
		op = {ast.Lt: '<', ast.LtE: '<=', ast.Gt: '>', ast.GtE: '>=', ast.Eq: '==', ast.NotEq: '!='}.get(type(t.ops[0]))
		need(op is not None, '__build_quotation: unknown comparison')
		disj.append((hit[0][0], hit[0][1], str(op), t.comparators[0].value))
	shifts = [i for i, s in enumerate(body) if isinstance(s, ast.Assign) and src(s.targets[0]) == 'source_map']
	need(len(shifts) == 1, '__build_quotation: expected one `source_map = (…)`')
	sh = body[shifts[0]]
	assert isinstance(sh, ast.Assign)
	need(isinstance(sh.value, ast.Tuple), '__build_quotation: the shift is not a tuple')
	assert isinstance(sh.value, ast.Tuple)
	shift: list[tuple[str, int, int]] = []
	for e in sh.value.elts:
		need(isinstance(e, ast.BinOp) and isinstance(e.op, (ast.Sub, ast.Add)) and isinstance(e.right, ast.Constant) and isinstance(e.right.value, int), f'__build_quotation: shift element {src(e)} is not field ± int')
		assert isinstance(e, ast.BinOp) and isinstance(e.right, ast.Constant)
		hit = [(w, i) for w in ('begin', 'end') for i in (0, 1) if src(e.left) == f"node.source_map['{w}'][{i}]"]
		need(len(hit) == 1, f'__build_quotation: shift element {src(e)} does not read node.source_map')
		shift.append((hit[0][0], hit[0][1], -e.right.value if isinstance(e.op, ast.Sub) else e.right.value))
	exists = [i for i, t in enumerate(texts) if t.startswith('if not os.path.exists(filepath)')]
	need(len(exists) == 1, '__build_quotation: the file-exists test changed')
	need(texts[-1] == 'return self.Quotation(filepath, source_map).build()', '__build_quotation: last statement changed')
	order = ['exists' if i == exists[0] else 'guard' if i == guards[0] else 'shift' for i in sorted([exists[0], guards[0], shifts[0]])]
	return {'guardDisjuncts': disj, 'shiftFields': shift, 'quotationOrder': order}


# ---------------------------------------------------------------------------------------------
# readers of Entry.source


def source_readers() -> list[str]:
	"""files under rogw/ that read the attribute `.source` of something (candidates for bypassing the Entry interface)"""
	out = []
	for root, _, files in os.walk(os.path.join(REPO, 'rogw')):
		for fn in files:
			if not fn.endswith('.py'):
				continue
			p = os.path.join(root, fn)
			with open(p, encoding='utf-8') as f:
				try:
					tree = ast.parse(f.read())
				except SyntaxError as e:
					raise TranslateError(f'{p}: {e}') from e
			for n in ast.walk(tree):
				if isinstance(n, ast.Attribute) and n.attr == 'source' and isinstance(n.ctx, ast.Load) and src(n.value) != 'self':
					out.append(f'{os.path.relpath(p, REPO)}:{src(n)}')
	return sorted(set(out))


# ---------------------------------------------------------------------------------------------
# Lean output


def lstr(s: str) -> str:
	return '[' + ', '.join("'" + {"'": "\\'", '\\': '\\\\', '\n': '\\n', '\t': '\\t'}.get(c, c) + "'" for c in s) + ']'


def lstrs(xs: list[str]) -> str:
	return '[' + ', '.join(lstr(x) for x in xs) + ']'


def lpairs(xs: list[tuple[str, str]]) -> str:
	return '[' + ', '.join(f'({lstr(a)}, {lstr(b)})' for a, b in xs) + ']'


def generate() -> list[dict[str, Any]]:
	v = view_source_map()
	s = serialization()
	p = parser_side()
	g = render_guard()
	readers = source_readers()
	be = {'begin': 'true', 'end': 'false'}
	lines = [
		'/-',
		'  GENERATED by verif/translate/gen_lark_cache.py from the working tree of the repository — do not edit.',
		f'  Sources: {ENTRY_PY}, {PARSER_PY}, {RENDER_PY}, and a scan of rogw/ for readers of `.source`.',
		'-/',
		'import Tranp.Str',
		'',
		'namespace Tranp.Generated.LarkCache',
		'open Tranp',
		'',
		'/-- EntryOfLark.source_map: attributes read for a tree (on `.meta`) / for a token, in tuple order -/',
		f"def viewTreeFields : List Str := {lstrs(v['viewTreeFields'])}",
		f"def viewTokenFields : List Str := {lstrs(v['viewTokenFields'])}",
		'/-- the token attributes whose truthiness guards the token branch -/',
		f"def viewTokenTruthy : List Str := {lstrs(v['viewTokenTruthy'])}",
		'/-- begin = (t[a], t[b]), end = (t[c], t[d]) -/',
		f"def viewTreeFold : List Nat := {v['viewTreeFold']}",
		f"def viewTokenFold : List Nat := {v['viewTokenFold']}",
		'',
		'/-- Serialization.__dumps: the stored span tuple as (isBegin, index) of the view span -/',
		'def dumpTupleOrder : List (Bool × Nat) := [' + ', '.join(f'({be[w]}, {i})' for w, i in s['dumpTupleOrder']) + ']',
		'/-- the record written for a tree / a token: key and the expression that fills it -/',
		f"def dumpTreeRecord : List (Str × Str) := {lpairs(s['dumpTreeRecord'])}",
		f"def dumpTokenRecord : List (Str × Str) := {lpairs(s['dumpTokenRecord'])}",
		'/-- Serialization.__loads: attribute ← index of the stored span tuple -/',
		'def loadsMeta : List (Str × Nat) := [' + ', '.join(f'({lstr(a)}, {i})' for a, i in s['loadsMeta']) + ']',
		'def loadsToken : List (Str × Nat) := [' + ', '.join(f'({lstr(a)}, {i})' for a, i in s['loadsToken']) + ']',
		'/-- constants assigned to the restored meta (attribute, Python literal) -/',
		f"def loadsMetaConst : List (Str × Str) := {lpairs(s['loadsMetaConst'])}",
		'',
		'/-- EntryStored.save: keyword arguments of json.dumps (everything else is the default, in particular ensure_ascii) -/',
		f"def saveKwargs : List (Str × Str) := {lpairs(p['saveKwargs'])}",
		'/-- cache identities: key and, verbatim, the expression that fills it -/',
		f"def treeIdentity : List (Str × Str) := {lpairs(p['treeIdentity'])}",
		f"def treeCacheKey : Str := {lstr(p['treeCacheKey'])}",
		f"def treeCacheKwargs : List (Str × Str) := {lpairs(p['treeCacheKwargs'])}",
		f"def parserIdentity : List (Str × Str) := {lpairs(p['parserIdentity'])}",
		f"def parserCacheKey : Str := {lstr(p['parserCacheKey'])}",
		f"def parserCacheKwargs : List (Str × Str) := {lpairs(p['parserCacheKwargs'])}",
		'/-- keyword arguments of lark.Lark(…) -/',
		f"def larkKwargs : List (Str × Str) := {lpairs(p['larkKwargs'])}",
		'/-- the return statement of SyntaxParserOfLark.__load_source -/',
		f"def loadSourceRule : Str := {lstr(p['loadSourceRule'])}",
		'',
		'/-- ErrorRender.__build_quotation: the disjuncts `node.source_map[begin|end][i] <op> n` of the no-position guard (on the UNSHIFTED span) -/',
		'def guardDisjuncts : List (Bool × Nat × Str × Int) := [' + ', '.join(f'({be[w]}, {i}, {lstr(op)}, {n})' for w, i, op, n in g['guardDisjuncts']) + ']',
		'/-- the shift: element k of the tuple handed to Quotation = node.source_map[begin|end][i] + d -/',
		'def shiftFields : List (Bool × Nat × Int) := [' + ', '.join(f'({be[w]}, {i}, {d})' for w, i, d in g['shiftFields']) + ']',
		'/-- the order of the file-exists test, the guard and the shift -/',
		f"def quotationOrder : List Str := {lstrs(g['quotationOrder'])}",
		'',
		'/-- every `<expr>.source` read under rogw/ (receiver other than `self`) -/',
		f'def sourceReaders : List Str := {lstrs(readers)}',
		'',
		'end Tranp.Generated.LarkCache',
		'',
	]
	changed = write_if_changed(OUT, '\n'.join(lines))
	entries = sum(len(x) for x in [v['viewTreeFields'], v['viewTokenFields'], s['dumpTreeRecord'], s['dumpTokenRecord'], s['loadsMeta'], s['loadsToken'], p['treeIdentity'], p['parserIdentity'], p['larkKwargs'], g['guardDisjuncts'], g['shiftFields'], readers])
	return [{'file': os.path.relpath(OUT, os.path.dirname(GENERATED_DIR)), 'entries': entries, 'changed': changed,
		'from': [ENTRY_PY, PARSER_PY, RENDER_PY, 'rogw/**/*.py (.source readers)']}]


if __name__ == '__main__':
	for r in generate():
		print(r)
