"""Translator for property C06: what the runner's regeneration decision compares, read from the source (AST only).

Writes `lean/Tranp/Generated/RunnerHeader.lean`:

* `MetaHeader` (data/meta/header.py): the tag, the dictionary `to_json` serialises (keys in order with the attribute each one
  carries, the separators), `identity`, `__eq__` (guard + the comparison it returns), `__init__` (what each attribute is set
  from — the `app_version or Versions.app` default), `from_json` (the keys handed to the constructor, in order),
  `to_header_str` (the f-string), `try_from_content` (statements, verbatim);
* `ModuleMeta` / `TranspilerMeta` (data/meta/types.py): the TypedDict fields;
* `module_meta_factory` (providers/module.py): the lookup statements and the dictionary it returns;
* `Py2Cpp.meta` (implements/cpp/transpiler/py2cpp.py): the dictionary; `Versions` (data/version.py): the two constants;
* `Runner.can_transpile` / `_run_impl` / `try_load_meta_header` (bin/transpile.py): statements, verbatim; the arguments of the
  `MetaHeader(...)` built for the comparison; `Config.force`;
* `Writer` (file/writer.py): `__init__`, `put`, `flush`, `_flush` — the buffer replaces the file as a whole (one builtin
  `open(..., mode='wb')`, anything else is a TranslateError).

Derived table `comparedFields`: the leaf paths of the header JSON (`to_json` keys × TypedDict fields) — every one of them enters
the identity the decision compares — and `currentInputs`: the source expression each of them is computed from for the module
under test. Props/C06.lean proves that the model's header has exactly these fields, that the model implements the generated
statements, and `skip_implies_equal_header_inputs` over the generated list. A shape this generator does not recognise raises
`TranslateError` — the tie is broken, never silently defaulted.
"""
from __future__ import annotations

import ast
import os
from typing import Any

from harness.common import GENERATED_DIR, REPO, write_if_changed

OUT = os.path.join(GENERATED_DIR, 'RunnerHeader.lean')

HEADER_PY = 'rogw/tranp/data/meta/header.py'
TYPES_PY = 'rogw/tranp/data/meta/types.py'
PROVIDER_PY = 'rogw/tranp/providers/module.py'
PY2CPP_PY = 'rogw/tranp/implements/cpp/transpiler/py2cpp.py'
VERSION_PY = 'rogw/tranp/data/version.py'
TRANSPILE_PY = 'rogw/tranp/bin/transpile.py'
WRITER_PY = 'rogw/tranp/file/writer.py'


class TranslateError(Exception):
	pass


def need(cond: bool, msg: str) -> None:
	if not cond:
		raise TranslateError(msg)


def parse_file(rel: str) -> ast.Module:
	with open(os.path.join(REPO, rel), encoding='utf-8') as f:
		return ast.parse(f.read())


def find_class(tree: ast.AST, name: str) -> ast.ClassDef:
	hits = [n for n in ast.walk(tree) if isinstance(n, ast.ClassDef) and n.name == name]
	need(len(hits) == 1, f'expected exactly one class {name}')
	return hits[0]


def find_func(scope: ast.AST, name: str) -> ast.FunctionDef:
	hits = [n for n in getattr(scope, 'body', []) if isinstance(n, ast.FunctionDef) and n.name == name]
	need(len(hits) == 1, f'expected exactly one function {name}')
	return hits[0]


def body(fn: ast.FunctionDef) -> list[ast.stmt]:
	b = fn.body
	if b and isinstance(b[0], ast.Expr) and isinstance(b[0].value, ast.Constant) and isinstance(b[0].value.value, str):
		return b[1:]
	return b


def stmts(fn: ast.FunctionDef) -> list[str]:
	"""Flat, verbatim rendering of a function body (compound statements: header, bodies, `end`)."""
	out: list[str] = []

	def walk(ss: list[ast.stmt]) -> None:
		for s in ss:
			if isinstance(s, ast.If):
				out.append(f'if {ast.unparse(s.test)}:')
				walk(s.body)
				if s.orelse:
					out.append('else:')
					walk(s.orelse)
				out.append('end')
			elif isinstance(s, ast.For):
				need(not s.orelse, 'for/else is not understood')
				out.append(f'for {ast.unparse(s.target)} in {ast.unparse(s.iter)}:')
				walk(s.body)
				out.append('end')
			elif isinstance(s, ast.With):
				out.append('with ' + ', '.join(ast.unparse(i) for i in s.items) + ':')
				walk(s.body)
				out.append('end')
			elif isinstance(s, ast.Try):
				need(not s.orelse and not s.finalbody, 'try/else/finally is not understood')
				out.append('try:')
				walk(s.body)
				for h in s.handlers:
					out.append(f"except {ast.unparse(h.type) if h.type else ''}:")
					walk(h.body)
				out.append('end')
			elif isinstance(s, ast.FunctionDef):
				out.append(f'def {s.name}({ast.unparse(s.args)}):')
				walk(body(s))
				out.append('end')
			elif isinstance(s, (ast.Assign, ast.AnnAssign, ast.AugAssign, ast.Return, ast.Expr, ast.Raise)):
				if isinstance(s, ast.Expr) and isinstance(s.value, ast.Constant) and isinstance(s.value.value, str):
					continue
				out.append(ast.unparse(s))
			else:
				raise TranslateError(f'statement kind {type(s).__name__} is not understood: {ast.unparse(s)[:80]}')
	walk(body(fn))
	return out


def single_return(fn: ast.FunctionDef) -> ast.expr:
	b = body(fn)
	need(len(b) == 1 and isinstance(b[0], ast.Return) and b[0].value is not None, f'{fn.name}: expected a single return')
	return b[0].value  # type: ignore[return-value]


def dict_items(d: ast.expr, where: str) -> list[tuple[str, str]]:
	need(isinstance(d, ast.Dict), f'{where}: expected a dict display')
	out = []
	for k, v in zip(d.keys, d.values):  # type: ignore[attr-defined]
		need(isinstance(k, ast.Constant) and isinstance(k.value, str), f'{where}: expected string keys')
		out.append((k.value, ast.unparse(v)))
	return out


def typed_dict_fields(tree: ast.AST, name: str) -> list[str]:
	cls = find_class(tree, name)
	need(any(ast.unparse(b) == 'TypedDict' for b in cls.bases), f'{name}: expected a TypedDict')
	fields = []
	for s in cls.body:
		if isinstance(s, ast.Expr) and isinstance(s.value, ast.Constant):
			continue
		need(isinstance(s, ast.AnnAssign) and isinstance(s.target, ast.Name) and s.value is None, f'{name}: expected annotated fields only')
		need(ast.unparse(s.annotation) == 'str', f'{name}.{s.target.id}: expected a str field')  # type: ignore[union-attr]
		fields.append(s.target.id)  # type: ignore[union-attr]
	return fields


def lean_str(s: str) -> str:
	def ch(c: str) -> str:
		if c == "'":
			return "'\\''"
		if c == '\\':
			return "'\\\\'"
		if c == '\n':
			return "'\\n'"
		if c == '\t':
			return "'\\t'"
		need(32 <= ord(c) < 127, f'non-ASCII character in a source expression: {c!r}')
		return f"'{c}'"
	return '[' + ', '.join(ch(c) for c in s) + ']'


def lean_list(name: str, items: list[str], doc: str) -> str:
	return f'/-- {doc} -/\ndef {name} : List Str := [' + ', '.join(lean_str(i) for i in items) + ']\n'


def lean_pairs(name: str, items: list[tuple[str, str]], doc: str) -> str:
	return f'/-- {doc} -/\ndef {name} : List (Str × Str) := [' + ', '.join(f'({lean_str(a)}, {lean_str(b)})' for a, b in items) + ']\n'


def lean_one(name: str, s: str, doc: str) -> str:
	return f'/-- {doc} -/\ndef {name} : Str := {lean_str(s)}\n'


def class_constant(cls: ast.ClassDef, name: str) -> str:
	for s in cls.body:
		target = s.target if isinstance(s, ast.AnnAssign) else (s.targets[0] if isinstance(s, ast.Assign) and len(s.targets) == 1 else None)
		if isinstance(target, ast.Name) and target.id == name:
			need(isinstance(s.value, ast.Constant) and isinstance(s.value.value, str), f'{cls.name}.{name}: expected a string constant')  # type: ignore[union-attr]
			return s.value.value  # type: ignore[union-attr]
	raise TranslateError(f'{cls.name}.{name} not found')


def generate() -> list[dict[str, Any]]:
	header = find_class(parse_file(HEADER_PY), 'MetaHeader')
	types = parse_file(TYPES_PY)
	provider = parse_file(PROVIDER_PY)
	py2cpp = find_class(parse_file(PY2CPP_PY), 'Py2Cpp')
	versions = find_class(parse_file(VERSION_PY), 'Versions')
	transpile = parse_file(TRANSPILE_PY)
	runner = find_class(transpile, 'Runner')
	config = find_class(transpile, 'Config')

	# --- MetaHeader.to_json: json.dumps({<key>: self.<attr>, …}, separators=(',', ':'))
	call = single_return(find_func(header, 'to_json'))
	need(isinstance(call, ast.Call) and ast.unparse(call.func) == 'json.dumps' and len(call.args) == 1, 'to_json: expected json.dumps(<dict>, …)')
	json_keys = dict_items(call.args[0], 'to_json')  # type: ignore[attr-defined]
	kw = {k.arg: ast.unparse(k.value) for k in call.keywords}  # type: ignore[attr-defined]
	need(set(kw) == {'separators'}, f'to_json: unexpected json.dumps keywords {sorted(kw)}')
	for _, v in json_keys:
		need(v.startswith('self.') and v[5:].isidentifier(), f'to_json: value {v} is not an attribute of the header')

	# --- __init__: what each serialised attribute is set from
	init = find_func(header, '__init__')
	params = [a.arg for a in init.args.args[1:]]
	assigned: dict[str, str] = {}
	for s in body(init):
		need(isinstance(s, ast.Assign) and len(s.targets) == 1 and ast.unparse(s.targets[0]).startswith('self.'), f'__init__: unexpected statement {ast.unparse(s)[:60]}')
		assigned[ast.unparse(s.targets[0])] = ast.unparse(s.value)  # type: ignore[attr-defined]
	for _, v in json_keys:
		need(v in assigned, f'__init__ does not set {v}')

	# --- from_json: cls(raw[k1], raw[k2], …)
	fj = find_func(header, 'from_json')
	ret = [s for s in body(fj) if isinstance(s, ast.Return)]
	need(len(ret) == 1 and isinstance(ret[0].value, ast.Call) and ast.unparse(ret[0].value.func) == 'cls', 'from_json: expected `return cls(…)`')
	from_keys = []
	for a in ret[0].value.args:  # type: ignore[union-attr]
		need(isinstance(a, ast.Subscript) and ast.unparse(a.value) == 'raw' and isinstance(a.slice, ast.Constant), f'from_json: argument {ast.unparse(a)} is not raw[<key>]')
		from_keys.append(a.slice.value)  # type: ignore[union-attr]
	need(len(from_keys) == len(params), 'from_json: argument count differs from the constructor parameters')
	# the JSON key read for a constructor parameter must be the key that parameter's attribute is written under
	written_under = {assigned[v].split(' or ')[0]: k for k, v in json_keys}
	for key, param in zip(from_keys, params):
		need(written_under.get(param) == key, f'from_json reads {key!r} for parameter {param}, to_json writes it under {written_under.get(param)!r}')

	# --- TypedDicts and the leaf paths of the header JSON
	nested = {'self.module_meta': typed_dict_fields(types, 'ModuleMeta'), 'self.transpiler_meta': typed_dict_fields(types, 'TranspilerMeta')}
	compared: list[list[str]] = []
	for k, v in json_keys:
		if v in nested:
			compared.extend([k, f] for f in nested[v])
		else:
			compared.append([k])

	# --- module_meta_factory.handler / Py2Cpp.meta: the dictionaries behind the nested fields
	factory = find_func(provider, 'module_meta_factory')
	handler = find_func(factory, 'handler')
	hret = [s for s in body(handler) if isinstance(s, ast.Return)]
	need(len(hret) == 1, 'module_meta_factory.handler: expected one return')
	module_items = dict_items(hret[0].value, 'module_meta_factory.handler')  # type: ignore[arg-type]
	need([k for k, _ in module_items] == nested['self.module_meta'], 'module_meta_factory returns other keys than ModuleMeta declares')
	meta_items = dict_items(single_return(find_func(py2cpp, 'meta')), 'Py2Cpp.meta')
	need([k for k, _ in meta_items] == nested['self.transpiler_meta'], 'Py2Cpp.meta returns other keys than TranspilerMeta declares')

	# --- Runner.can_transpile: the header built for the comparison
	can = find_func(runner, 'can_transpile')
	built = [s for s in ast.walk(can) if isinstance(s, ast.Call) and ast.unparse(s.func) == 'MetaHeader']
	need(len(built) == 1, 'can_transpile: expected exactly one MetaHeader(…)')
	new_meta_args = [ast.unparse(a) for a in built[0].args] + [f'{k.arg}={ast.unparse(k.value)}' for k in built[0].keywords]

	# current inputs of the compared fields, as source expressions
	by_param = dict(zip(params, new_meta_args + [''] * (len(params) - len(new_meta_args))))
	inputs: list[tuple[str, str]] = []
	for k, v in json_keys:
		src = assigned[v]
		param = src.split(' or ')[0]
		if v == 'self.module_meta':
			need(by_param.get(param, '').startswith('self.module_meta_factory('), 'can_transpile: the module meta is not built by module_meta_factory')
			arg = by_param[param][len('self.module_meta_factory('):-1]
			for f, e in module_items:
				inputs.append((f'{k}.{f}', e if e != 'module_path' else arg))
		elif v == 'self.transpiler_meta':
			need(by_param.get(param) == 'self.transpiler.meta', 'can_transpile: the transpiler meta is not self.transpiler.meta')
			for f, e in meta_items:
				inputs.append((f'{k}.{f}', e))
		else:
			given = by_param.get(param, '')
			inputs.append((k, src.replace(param, given, 1) if given else src.split(' or ', 1)[1] if ' or ' in src else src))

	eq = find_func(header, '__eq__')
	eq_ret = [ast.unparse(s) for s in body(eq) if isinstance(s, ast.Return)]
	need(len(eq_ret) == 1, '__eq__: expected one return')
	force = [ast.unparse(s) for s in ast.walk(find_func(config, '__init__')) if isinstance(s, ast.Assign) and ast.unparse(s.targets[0]) == 'self.force']
	need(len(force) == 1, 'Config.__init__: expected one `self.force = …`')
	hs = find_func(header, 'to_header_str')
	writer = find_class(parse_file(WRITER_PY), 'Writer')
	flush_impl = find_func(writer, '_flush')
	# the file is replaced as a whole: exactly one open(), in a truncating write mode, and one write of the whole buffer
	opens = [c for c in ast.walk(flush_impl) if isinstance(c, ast.Call) and ast.unparse(c.func) in ('open', 'os.open', 'os.fdopen', 'io.open')]
	need(len(opens) == 1 and ast.unparse(opens[0].func) == 'open', f'Writer._flush: expected exactly one builtin open(), found {[ast.unparse(c.func) for c in opens]}')
	mode = [ast.unparse(k.value) for k in opens[0].keywords if k.arg == 'mode'] + [ast.unparse(a) for a in opens[0].args[1:2]]
	need(mode == ["'wb'"], f"Writer._flush: expected open(..., mode='wb') (truncating), found {mode}")

	parts = [
		lean_one('tag', class_constant(header, 'Tag'), '`MetaHeader.Tag` (data/meta/header.py)'),
		lean_pairs('toJsonKeys', json_keys, 'the dictionary `MetaHeader.to_json` serialises: key, attribute'),
		lean_one('toJsonSeparators', kw['separators'], 'the `separators` of that json.dumps'),
		lean_pairs('initAssigns', sorted(assigned.items()), '`MetaHeader.__init__`: attribute, what it is set from'),
		lean_list('fromJsonKeys', from_keys, 'the keys `from_json` hands to the constructor, in parameter order'),
		lean_list('fromJson', stmts(fj), '`MetaHeader.from_json`'),
		lean_list('identity', stmts(find_func(header, 'identity')), '`MetaHeader.identity`'),
		lean_list('eq', stmts(eq), '`MetaHeader.__eq__`'),
		lean_one('eqReturn', eq_ret[0], 'what `__eq__` answers'),
		lean_list('toHeaderStr', stmts(hs), '`MetaHeader.to_header_str`'),
		lean_list('tryFromContent', stmts(find_func(header, 'try_from_content')), '`MetaHeader.try_from_content`'),
		lean_list('moduleMetaFields', nested['self.module_meta'], 'fields of the TypedDict `ModuleMeta` (data/meta/types.py)'),
		lean_list('transpilerMetaFields', nested['self.transpiler_meta'], 'fields of the TypedDict `TranspilerMeta`'),
		lean_list('factoryHandler', stmts(handler), '`module_meta_factory.handler` (providers/module.py)'),
		lean_pairs('factoryMeta', module_items, 'the dictionary the factory returns'),
		lean_pairs('py2cppMeta', meta_items, '`Py2Cpp.meta` (implements/cpp/transpiler/py2cpp.py)'),
		lean_one('versionsApp', class_constant(versions, 'app'), '`Versions.app` (data/version.py)'),
		lean_one('versionsPy2cpp', class_constant(versions, 'py2cpp'), '`Versions.py2cpp`'),
		lean_list('canTranspile', stmts(can), '`Runner.can_transpile` (bin/transpile.py)'),
		lean_list('newMetaArgs', new_meta_args, 'the arguments of the `MetaHeader(…)` that `can_transpile` compares with the stored header'),
		lean_list('tryLoadMetaHeader', stmts(find_func(runner, 'try_load_meta_header')), '`Runner.try_load_meta_header`'),
		lean_list('runImpl', stmts(find_func(runner, '_run_impl')), '`Runner._run_impl`'),
		lean_one('configForce', force[0], '`Config.force`'),
		lean_list('writerInit', stmts(find_func(writer, '__init__')), '`Writer.__init__` (file/writer.py)'),
		lean_list('writerPut', stmts(find_func(writer, 'put')), '`Writer.put`'),
		lean_list('writerFlush', stmts(find_func(writer, 'flush')), '`Writer.flush`'),
		lean_list('writerFlushImpl', stmts(flush_impl), '`Writer._flush`: the whole buffer replaces the file (`wb` truncates)'),
		'/-- the leaf paths of the header JSON: every one enters the identity that the decision compares -/\ndef comparedFields : List (List Str) := ['
			+ ', '.join('[' + ', '.join(lean_str(x) for x in p) + ']' for p in compared) + ']\n',
		lean_pairs('currentInputs', inputs, 'compared field (dotted), the expression its current value is computed from for the module under test'),
	]
	text = ('/-\n  GENERATED by verif/translate/gen_runner_header.py from the working tree of the repository — do not edit.\n'
		'  What the runner writes into an output header and what its regeneration decision compares (property C06).\n-/\nimport Tranp.Str\n\n'
		'namespace Tranp.Generated.RunnerHeader\nopen Tranp\n\n' + '\n'.join(parts) + '\nend Tranp.Generated.RunnerHeader\n')
	changed = write_if_changed(OUT, text)
	return [{'file': os.path.relpath(OUT, os.path.dirname(GENERATED_DIR)), 'entries': len(parts), 'changed': changed,
		'sources': [HEADER_PY, TYPES_PY, PROVIDER_PY, PY2CPP_PY, VERSION_PY, TRANSPILE_PY, WRITER_PY]}]


if __name__ == '__main__':
	print(generate())
