"""Translator for property C14: the symbol table of the shipped standard-library modules as Lean data.

Loads the library modules (`providers.module.library_paths`: rogw.tranp.compatible.libralies.type / .classes and what they import)
with the real App against an empty private cache, resolves every lazy attribute / origin mod and writes
`lean/Tranp/Generated/SymbolTables.lean`:

* `table`   — `SymbolDB` as the model's `Table` (key ↦ types / node / decl DSN, via key, observable attribute forest), in table order,
              restricted to the modules of at most MAX_ENTRIES entries (the kernel decides the invariants on character lists — a few
              minutes for the 338 entries of `classes`, so that module is left to the per-run evaluation by the compiled driver) and to
              what they refer to: the restriction must be closed under references, otherwise the generator fails
* `world`   — what the entrypoints know about every DSN that occurs (is it found, is it a ClassDef, is it a declaration, its fullyname)
* `rank`    — a rank of the class entries (longest reference chain inside the module): the witness of acyclicity
* `modules` — the modules whose export / import round trip Props/C14.lean then proves from the invariants, decided by the kernel

A shape the generator does not understand (a symbol that cannot be resolved, a class entry that refers to itself, a DSN with two
`#`) is an error: the tie is broken, never a silent default.
"""
from __future__ import annotations

import os
import tempfile
import shutil
from typing import Any

from harness.common import GENERATED_DIR, write_if_changed

OUT = os.path.join(GENERATED_DIR, 'SymbolTables.lean')
MAX_ENTRIES = 100


class TranslateError(Exception):
	pass


def lean_chars(s: str) -> str:
	out = []
	for c in s:
		if c == "'":
			out.append("'\\''")
		elif c == '\\':
			out.append("'\\\\'")
		elif 32 <= ord(c) < 127:
			out.append(f"'{c}'")
		else:
			raise TranslateError(f'unexpected character {c!r} in {s!r}')
	return '[' + ', '.join(out) + ']'


def load_table() -> tuple[list[tuple[str, Any]], Any]:
	from harness.c14 import MultiApp, describe
	from rogw.tranp.module.modules import Modules
	from rogw.tranp.semantics.reflection.db import SymbolDB
	cache = tempfile.mkdtemp(prefix='tranp-verif-c14tr-')
	try:
		app = MultiApp(cache)
		app.resolve(Modules).libralies()
		db = app.resolve(SymbolDB)
		items = list(db.items())
		for k, s in items:
			try:
				describe(s)
			except Exception as e:  # noqa: BLE001
				raise TranslateError(f'library symbol {k} cannot be resolved: {type(e).__name__}') from e
		return items, app
	finally:
		shutil.rmtree(cache, ignore_errors=True)


def generate() -> list[dict[str, Any]]:
	import rogw.tranp.syntax.node.definition as defs
	from harness.c14 import dsn_of, obs_forest, forest_keys
	all_items, _app = load_table()
	if not all_items:
		raise TranslateError('the library table is empty')
	sizes: dict[str, int] = {}
	for k, _ in all_items:
		sizes[k.split('#')[0]] = sizes.get(k.split('#')[0], 0) + 1
	small = {m for m, n in sizes.items() if n <= MAX_ENTRIES}
	items = [(k, s) for k, s in all_items if k.split('#')[0] in small]
	if not items:
		raise TranslateError(f'no library module has at most {MAX_ENTRIES} entries')
	kept = {k for k, _ in items}
	every = {k for k, _ in all_items}
	for k, s in items:
		for r in [s.types.fullyname, s.via.types.fullyname, *forest_keys(obs_forest(s.attrs))]:
			if r in every and r not in kept:
				raise TranslateError(f'{k} refers to {r}, which is outside the generated sub-table')
	strings: dict[str, str] = {}

	def name(s: str) -> str:
		if s not in strings:
			strings[s] = f's{len(strings)}'
		return strings[s]

	nodes: dict[str, tuple[bool, bool, str]] = {}

	def node(n: Any) -> str:
		d = dsn_of(n)
		if d.count('#') != 1 or d.startswith('#'):
			raise TranslateError(f'node DSN {d!r} is not module#path')
		is_decl = len([c for c in defs.DeclAllTs if isinstance(n, c)]) == 1
		info = (bool(n.is_a(defs.ClassDef)), is_decl, n.fullyname)
		if nodes.setdefault(d, info) != info:
			raise TranslateError(f'two different nodes share the DSN {d}')
		return d

	def forest(f: list) -> str:
		return '[' + ', '.join(f'.mk {name(k)} {forest(cs)}' for k, cs in f) + ']'

	rows = []
	table: dict[str, Any] = {}
	for k, s in items:
		f = obs_forest(s.attrs)
		rows.append(f'  ({name(k)}, {{ types := {name(node(s.types))}, node := {name(node(s.node))}, decl := {name(node(s.decl))}, via := {name(s.via.types.fullyname)}, attrs := {forest(f)} }})')
		table[k] = (s, f)
	modules = []
	for k in table:
		m = k.split('#')[0]
		if m not in modules:
			modules.append(m)
	# rank = longest chain of class entries that refer to each other inside their module
	rank: dict[str, int] = {}
	visiting: set[str] = set()

	def rank_of(k: str) -> int:
		if k in rank:
			return rank[k]
		if k in visiting:
			raise TranslateError(f'class entry {k} refers to itself through its attributes')
		visiting.add(k)
		s, f = table[k]
		r = 0
		if s.node.is_a(defs.ClassDef) and s.types == s.decl:
			for c in forest_keys(f):
				if c.split('#')[0] == k.split('#')[0] and c in table:
					r = max(r, rank_of(c) + 1)
		visiting.discard(k)
		rank[k] = r
		return r
	for k in table:
		rank_of(k)
	lines = [
		'/-',
		'  GENERATED by translate/gen_symbol_tables.py from the loaded symbol table of the shipped library modules — do not edit.',
		f'  {len(items)} entries, modules: {", ".join(modules)}',
		'-/',
		'import Tranp.Model.SymbolJson',
		'',
		'namespace Tranp.Generated.SymbolTables',
		'open Tranp Tranp.SymbolJson',
		'',
	]
	body = [
		'def table : Table := { items := [',
		',\n'.join(rows),
		'] }',
		'',
		'/-- (DSN, is a ClassDef, is a declaration, fullyname) of every node the table mentions -/',
		'def nodes : List (Str × Bool × Bool × Str) := [',
		',\n'.join(f'  ({name(d)}, {str(c).lower()}, {str(dc).lower()}, {name(fn)})' for d, (c, dc, fn) in nodes.items()),
		']',
		'',
		'def world : World :=',
		'  { known := fun d => (dictGet? nodes d).isSome',
		'    isClassDef := fun d => match dictGet? nodes d with | some i => i.1 | none => false',
		'    isDecl := fun d => match dictGet? nodes d with | some i => i.2.1 | none => false',
		'    fullyname := fun d => match dictGet? nodes d with | some i => i.2.2 | none => [] }',
		'',
		'def ranks : List (Str × Nat) := [',
		',\n'.join(f'  ({name(k)}, {r})' for k, r in rank.items() if r),
		']',
		'',
		'def rank (k : Str) : Nat := match dictGet? ranks k with | some r => r | none => 0',
		'',
		'def modules : List Str := [' + ', '.join(name(m) for m in modules) + ']',
		'',
		'end Tranp.Generated.SymbolTables',
		'',
	]
	defs_ = [f'def {n} : Str := {lean_chars(s)}' for s, n in strings.items()]
	text = '\n'.join(lines + defs_ + [''] + body)
	changed = write_if_changed(OUT, text)
	return [{'file': os.path.relpath(OUT, os.path.dirname(GENERATED_DIR)), 'entries': len(items), 'modules': modules, 'strings': len(strings), 'changed': changed}]
