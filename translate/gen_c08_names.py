"""Translator for C08: the table of NAME-SPELLING sites of py2cpp.py -> lean/Tranp/Generated/C08Names.lean.

A name-spelling site is a comparison (`==`, `!=`, `in`, `not in`, `<Enum>.in_value(…)`) of a user-controlled NAME — an expression
ending in `.tokens` / `.domain_name`, or a local variable assigned from one — with words the transpiler spells out itself
(`FuncCallSpec.dict_iter_methods`, `CVars.Verbs.On.value`, `'__init__'`, `range.__name__`, …). The words are EVALUATED in the
namespace of the imported module, so the table holds the spellings this revision really compares with.

For every site the translator also collects the TYPE GUARDS that stand between the comparison and its effect:
calls of `type_is`, `cvars.contains`, `cvars.equals`, `isinstance(<x>.types, …)`, `self.is_<predicate>(…)` found
  * in the tests of all enclosing `if` / conditional expressions (the comparison sits in the test or in the branch),
  * in the tests of the `if` statements directly inside the branch the comparison opens,
  * for the early-exit form `if <name> != <word>: return False`, in the statements that follow it.
A member name (`….prop.tokens`) that a user class may define as well (`items`, `pop`, `on`, …) is only safe to compare by
spelling when such a guard ties the decision to the TYPE of the receiver: Props/C08 `name_sites_guarded` decides over this
table that every such site is guarded, except the sites it lists. The same words feed the generator of the search
(c08gen.generate_spelling: user classes whose members carry exactly these spellings).

Unknown shapes (a comparison operator chain, a name on both sides that cannot be told apart) raise TranslateError = broken tie.
"""
from __future__ import annotations

import ast
import hashlib
import importlib
import os
from collections import Counter
from typing import Any

from harness.common import GENERATED_DIR, REPO, write_if_changed

TARGET = os.path.join(GENERATED_DIR, 'C08Names.lean')
SOURCE = 'rogw/tranp/implements/cpp/transpiler/py2cpp.py'
MODULE = 'rogw.tranp.implements.cpp.transpiler.py2cpp'
NAME_ATTRS = ('tokens', 'domain_name')
GUARD_CALLS = ('type_is', 'contains', 'equals')


class TranslateError(Exception):
	pass


def _guards(e: ast.AST) -> set[str]:
	out: set[str] = set()
	for n in ast.walk(e):
		if isinstance(n, ast.Call) and isinstance(n.func, ast.Attribute) and n.func.attr in GUARD_CALLS:
			out.add(n.func.attr)
		elif isinstance(n, ast.Call) and isinstance(n.func, ast.Name) and n.func.id == 'isinstance' and n.args \
			and isinstance(n.args[0], ast.Attribute) and n.args[0].attr == 'types':
			out.add('isinstance-types')
		elif isinstance(n, ast.Call) and isinstance(n.func, ast.Attribute) and isinstance(n.func.value, ast.Name) and n.func.value.id == 'self' and n.func.attr.startswith('is_'):
			out.add(f'via:{n.func.attr}')   # a predicate of the same class (its own comparison is a site of this table)
	return out


def _words(e: ast.AST, ns: dict[str, Any]) -> list[str] | None:
	try:
		v = eval(compile(ast.Expression(e), '<c08-names>', 'eval'), dict(ns))  # noqa: S307 - expressions of the audited source file
	except Exception:  # noqa: BLE001
		return None
	if isinstance(v, str):
		return [v]
	if isinstance(v, (list, tuple, set, frozenset, dict)) and all(isinstance(x, str) for x in v):
		return sorted(set(v))
	return None


def scan() -> list[dict[str, Any]]:
	"""One record per name-spelling site: fn, line, name (expression text), role, op, words, dynamic, guards."""
	with open(os.path.join(REPO, SOURCE), encoding='utf-8') as f:
		tree = ast.parse(f.read())
	ns = vars(importlib.import_module(MODULE))
	rows: list[dict[str, Any]] = []
	for fn in ast.walk(tree):
		if not isinstance(fn, (ast.FunctionDef, ast.AsyncFunctionDef)):
			continue
		aliases: dict[str, str] = {}
		parents: dict[ast.AST, ast.AST] = {}
		for n in ast.walk(fn):
			for c in ast.iter_child_nodes(n):
				parents[c] = n
			if isinstance(n, ast.Assign) and len(n.targets) == 1 and isinstance(n.targets[0], ast.Name) and isinstance(n.value, ast.Attribute) and n.value.attr in NAME_ATTRS:
				aliases[n.targets[0].id] = ast.unparse(n.value)

		def is_name(e: ast.AST) -> bool:
			return (isinstance(e, ast.Attribute) and e.attr in NAME_ATTRS) or (isinstance(e, ast.Name) and e.id in aliases)

		for n in ast.walk(fn):
			name: ast.AST | None = None
			other: ast.AST | None = None
			op = ''
			if isinstance(n, ast.Compare) and any(is_name(x) for x in [n.left, *n.comparators]):
				if len(n.ops) != 1:
					raise TranslateError(f'{SOURCE}:{n.lineno}: chained comparison on a name: {ast.unparse(n)}')
				o = n.ops[0]
				if not isinstance(o, (ast.Eq, ast.NotEq, ast.In, ast.NotIn)):
					raise TranslateError(f'{SOURCE}:{n.lineno}: a name compared with {type(o).__name__}: {ast.unparse(n)}')
				left, right = n.left, n.comparators[0]
				if is_name(left):
					name, other = left, right
				elif isinstance(o, (ast.Eq, ast.NotEq)):
					name, other = right, left
				else:
					continue   # `<word> in <name>`: a substring test — a site of the string-site table (gen_c08_sites), not of this one
				op = {ast.Eq: '==', ast.NotEq: '!=', ast.In: 'in', ast.NotIn: 'not in'}[type(o)]
			elif isinstance(n, ast.Call) and isinstance(n.func, ast.Attribute) and n.func.attr == 'in_value' and len(n.args) == 1 and is_name(n.args[0]):
				name, op = n.args[0], 'in_value'
				other = ast.parse(f'[member.value for member in {ast.unparse(n.func.value)}]', mode='eval').body
			if name is None or other is None:
				continue
			text = ast.unparse(name)
			full = aliases.get(text, text)
			words = _words(other, ns)
			guards: set[str] = set()
			# enclosing tests (the comparison sits in the test or in the branch), nearest first
			cur: ast.AST = n
			nearest: ast.AST | None = None
			while cur in parents and cur is not fn:
				p = parents[cur]
				if isinstance(p, (ast.If, ast.IfExp, ast.While)):
					guards |= _guards(p.test)
					if nearest is None and p.test is cur:
						nearest = p
				elif isinstance(p, ast.comprehension):
					for cond in p.ifs:
						guards |= _guards(cond)
				cur = p
			if isinstance(nearest, ast.If):
				# the branch the comparison opens: tests of the ifs directly inside it
				for st in nearest.body:
					k: ast.AST | None = st
					while isinstance(k, ast.If):
						guards |= _guards(k.test)
						k = k.orelse[0] if len(k.orelse) == 1 else None
				# early exit `if <cmp>: return …` directly in the function body: what follows decides
				if nearest in fn.body and len(nearest.body) == 1 and isinstance(nearest.body[0], ast.Return):
					for st in fn.body[fn.body.index(nearest) + 1:]:
						guards |= _guards(st)
			role = 'member' if '.prop.' in f'.{full}' or full.startswith('prop.') else ('callee' if '.calls.' in f'.{full}' else 'other')
			rows.append({'fn': fn.name, 'line': n.lineno, 'name': full, 'role': role, 'op': op, 'words': words or [], 'dynamic': words is None, 'guards': sorted(guards)})
	rows.sort(key=lambda r: (r['line'], r['name'], r['op'], r['words']))
	if not any(r['role'] == 'member' and not r['dynamic'] for r in rows):
		raise TranslateError(f'{SOURCE}: no member-name comparison found — the scanner no longer understands the file')
	return rows


def is_dunder(w: str) -> bool:
	return w.startswith('__')


def member_words(rows: list[dict[str, Any]] | None = None) -> list[str]:
	"""The spellings of MEMBER names the transpiler treats specially and a user class may define as well (no dunder names)."""
	rows = rows if rows is not None else scan()
	return sorted({w for r in rows if r['role'] == 'member' for w in r['words'] if not is_dunder(w) and w.isidentifier()})


def lean_chars(s: str) -> str:
	return '[' + ', '.join("'" + (c if c not in "'\\" else '\\' + c) + "'" for c in s) + ']' if s else '[]'


def lean_str(s: str) -> str:
	return '"' + s.replace('\\', '\\\\').replace('"', '\\"') + '"'


def generate() -> list[dict]:
	rows = scan()
	for r in rows:
		for w in r['words']:
			if not all(32 <= ord(c) < 127 for c in w):
				raise TranslateError(f"{SOURCE}:{r['line']}: a compared word is not printable ASCII: {w!r}")
	body = ',\n'.join(
		f"  ⟨{lean_str(r['fn'])}, {lean_str(r['name'])}, {lean_str(r['op'])}, .{r['role']}, [{', '.join(lean_chars(w) for w in r['words'])}], "
		f"{'true' if r['dynamic'] else 'false'}, [{', '.join(lean_str(g) for g in r['guards'])}]⟩" for r in rows)
	content = (
		'/-\n'
		'  GENERATED by translate/gen_c08_names.py — do not edit; rewritten on every run of ./check C08.\n'
		'  Every comparison of a user-controlled name (`….tokens`, `….domain_name`) of py2cpp.py with words the transpiler spells out\n'
		'  itself: the evaluated words, the role of the name (member = `….prop.…`, callee = `….calls.…`) and the type guards found\n'
		'  around the comparison (`type_is`, `cvars.contains`, `cvars.equals`, `isinstance(<x>.types, …)`).\n'
		'  `dynamic` = the other side is not a constant of the module (a collection of user names: whole-name membership).\n'
		'-/\n'
		'namespace Tranp.Generated.C08Names\n\n'
		'inductive Role where\n  | member | callee | other\nderiving DecidableEq, Repr\n\n'
		'structure NameSite where\n  fn : String\n  name : String\n  op : String\n  role : Role\n  words : List (List Char)\n  dynamic : Bool\n  guards : List String\nderiving Repr\n\n'
		f'def sites : List NameSite := [\n{body}\n]\n\n'
		'end Tranp.Generated.C08Names\n')
	changed = write_if_changed(TARGET, content)
	return [{
		'file': 'lean/' + os.path.relpath(TARGET, os.path.dirname(os.path.dirname(GENERATED_DIR))),
		'source': f'ast scan of {SOURCE}; compared words evaluated in the imported module',
		'entries': len(rows),
		'changed': changed,
		'sha256': hashlib.sha256(content.encode('utf-8')).hexdigest(),
		'roles': dict(Counter(r['role'] for r in rows)),
		'member_words': member_words(rows),
	}]
