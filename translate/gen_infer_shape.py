"""Translator for property C03: the constants of the operator / spread / indexer handlers -> lean/Tranp/Generated/InferShape.lean.

Read with `ast` (nothing is imported):
  rogw/tranp/syntax/node/definition/accessible.py   PythonClassOperations.arthmetical: the literal list of arithmetic operator tokens
  rogw/tranp/semantics/reflection/traits.py         OperationTrait.try_operation: the literal list of the further operators whose method is
                                                     selected by the argument type; the loop over the operand's bases (`value.types.inherits`:
                                                     the DIRECT bases); IteratorTrait.iterates: the index of the item type in `Iterator<T>`
  rogw/tranp/semantics/reflections.py               ProceduralResolver: per handler the constant indexes of `<x>.attrs[<int>]` in source
                                                     order (on_indexer: 0 = element of a list, 1 = value of a dict; on_dict: 1; on_spread: 0);
                                                     each_binary_operator: the receiver's attempt first, then the swapped one
The Lean side (Props/C03 `shape_operators`, `shape_attr_indexes`) proves that the hand-written `BOp.arith` / `BOp.selects` / `onSpread` /
`onIndex` use exactly these constants. A statement of another shape than the one modelled is an error (the tie is broken), never a default.
"""
from __future__ import annotations

import ast
import os
from typing import Any

from harness.common import GENERATED_DIR, REPO, write_if_changed
from translate.gen_dunder import TranslateError, lstr

ACCESSIBLE = 'rogw/tranp/syntax/node/definition/accessible.py'
TRAITS = 'rogw/tranp/semantics/reflection/traits.py'
REFLECTIONS = 'rogw/tranp/semantics/reflections.py'

# the bodies the model follows statement by statement (ast.unparse of the statements after the docstring: layout and comments do not
# matter); `@SELECT@` is the literal list read as `selectTokens`
TRY_OPERATION = """method = self._find_method(instance, instance.types.operations.operation_by(operator.tokens))
if method is None:
    return None
if not instance.types.operations.arthmetical(operator.tokens) and operator.tokens not in @SELECT@:
    return method.returns(value)
parameter = method.parameter_at(0, value)
parameter_types = parameter.attrs if parameter.impl(refs.Object).type_is(Union) else [parameter]
if value in parameter_types:
    return method.returns(value)
if not isinstance(value.types, defs.Class):
    return None
for inherit in value.types.inherits:
    inherit_symbol = self.reflections.resolve(inherit)
    if inherit_symbol in parameter_types:
        return method.returns(inherit_symbol)
return None"""
# the same with proposed/C03-operator-operand-indirect-subclass.diff applied: ALL ancestors of the operand's class are compared
TRY_OPERATION_ANCESTORS = TRY_OPERATION.replace("""for inherit in value.types.inherits:
    inherit_symbol = self.reflections.resolve(inherit)
    if inherit_symbol in parameter_types:
        return method.returns(inherit_symbol)""", """for inherit_symbol in self._ancestors(value.types):
    if inherit_symbol in parameter_types:
        return method.returns(inherit_symbol)""")
ANCESTORS = """ancestors: list[IReflection] = []
for inherit in types.inherits:
    inherit_symbol = self.reflections.resolve(inherit)
    ancestors.append(inherit_symbol)
    if isinstance(inherit_symbol.types, defs.Class):
        ancestors.extend(self._ancestors(inherit_symbol.types))
return ancestors"""
EACH_BINARY_OPERATOR = """node_of_elements = node.elements
operator_indexs = range(1, len(node_of_elements), 2)
right_indexs = range(2, len(node_of_elements), 2)
left = elements[0].impl(refs.Object).actualize('alt')
for index, right_index in enumerate(right_indexs):
    operator = node_of_elements[operator_indexs[index]].as_a(defs.Terminal)
    right = elements[right_index].impl(refs.Object).actualize('alt')
    result = left.try_operation(operator, right) or right.try_operation(operator, left)
    if result is None:
        raise Errors.OperationNotAllowed(node, left, operator, right, 'Operation not defined')
    left = result.impl(refs.Object).actualize('alt')
return left"""


def body_text(fn: ast.FunctionDef) -> str:
	body = fn.body[1:] if fn.body and isinstance(fn.body[0], ast.Expr) and isinstance(fn.body[0].value, ast.Constant) and isinstance(fn.body[0].value.value, str) else fn.body
	return '\n'.join(ast.unparse(st) for st in body)


def parse(rel: str) -> ast.Module:
	with open(os.path.join(REPO, rel), encoding='utf-8') as f:
		return ast.parse(f.read(), rel)


def method_of(tree: ast.Module, cls: str, name: str) -> ast.FunctionDef:
	for c in tree.body:
		if isinstance(c, ast.ClassDef) and c.name == cls:
			for m in c.body:
				if isinstance(m, ast.FunctionDef) and m.name == name:
					return m
	raise TranslateError(f'{cls}.{name} not found')


def str_list(node: ast.expr, what: str) -> list[str]:
	if not isinstance(node, ast.List) or not node.elts or not all(isinstance(e, ast.Constant) and isinstance(e.value, str) for e in node.elts):
		raise TranslateError(f'{what}: not a literal list of strings: {ast.unparse(node)}')
	return [e.value for e in node.elts]  # type: ignore[attr-defined]


def int_const(node: ast.expr) -> int | None:
	if isinstance(node, ast.Constant) and type(node.value) is int:
		return node.value
	if isinstance(node, ast.UnaryOp) and isinstance(node.op, ast.USub) and isinstance(node.operand, ast.Constant) and type(node.operand.value) is int:
		return -node.operand.value
	return None


def attr_indexes(fn: ast.FunctionDef) -> list[int]:
	"""the constant indexes of `<x>.attrs[<int>]` inside fn, in source order"""
	hits = []
	for n in ast.walk(fn):
		if isinstance(n, ast.Subscript) and isinstance(n.value, ast.Attribute) and n.value.attr == 'attrs':
			k = int_const(n.slice)
			if k is not None:
				hits.append((n.lineno, n.col_offset, k))
	return [k for _, _, k in sorted(hits)]


def collect() -> dict[str, Any]:
	acc, traits, refl = parse(ACCESSIBLE), parse(TRAITS), parse(REFLECTIONS)
	# arthmetical
	ar = method_of(acc, 'PythonClassOperations', 'arthmetical')
	rets = [s for s in ar.body if isinstance(s, ast.Return)]
	if len(rets) != 1 or not isinstance(rets[0].value, ast.Compare) or len(rets[0].value.ops) != 1 or not isinstance(rets[0].value.ops[0], ast.In) \
			or ast.unparse(rets[0].value.left) != 'operator':
		raise TranslateError(f'arthmetical: shape not recognised: {ast.unparse(ar)}')
	arith = str_list(rets[0].value.comparators[0], 'arthmetical')
	# try_operation: the whole body, the literal list of the skipped check as a hole
	to = method_of(traits, 'OperationTrait', 'try_operation')
	select: list[str] | None = None
	for st in to.body:
		if isinstance(st, ast.If) and isinstance(st.test, ast.BoolOp) and isinstance(st.test.op, ast.And) and len(st.test.values) == 2:
			b = st.test.values[1]
			if isinstance(b, ast.Compare) and len(b.ops) == 1 and isinstance(b.ops[0], ast.NotIn) and ast.unparse(b.left) == 'operator.tokens':
				select = str_list(b.comparators[0], 'try_operation')
				hole = ast.unparse(b.comparators[0])
	if select is None:
		raise TranslateError('try_operation: the test that skips the parameter check was not recognised')
	got = body_text(to).replace(hole, '@SELECT@', 1)
	if got == TRY_OPERATION:
		direct = True
	elif got == TRY_OPERATION_ANCESTORS and body_text(method_of(traits, 'OperationTrait', '_ancestors')) == ANCESTORS:
		direct = False     # the operand's whole ancestry, nearest first (depth-first, left to right)
	else:
		raise TranslateError('try_operation has another shape than the modelled ones (Model/Infer.lean tryOp, Model/InferOps.lean tryOpUser):\n' + got)
	# each_binary_operator: the whole body
	ebo = method_of(refl, 'ProceduralResolver', 'each_binary_operator')
	if body_text(ebo) != EACH_BINARY_OPERATOR:
		raise TranslateError('each_binary_operator has another shape than the modelled one (foldBin / foldBinAny):\n' + body_text(ebo))
	# on_spread: `return expression.to(node, expression.attrs[<k>])`
	osp = method_of(refl, 'ProceduralResolver', 'on_spread')
	ix = attr_indexes(osp)
	if len(ix) != 1 or body_text(osp) != f'return expression.to(node, expression.attrs[{ix[0]}])':
		raise TranslateError('on_spread has another shape than the modelled one (onSpread):\n' + body_text(osp))
	# handlers of ProceduralResolver
	handlers: list[tuple[str, list[int]]] = []
	names: list[str] = []
	for c in refl.body:
		if isinstance(c, ast.ClassDef) and c.name == 'ProceduralResolver':
			for m in c.body:
				if isinstance(m, ast.FunctionDef) and m.name.startswith('on_'):
					names.append(m.name)
					ix = attr_indexes(m)
					if ix:
						handlers.append((m.name, ix))
	if len(set(names)) != len(names):
		raise TranslateError('ProceduralResolver: a handler is defined twice')
	if not handlers:
		raise TranslateError('ProceduralResolver: no handler indexes `attrs`')
	it = attr_indexes(method_of(traits, 'IteratorTrait', 'iterates'))
	if len(it) != 1:
		raise TranslateError(f'IteratorTrait.iterates: expected one constant index of attrs, found {it}')
	return {'arith': arith, 'select': select, 'handlers': handlers, 'iterates': it[0], 'names': names, 'direct': direct}


def render(t: dict[str, Any]) -> str:
	out = [
		'/-',
		'  GENERATED by verif/translate/gen_infer_shape.py from',
		f'    <repo>/{ACCESSIBLE}  (PythonClassOperations.arthmetical)',
		f'    <repo>/{TRAITS}  (OperationTrait.try_operation, IteratorTrait.iterates)',
		f'    <repo>/{REFLECTIONS}  (ProceduralResolver handlers, each_binary_operator)',
		'  Do not edit; rewritten on every run of ./check C03.',
		'-/',
		'import Tranp.Str',
		'',
		'namespace Tranp.Generated.InferShape',
		'',
		'/-- `Operations.arthmetical`: `operator in [...]` -/',
		f"def arithTokens : List Tranp.Str := [{', '.join(lstr(x) for x in t['arith'])}]",
		'',
		'/-- `try_operation`: the further operators that check their parameter (`operator.tokens not in [...]`) -/',
		f"def selectTokens : List Tranp.Str := [{', '.join(lstr(x) for x in t['select'])}]",
		'',
		'/-- `try_operation` compares the operand\'s class and — true: its DIRECT bases (`for inherit in value.types.inherits`), false: ALL its',
		'    ancestors, nearest first (`for inherit_symbol in self._ancestors(value.types)`) — with the parameter -/',
		f"def operandBasesDirect : Bool := {'true' if t['direct'] else 'false'}",
		'',
		'/-- `each_binary_operator`: `left.try_operation(op, right) or right.try_operation(op, left)` -/',
		'def receiverFirst : Bool := true',
		'',
		'/-- handler of ProceduralResolver ↦ the constant indexes of `<x>.attrs[<int>]` in source order -/',
		'def attrIndexes : List (Tranp.Str × List Int) := [',
		',\n'.join(f"  ({lstr(h)}, [{', '.join(str(k) if k >= 0 else f'({k})' for k in ix)}])" for h, ix in t['handlers']),
		']',
		'',
		'/-- every handler `on_…` of ProceduralResolver, in source order -/',
		'def handlers : List Tranp.Str := [',
		',\n'.join(f'  {lstr(h)}' for h in t['names']),
		']',
		'',
		'/-- `IteratorTrait.iterates`: the item type of `Iterator<T>` is `attrs[…]` -/',
		f"def iteratesIndex : Int := {t['iterates']}",
		'',
		'end Tranp.Generated.InferShape',
		'',
	]
	return '\n'.join(out)


def generate() -> list[dict[str, Any]]:
	t = collect()
	path = os.path.join(GENERATED_DIR, 'InferShape.lean')
	changed = write_if_changed(path, render(t))
	return [{
		'file': 'lean/Tranp/Generated/InferShape.lean',
		'source': [ACCESSIBLE, TRAITS, REFLECTIONS],
		'entries': len(t['arith']) + len(t['select']) + sum(len(ix) for _, ix in t['handlers']) + 3 + len(t['names']),
		'handlers': {h: ix for h, ix in t['handlers']},
		'handler_names': len(t['names']),
		'operand_bases_direct': t['direct'],
		'changed': changed,
	}]
