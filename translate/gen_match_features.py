"""Translator: every `match_feature` of rogw/tranp/syntax/node/{node.py, definition/*.py} -> lean/Tranp/Generated/MatchFeatures.lean (C02).

`NodeResolver.resolve` takes the first candidate class whose `match_feature` accepts. The model of each of these class methods
(`Tranp.Classify.matchFeature`, lean/Tranp/Model/Classify.lean) is written by hand; this translator ties it to the code:

* LOGIC: the body of each method (and of the two helpers they call, `Function._in_class_block` and `Terminal.match_terminal`)
  is read with `ast`; with the doc string removed and every string constant blanked out it must be EXACTLY the skeleton the
  model was written against (sha256 of `ast.dump`). A comparison that became a substring / prefix test, a lookup by another
  kind of path, a reordered condition … changes the digest: TranslateError (-> "the tie is broken", never success). A class
  that newly defines `match_feature`, or one that no longer does, is a TranslateError too.
* DATA: the string constants of each method, in `ast` visiting order, are emitted as `consts`; `Tranp.C02.match_feature_consts`
  decides that they are the words and tags the model compares with, so an edited word re-checks (and fails) the theorem.
* The WORDS among them that node texts are compared with (`classmethod`, `__init__`, `Enum`, `self`, `cls`, `list`, `dict`,
  `super`) are handed to the harness (`words`): its generator places each word, and every near miss of it, at the positions
  where the word steers the classification.

The `DeclableMatcher` helpers most `primary.py` methods delegate to are pinned the same way by translate/gen_decl_matchers.py.
"""
from __future__ import annotations

import ast
import glob
import hashlib
import os
from typing import Any

from harness.common import GENERATED_DIR, REPO, write_if_changed
from translate.gen_grammar_ladder import chars

NODE_DIR = os.path.join(REPO, 'rogw', 'tranp', 'syntax', 'node')
OUT = os.path.join(GENERATED_DIR, 'MatchFeatures.lean')


class TranslateError(Exception):
	pass


# 'Class.method' -> sha256 of ast.dump(body without doc string, string constants replaced by '<S>')
SKELETONS: dict[str, str] = {
	'AltTypesName.match_feature': 'f0914dc834ca49594ad6c44344e5272cddedfff0bf0e4d3178367f07b540b5f3',  # []
	'ArgumentLabel.match_feature': '867caf96ad12cd8214dfa90894f8c63e72512671676cfdb05a61fc5abe2d1901',  # ['argvalue']
	'CallableType.match_feature': '256b4c0f45a5ba4e6e2dac4decaf595e4cac9735d90b3d72466fa01b93128ce0',  # ['typed_slices']
	'ClassMethod.match_feature': '7d6bb8acfbd81f48e0e2a1527e8d0e5179d45ba5824af268557a4f9e7ceed6ca',  # ['decorators', 'decorators', 'classmethod']
	'ClassRef.match_feature': '2407aad9e1042d23b45477c0f15f2e220eb9c6aa08d64da36b55b97e658291cc',  # ['cls']
	'Closure.match_feature': 'c8b3f47aac115d1615443b6f76479f4ff81202ab6ae92947049ceb69a68a6878',  # ['class_def_raw', 'function_def_raw', 'class_def_raw']
	'Constructor.match_feature': 'd11b1866ea56f8e182af3eae152224077169ce44fcd484028e3d8b9a8315313f',  # ['function_def_raw.name', '__init__']
	'CustomType.match_feature': 'e839802a49131fea1cb4d473fff6139a4dc37e056fa743587bce02e946ddca4c',  # []
	'DeclClassParam.match_feature': '45348ab650cde8bb405a93e6628e2984ef2236e1af2b6093bd16892a71cf42f6',  # []
	'DeclClassVar.match_feature': '7f620f40450fce88b91fd536440885f37183feb0507feab450e2813738aedc58',  # []
	'DeclLocalVar.match_feature': '6ed7795b18349b4fd3bbf1aab52cc3d59e71435ab9267d74e33b3b6bfca39c8e',  # []
	'DeclParam.match_feature': '5a3dd7252dec5aa46a0d9be7ff7397a506a7509527f4af01a9f50ec15d5f997b',  # []
	'DeclThisParam.match_feature': '9cf05d1d7df11031f01c3b1df45ffde86b0d45e3004b4c4b30072ff6e6012f1b',  # []
	'DeclThisVar.match_feature': '8a39f1be0250aec3463797d1edbb258ca92a67802a389f4d134debb0f4c50480',  # []
	'DeclThisVarForward.match_feature': '327400bc6718e088e2ed50aee89413f56e15a1dfca7057891044fd1f9155ab53',  # []
	'DecoratorPath.match_feature': '867caf96ad12cd8214dfa90894f8c63e72512671676cfdb05a61fc5abe2d1901',  # ['decorator']
	'DictType.match_feature': 'a2a3aa9f18f8e99610b80208a3afddbec256f6303de7f91d953e340499f33558',  # ['dict']
	'DocString.match_feature': 'e0804dbd78ace1374df6767dd55eb2de6c60438d01c641ddc61138105416687c',  # ['block', '"""', '"""']
	'Enum.match_feature': '0f35e836caa4498430ae60d86b86d172444475b7a5c1dba2e92a1aa0f2ed5438',  # ['class_def_raw.inherit_arguments', 'class_def_raw.inherit_arguments', 'Enum']
	'Float.match_feature': '82311b457028b9b34e2e3091efb2d6d28912ce86d9b9839031cfd6d7139fc537',  # ['number', 'FLOAT_NUMBER']
	'Function._in_class_block': '889b3f3b0b198dba0eee17e853bdf0960cc1764f78a66aecc2c61aaae048a31e',  # ['class_def_raw']
	'ImportName.match_feature': 'edc86d2e3cca07fb8341a90f910ca9b942bfad89ef93bd94ab1fdacd8dc75b3a',  # []
	'ImportPath.match_feature': '867caf96ad12cd8214dfa90894f8c63e72512671676cfdb05a61fc5abe2d1901',  # ['import_stmt']
	'Integer.match_feature': '8571b050695d572bc8639d2abee4911d736c6384dd21a1866b18a87764cbc9c2',  # ['number', 'DEC_NUMBER', 'HEX_NUMBER']
	'ListType.match_feature': 'a2a3aa9f18f8e99610b80208a3afddbec256f6303de7f91d953e340499f33558',  # ['list']
	'Method.match_feature': '5f83fc2c266534dfce59a8439a79c547f39f88bf8732e36646decb2b2e4149c0',  # ['function_def_raw.name', '__init__', 'function_def_raw.parameters', 'function_def_raw.parameters']
	'Node.match_feature': 'e839802a49131fea1cb4d473fff6139a4dc37e056fa743587bce02e946ddca4c',  # []
	'Relay.match_feature': '03aa072bc7698bcef7f6105b1a4ef4bb71c0ef03d30226746a2c4fe0eeb8c1ca',  # []
	'Super.match_feature': 'a2a3aa9f18f8e99610b80208a3afddbec256f6303de7f91d953e340499f33558',  # ['super']
	'Terminal.match_terminal': '04073f89bc766a0006bad175f6a22dbb69f29cbd13d88c7d5948638ca99921a0',  # []
	'ThisRef.match_feature': '2407aad9e1042d23b45477c0f15f2e220eb9c6aa08d64da36b55b97e658291cc',  # ['self']
	'TypesName.match_feature': 'db1a19c9e1a471b9964eb97d6dffbbc3069ff47edc71d8f9c798a9393883a658',  # []
}

# 'Class.method' -> index (in its list of constants) of the word node texts are compared with, and the role of the word
WORDS: dict[str, tuple[int, str]] = {
	'ClassMethod.match_feature': (2, 'decorator'),
	'Constructor.match_feature': (1, 'def-name'),
	'Method.match_feature': (1, 'def-name'),
	'Enum.match_feature': (2, 'base'),
	'ClassRef.match_feature': (0, 'class-reference'),
	'ThisRef.match_feature': (0, 'this-reference'),
	'ListType.match_feature': (0, 'list-type'),
	'DictType.match_feature': (0, 'dict-type'),
	'Super.match_feature': (0, 'super-call'),
}

HELPERS = {'Function._in_class_block', 'Terminal.match_terminal'}


def skeleton(fn: ast.FunctionDef) -> tuple[str, list[str]]:
	body = [s for s in fn.body if not (isinstance(s, ast.Expr) and isinstance(s.value, ast.Constant) and isinstance(s.value.value, str))]
	consts: list[str] = []

	class Blank(ast.NodeTransformer):
		def visit_Constant(self, n: ast.Constant) -> ast.AST:  # noqa: N802
			if isinstance(n.value, str):
				consts.append(n.value)
				return ast.Constant(value='<S>')
			return n
	mod = ast.Module(body=[Blank().visit(s) for s in body], type_ignores=[])
	return hashlib.sha256(ast.dump(mod).encode()).hexdigest(), consts


def source_files() -> list[str]:
	return [os.path.join(NODE_DIR, 'node.py'), *sorted(glob.glob(os.path.join(NODE_DIR, 'definition', '*.py')))]


def read_methods() -> tuple[dict[str, tuple[str, list[str]]], str]:
	out: dict[str, tuple[str, list[str]]] = {}
	sha = hashlib.sha256()
	for path in source_files():
		with open(path, encoding='utf-8') as f:
			src = f.read()
		sha.update(src.encode('utf-8'))
		for cls in [n for n in ast.walk(ast.parse(src)) if isinstance(n, ast.ClassDef)]:
			for fn in cls.body:
				if not isinstance(fn, ast.FunctionDef):
					continue
				key = f'{cls.name}.{fn.name}'
				if fn.name == 'match_feature' or key in HELPERS:
					if key in out:
						raise TranslateError(f'{key} is defined twice')
					out[key] = skeleton(fn)
	return out, sha.hexdigest()


def recognise(methods: dict[str, tuple[str, list[str]]]) -> tuple[list[tuple[str, list[str]]], dict[str, str]]:
	extra, missing = sorted(set(methods) - set(SKELETONS)), sorted(set(SKELETONS) - set(methods))
	if extra:
		raise TranslateError(f'match_feature methods the model does not know: {extra}')
	if missing:
		raise TranslateError(f'modelled match_feature methods that no longer exist: {missing}')
	consts: list[tuple[str, list[str]]] = []
	for key in sorted(SKELETONS):
		digest, cs = methods[key]
		if digest != SKELETONS[key]:
			raise TranslateError(f'{key}: the logic differs from the modelled skeleton (digest {digest[:16]} != {SKELETONS[key][:16]})')
		consts.append((key, cs))
	words: dict[str, str] = {}
	by_key = dict(consts)
	for key, (idx, role) in WORDS.items():
		cs = by_key[key]
		if idx >= len(cs) or not cs[idx].isidentifier():
			raise TranslateError(f'{key}: no word at constant {idx}: {cs}')
		if words.get(role, cs[idx]) != cs[idx]:
			raise TranslateError(f'{role}: two methods compare with different words ({words[role]!r}, {cs[idx]!r})')
		words[role] = cs[idx]
	return consts, words


def render(consts: list[tuple[str, list[str]]], sha: str) -> str:
	out = [
		'/-',
		'  GENERATED by verif/translate/gen_match_features.py from rogw/tranp/syntax/node/node.py and definition/*.py — do not edit.',
		f'  source sha256 = {sha}',
		'-/',
		'import Tranp.Str',
		'',
		'namespace Tranp.Generated.MatchFeatures',
		'open Tranp',
		'',
		'/-- `Class.method` ↦ its string constants in `ast` visiting order (the logic around them is pinned by the translator) -/',
		'def consts : List (Str × List Str) := [',
		',\n'.join(f'  ({chars(k)}, [' + ', '.join(chars(c) for c in cs) + '])' for k, cs in consts),
		']',
		'',
		'end Tranp.Generated.MatchFeatures',
		'',
	]
	return '\n'.join(out)


def generate() -> list[dict[str, Any]]:
	methods, sha = read_methods()
	consts, words = recognise(methods)
	changed = write_if_changed(OUT, render(consts, sha))
	return [{'file': os.path.relpath(OUT, os.path.dirname(GENERATED_DIR)), 'source': 'rogw/tranp/syntax/node/node.py, definition/*.py (match_feature)',
		'sha256': sha, 'entries': len(consts), 'changed': changed, 'words': words}]


if __name__ == '__main__':
	ms, _ = read_methods()
	for k in sorted(ms):
		print(f"\t'{k}': '{ms[k][0]}',  # {ms[k][1]}")
