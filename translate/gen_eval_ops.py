"""Translator for property C17: the operator tables of `LiteralEvaluator` (rogw/tranp/implements/transpiler/evaluator.py).

Reads the working tree of /repo twice:
  * imports the class and dumps the evaluated `ArthmeticOps` / `BitwiseOps` / `AllowOps` lists;
  * parses the source with `ast` and extracts
      - the `op == '<token>'  ->  return left <BINOP> right` ladders of `_calc` and `_bitwise`,
      - the handler names whose body is exactly `return self._op_bin_each(node, elements)`,
      - the cast names compared with `org_calls` in `on_func_call`,
      - the quote list of `_allow_string`.
    Anything that does not have the expected shape raises (the tie is then broken, never silently passed).
  * pins the text of every method whose CONTROL FLOW Model/Evaluator.lean transcribes by hand (`MODELLED`; the two pure ladders `_calc` /
    `_bitwise` and the six one-line chain handlers are generated / shape-checked instead): the normalised source (no docstrings, comments,
    layout) must equal `c17_modelled_source.json`, and the set of `on_*` handlers must be the set the model has a case for. After
    re-auditing the model against a changed source: `python -m translate.gen_eval_ops --audit`.

Output: lean/Tranp/Generated/EvalOps.lean (rewritten only when the content changes).
"""
from __future__ import annotations

import ast
import copy
import difflib
import json
import os
import sys
from typing import Any

from harness.common import GENERATED_DIR, REPO, write_if_changed

SOURCE = 'rogw/tranp/implements/transpiler/evaluator.py'
TARGET = os.path.join(GENERATED_DIR, 'EvalOps.lean')

AUDITED = os.path.join(os.path.dirname(os.path.abspath(__file__)), 'c17_modelled_source.json')
# methods whose control flow the Lean model follows line by line (execImpl / step / onFuncCall / onInteger / onFloat / onFactor / allowString / cat / catSafe)
MODELLED = ['__init__', '_build_procedure', 'exec', '_op_bin_each', '_allow_string', '_joins_escape', '_cat', 'on_argument', 'on_argument_label',
	'on_var', 'on_relay', 'on_func_call', 'on_integer', 'on_float', 'on_string', 'on_factor', 'on_group', 'on_terminal', 'on_empty', 'on_fallback']
# the member lookup both observation points go through (evaluator.py on_relay, py2cpp.py on_relay): `env.members.lookup key` in the model — by EXACT name
ENUM_SOURCE = 'rogw/tranp/syntax/node/definition/statement_compound.py'
ENUM_LOOKUP_KEY = 'Enum.var_value'
# every handler the model has a case for (the six chain handlers through `chainHandlers`)
MODELLED_HANDLERS = ['on_and_bitwise', 'on_argument', 'on_argument_label', 'on_empty', 'on_factor', 'on_fallback', 'on_float', 'on_func_call', 'on_group',
	'on_integer', 'on_or_bitwise', 'on_relay', 'on_shift_bitwise', 'on_string', 'on_sum', 'on_term', 'on_terminal', 'on_var', 'on_xor_bitwise']

BINOPS = {
	ast.Add: 'add', ast.Sub: 'sub', ast.Mult: 'mult', ast.Div: 'div', ast.Mod: 'mod',
	ast.BitOr: 'bitOr', ast.BitXor: 'bitXor', ast.BitAnd: 'bitAnd', ast.LShift: 'lShift', ast.RShift: 'rShift',
}


class Unrecognised(Exception):
	pass


def _lean_str(s: str) -> str:
	def ch(c: str) -> str:
		if c == "'":
			return "'\\''"
		if c == '\\':
			return "'\\\\'"
		if not (32 <= ord(c) < 127):
			raise Unrecognised(f'non-printable character in table entry {s!r}')
		return f"'{c}'"
	return '[' + ', '.join(ch(c) for c in s) + ']'


def _ladder(fn: ast.FunctionDef) -> list[tuple[str, str]]:
	"""`if op == 'x': return left <op> right elif ... else: assert False` -> [(token, kind)]."""
	body = [s for s in fn.body if not (isinstance(s, ast.Expr) and isinstance(s.value, ast.Constant) and isinstance(s.value.value, str))]
	if len(body) != 1 or not isinstance(body[0], ast.If):
		raise Unrecognised(f'{fn.name}: body is not a single if-ladder')
	out: list[tuple[str, str]] = []
	node: Any = body[0]
	while True:
		t = node.test
		if not (isinstance(t, ast.Compare) and isinstance(t.left, ast.Name) and t.left.id == 'op' and len(t.ops) == 1 and isinstance(t.ops[0], ast.Eq)
				and isinstance(t.comparators[0], ast.Constant) and isinstance(t.comparators[0].value, str)):
			raise Unrecognised(f'{fn.name}: test is not `op == <str>`')
		if len(node.body) != 1 or not isinstance(node.body[0], ast.Return):
			raise Unrecognised(f'{fn.name}: branch is not a single return')
		v = node.body[0].value
		if not (isinstance(v, ast.BinOp) and isinstance(v.left, ast.Name) and v.left.id == 'left' and isinstance(v.right, ast.Name) and v.right.id == 'right' and type(v.op) in BINOPS):
			raise Unrecognised(f'{fn.name}: return is not `left <op> right`')
		out.append((t.comparators[0].value, BINOPS[type(v.op)]))
		if len(node.orelse) == 1 and isinstance(node.orelse[0], ast.If):
			node = node.orelse[0]
			continue
		last = node.orelse
		if not (len(last) == 1 and isinstance(last[0], ast.Assert) and isinstance(last[0].test, ast.Constant) and last[0].test.value is False):
			raise Unrecognised(f'{fn.name}: ladder does not end in `assert False`')
		return out


def _is_op_bin_each(fn: ast.FunctionDef) -> bool:
	body = [s for s in fn.body if not (isinstance(s, ast.Expr) and isinstance(s.value, ast.Constant))]
	if len(body) != 1 or not isinstance(body[0], ast.Return):
		return False
	v = body[0].value
	return (isinstance(v, ast.Call) and isinstance(v.func, ast.Attribute) and v.func.attr == '_op_bin_each' and isinstance(v.func.value, ast.Name) and v.func.value.id == 'self'
		and [a.id for a in v.args if isinstance(a, ast.Name)] == ['node', 'elements'] and len(v.args) == 2)


def _cast_names(fn: ast.FunctionDef) -> list[str]:
	names: list[str] = []
	for n in ast.walk(fn):
		if isinstance(n, ast.Compare) and isinstance(n.left, ast.Name) and n.left.id == 'org_calls' and len(n.ops) == 1 and isinstance(n.ops[0], ast.Eq) \
				and isinstance(n.comparators[0], ast.Constant) and isinstance(n.comparators[0].value, str):
			names.append(n.comparators[0].value)
	if not names:
		raise Unrecognised('on_func_call: no `org_calls == <str>` comparison found')
	return names


def _str_list(fn: ast.FunctionDef, name: str, width: int) -> list[str]:
	for n in ast.walk(fn):
		if isinstance(n, ast.Assign) and len(n.targets) == 1 and isinstance(n.targets[0], ast.Name) and n.targets[0].id == name and isinstance(n.value, ast.List):
			vals = [e.value for e in n.value.elts if isinstance(e, ast.Constant) and isinstance(e.value, str)]
			if len(vals) == len(n.value.elts) and all(len(v) == width for v in vals):
				return vals
	raise Unrecognised(f'{fn.name}: `{name} = [...]` of {width}-character strings not found')


def _long_quote_test(fn: ast.FunctionDef) -> int:
	"""`if len(string) >= N and string[:3] in long_quotes and string[-3:] == string[:3]: return False` -> N."""
	for n in fn.body:
		if isinstance(n, ast.If) and isinstance(n.test, ast.BoolOp) and isinstance(n.test.op, ast.And) and len(n.test.values) == 3 \
				and len(n.body) == 1 and isinstance(n.body[0], ast.Return) and isinstance(n.body[0].value, ast.Constant) and n.body[0].value.value is False:
			a, b, c = n.test.values
			if ast.unparse(b) == 'string[:3] in long_quotes' and ast.unparse(c) == 'string[-3:] == string[:3]' and isinstance(a, ast.Compare) \
					and ast.unparse(a.left) == 'len(string)' and len(a.ops) == 1 and isinstance(a.ops[0], ast.GtE) and isinstance(a.comparators[0], ast.Constant) and isinstance(a.comparators[0].value, int):
				return a.comparators[0].value
	raise Unrecognised('_allow_string: the triple-quote test has not the expected shape')


def _cast_arity(fn: ast.FunctionDef) -> int:
	"""`if len(arguments) != N: raise Errors.OperationNotAllowed(...)` before the cast ladder -> N."""
	for n in fn.body:
		if isinstance(n, ast.If) and isinstance(n.test, ast.Compare) and ast.unparse(n.test.left) == 'len(arguments)' and len(n.test.ops) == 1 and isinstance(n.test.ops[0], ast.NotEq) \
				and isinstance(n.test.comparators[0], ast.Constant) and isinstance(n.test.comparators[0].value, int) \
				and len(n.body) == 1 and isinstance(n.body[0], ast.Raise) and 'OperationNotAllowed' in ast.unparse(n.body[0]):
			return n.test.comparators[0].value
	raise Unrecognised('on_func_call: `if len(arguments) != N: raise Errors.OperationNotAllowed` not found')


# the two regular expressions the Lean test `joinsEscape` was proved (C17.join_decodes / catSafe_decodes) and correspondence-checked
# (stream `unescape`) against; a change of either in the source breaks the tie until the model and its proofs are revisited
JOINS_LEFT_EXPECTED = r'(?<!\\)(?:\\\\)*\\[0-7]{1,2}$'
JOINS_RIGHT_EXPECTED = r'[0-7]'
JOIN_ASSERT_EXPECTED = 'self._allow_string(left) and self._allow_string(right) and (not self._joins_escape(left, right))'


def _joins_patterns(fn: ast.FunctionDef) -> tuple[str, str]:
	"""`return re.search(<p1>, left[1:-1]) is not None and re.match(<p2>, right[1:-1]) is not None` -> (p1, p2)."""
	body = [st for st in fn.body if not (isinstance(st, ast.Expr) and isinstance(st.value, ast.Constant))]
	if len(body) != 1 or not isinstance(body[0], ast.Return) or not isinstance(body[0].value, ast.BoolOp) or not isinstance(body[0].value.op, ast.And) or len(body[0].value.values) != 2:
		raise Unrecognised('_joins_escape: body is not `return <test> and <test>`')
	out: list[str] = []
	for v, (func, arg) in zip(body[0].value.values, (('re.search', 'left[1:-1]'), ('re.match', 'right[1:-1]'))):
		if not (isinstance(v, ast.Compare) and len(v.ops) == 1 and isinstance(v.ops[0], ast.IsNot) and isinstance(v.comparators[0], ast.Constant) and v.comparators[0].value is None
				and isinstance(v.left, ast.Call) and ast.unparse(v.left.func) == func and len(v.left.args) == 2 and not v.left.keywords
				and isinstance(v.left.args[0], ast.Constant) and isinstance(v.left.args[0].value, str) and ast.unparse(v.left.args[1]) == arg):
			raise Unrecognised(f'_joins_escape: operand is not `{func}(<pattern>, {arg}) is not None`')
		out.append(v.left.args[0].value)
	if out[0] != JOINS_LEFT_EXPECTED or out[1] != JOINS_RIGHT_EXPECTED:
		raise Unrecognised(f'_joins_escape: the patterns changed ({out[0]!r}, {out[1]!r}); joinsEscape was proved against ({JOINS_LEFT_EXPECTED!r}, {JOINS_RIGHT_EXPECTED!r})')
	return out[0], out[1]


def _join_assert(fn: ast.FunctionDef) -> str:
	"""The `assert` that guards `left = self._cat(left, right)` in `_op_bin_each`."""
	for n in ast.walk(fn):
		if isinstance(n, (ast.If,)):
			for branch in (n.body, n.orelse):
				for i, st in enumerate(branch[:-1]):
					nxt = branch[i + 1]
					if isinstance(st, ast.Assert) and isinstance(nxt, ast.Assign) and ast.unparse(nxt.value) == 'self._cat(left, right)':
						text = ast.unparse(st.test)
						if text != JOIN_ASSERT_EXPECTED:
							raise Unrecognised(f'_op_bin_each: the guard of the string join changed: {text!r}')
						return text
	raise Unrecognised('_op_bin_each: `assert …` followed by `left = self._cat(left, right)` not found')


def _strip_doc(fn: Any) -> Any:
	body = getattr(fn, 'body', [])
	if body and isinstance(body[0], ast.Expr) and isinstance(body[0].value, ast.Constant) and isinstance(body[0].value.value, str):
		fn.body = body[1:] or [ast.Pass()]
	for child in ast.iter_child_nodes(fn):
		if isinstance(child, (ast.FunctionDef, ast.ClassDef)):
			_strip_doc(child)
	return fn


def modelled_sources() -> dict[str, str]:
	"""Normalised source (no docstrings / comments / layout) of the hand-transcribed methods."""
	with open(os.path.join(REPO, SOURCE), encoding='utf-8') as f:
		tree = ast.parse(f.read())
	cls = next((n for n in tree.body if isinstance(n, ast.ClassDef) and n.name == 'LiteralEvaluator'), None)
	if cls is None:
		raise Unrecognised('class LiteralEvaluator not found')
	fns = {n.name: n for n in cls.body if isinstance(n, ast.FunctionDef)}
	out: dict[str, str] = {}
	for name in MODELLED:
		if name not in fns:
			raise Unrecognised(f'modelled method {name} is missing')
		out[name] = ast.unparse(_strip_doc(copy.deepcopy(fns[name])))
	with open(os.path.join(REPO, ENUM_SOURCE), encoding='utf-8') as f:
		tree = ast.parse(f.read())
	enum_cls = next((n for n in tree.body if isinstance(n, ast.ClassDef) and n.name == 'Enum'), None)
	lookup = next((n for n in (enum_cls.body if enum_cls else []) if isinstance(n, ast.FunctionDef) and n.name == 'var_value'), None)
	if lookup is None:
		raise Unrecognised(f'{ENUM_SOURCE}: Enum.var_value not found')
	out[ENUM_LOOKUP_KEY] = ast.unparse(_strip_doc(copy.deepcopy(lookup)))
	return out


def check_audited(handlers: list[str]) -> int:
	if sorted(handlers) != sorted(MODELLED_HANDLERS):
		raise Unrecognised(f'the handlers of LiteralEvaluator changed: not modelled {sorted(set(handlers) - set(MODELLED_HANDLERS))}, gone {sorted(set(MODELLED_HANDLERS) - set(handlers))}')
	if not os.path.exists(AUDITED):
		raise Unrecognised(f'{AUDITED} is missing (python -m translate.gen_eval_ops --audit after auditing the model)')
	with open(AUDITED, encoding='utf-8') as f:
		audited = json.load(f)
	current = modelled_sources()
	audited = {k: v for k, v in audited.items() if not k.startswith('Py2Cpp.')}  # `Py2Cpp.on_relay[value]` is checked by gen_literalize
	for key in sorted(set(audited) | set(current)):
		if audited.get(key) != current.get(key):
			diff = '\n'.join(difflib.unified_diff((audited.get(key) or '').splitlines(), (current.get(key) or '').splitlines(), 'modelled', 'source', lineterm='', n=1))
			raise Unrecognised(f'{key if "." in key else "LiteralEvaluator." + key}: the source differs from the text Model/Evaluator.lean was written against:\n{diff}')
	return len(current)


def read_joins_patterns() -> tuple[str, str]:
	"""Only the two patterns of `_joins_escape` (for the `unescape` stream); raises like `read_tables` on another shape."""
	with open(os.path.join(REPO, SOURCE), encoding='utf-8') as f:
		tree = ast.parse(f.read())
	for cls in tree.body:
		if isinstance(cls, ast.ClassDef) and cls.name == 'LiteralEvaluator':
			for n in cls.body:
				if isinstance(n, ast.FunctionDef) and n.name == '_joins_escape':
					return _joins_patterns(n)
	raise Unrecognised('LiteralEvaluator._joins_escape not found')


def read_tables() -> dict[str, Any]:
	from rogw.tranp.implements.transpiler.evaluator import LiteralEvaluator
	with open(os.path.join(REPO, SOURCE), encoding='utf-8') as f:
		tree = ast.parse(f.read())
	cls = next((n for n in tree.body if isinstance(n, ast.ClassDef) and n.name == 'LiteralEvaluator'), None)
	if cls is None:
		raise Unrecognised('class LiteralEvaluator not found')
	fns = {n.name: n for n in cls.body if isinstance(n, ast.FunctionDef)}
	for need in ('_calc', '_bitwise', '_allow_string', '_joins_escape', '_cat', 'on_func_call', '_op_bin_each', 'on_terminal', 'on_factor'):
		if need not in fns:
			raise Unrecognised(f'method {need} not found')
	for name in ('ArthmeticOps', 'BitwiseOps', 'AllowOps'):
		v = getattr(LiteralEvaluator, name, None)
		if not (isinstance(v, list) and all(isinstance(x, str) and x for x in v)):
			raise Unrecognised(f'LiteralEvaluator.{name} is not a list of non-empty strings')
	return {
		'arithmetic': list(LiteralEvaluator.ArthmeticOps),
		'bitwise': list(LiteralEvaluator.BitwiseOps),
		'allow': list(LiteralEvaluator.AllowOps),
		'calc': _ladder(fns['_calc']),
		'bit': _ladder(fns['_bitwise']),
		'chain_handlers': sorted(n for n, f in fns.items() if n.startswith('on_') and _is_op_bin_each(f)),
		'casts': _cast_names(fns['on_func_call']),
		'quotes': _str_list(fns['_allow_string'], 'quotes', 1),
		'long_quotes': _str_list(fns['_allow_string'], 'long_quotes', 3),
		'long_quote_min_len': _long_quote_test(fns['_allow_string']),
		'cast_arity': _cast_arity(fns['on_func_call']),
		'joins_patterns': list(_joins_patterns(fns['_joins_escape'])),
		'join_assert': _join_assert(fns['_op_bin_each']),
		'handlers': sorted(n for n in fns if n.startswith('on_')),
	}


def render(t: dict[str, Any]) -> str:
	def strs(xs: list[str]) -> str:
		return '[' + ', '.join(_lean_str(x) for x in xs) + ']'

	def table(xs: list[tuple[str, str]]) -> str:
		return '[' + ', '.join(f'({_lean_str(k)}, .{v})' for k, v in xs) + ']'

	return f'''/-
  GENERATED by verif/translate/gen_eval_ops.py from /repo/{SOURCE} — do not edit.
  Operator tables of LiteralEvaluator (class attributes, evaluated) and the `op == …` ladders of `_calc` / `_bitwise` (read with `ast`).
-/
namespace Tranp.Generated.EvalOps

/-- the Python binary operation a ladder branch applies (`left <op> right`) -/
inductive BinKind where
  | add | sub | mult | div | mod | bitOr | bitXor | bitAnd | lShift | rShift
deriving DecidableEq, Repr

/-- `LiteralEvaluator.ArthmeticOps` -/
def arithmeticOps : List (List Char) := {strs(t['arithmetic'])}

/-- `LiteralEvaluator.BitwiseOps` -/
def bitwiseOps : List (List Char) := {strs(t['bitwise'])}

/-- `LiteralEvaluator.AllowOps` -/
def allowOps : List (List Char) := {strs(t['allow'])}

/-- `_calc`: `if op == tok: return left <kind> right … else: assert False` -/
def calcTable : List (List Char × BinKind) := {table(t['calc'])}

/-- `_bitwise`: same ladder shape -/
def bitTable : List (List Char × BinKind) := {table(t['bit'])}

/-- handlers whose body is `return self._op_bin_each(node, elements)` -/
def chainHandlers : List (List Char) := {strs(t['chain_handlers'])}

/-- names compared with `org_calls` in `on_func_call` -/
def castNames : List (List Char) := {strs(t['casts'])}

/-- `quotes` of `_allow_string` -/
def quoteChars : List Char := [{', '.join(_lean_str(q)[1:-1] for q in t['quotes'])}]

/-- `long_quotes` of `_allow_string` and the minimal length of a token it tests against them -/
def longQuotes : List (List Char) := {strs(t['long_quotes'])}
def longQuoteMinLen : Nat := {t['long_quote_min_len']}

/-- `on_func_call`: `if len(arguments) != castArity: raise Errors.OperationNotAllowed` -/
def castArity : Nat := {t['cast_arity']}

/-- `_joins_escape`: `re.search(joinsLeftPattern, left[1:-1]) is not None and re.match(joinsRightPattern, right[1:-1]) is not None`.
    The translator refuses any other pair: the model's `joinsEscape` (a decoder state, not a regex) is proved and
    correspondence-checked against exactly these two. -/
def joinsLeftPattern : List Char := {_lean_str(t['joins_patterns'][0])}
def joinsRightPattern : List Char := {_lean_str(t['joins_patterns'][1])}

/-- every `on_*` handler the class registers -/
def handlers : List (List Char) := {strs(t['handlers'])}

end Tranp.Generated.EvalOps
'''


def generate() -> list[dict[str, Any]]:
	t = read_tables()
	changed = write_if_changed(TARGET, render(t))   # the tables are written first: the model follows them even when the pinned text changed
	pinned = check_audited(t['handlers'])
	return [{
		'file': os.path.relpath(TARGET, os.path.dirname(GENERATED_DIR)),
		'source': SOURCE,
		'entries': len(t['arithmetic']) + len(t['bitwise']) + len(t['allow']) + len(t['calc']) + len(t['bit']) + len(t['chain_handlers']) + len(t['casts']) + len(t['quotes']) + len(t['long_quotes']) + 2 + 3 + len(t['handlers']),
		'changed': changed,
		'pinned_methods': pinned,
		'tables': {k: v for k, v in t.items()},
	}]


if __name__ == '__main__':
	if '--audit' in sys.argv:
		from translate import gen_literalize
		pinned_now = {**modelled_sources(), gen_literalize.BRANCH_KEY: gen_literalize.value_branch_source()}
		with open(AUDITED, 'w', encoding='utf-8') as f:
			json.dump(pinned_now, f, indent=1, sort_keys=True)
		print(f'audited {AUDITED}')
	else:
		print(generate())
