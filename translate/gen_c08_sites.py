"""Translator for C08: the table of string-comparison SITES -> lean/Tranp/Generated/C08Sites.lean.

With `ast`, finds every call of a string method that looks inside a string (`startswith endswith find rfind index rindex replace
split rsplit partition rpartition count removeprefix removesuffix strip lstrip rstrip`), every `in` / `not in` comparison, every use
of `re` and every `sorted()` / `.sort()` / `min()` / `max()` (order-by-spelling sites) in the files anchored by C08, `cpp_view_helper.py` and `syntax/node/definition/*.py`, and compares the list
with the audited table `translate/c08_sites_audited.json` (site = file, enclosing definition, kind, normalised source text;
verdict + note written by the audit). A site that is new, changed or gone means the audit no longer describes the code: the
translator raises (broken tie -> the check reports it and the search runs with the larger budget).
The string tests written in the Jinja templates (data/cpp/template/**/*.j2) are sites too (kind `j2`, one per template line).
"""
from __future__ import annotations

import ast
import glob
import hashlib
import json
import os
import re
from collections import Counter

from harness.common import GENERATED_DIR, REPO, write_if_changed

TARGET = os.path.join(GENERATED_DIR, 'C08Sites.lean')
AUDITED = os.path.join(os.path.dirname(os.path.abspath(__file__)), 'c08_sites_audited.json')

FIXED_FILES = ['rogw/tranp/semantics/finder.py', 'rogw/tranp/dsn/dsn.py', 'rogw/tranp/dsn/module.py', 'rogw/tranp/dsn/translation.py',
	'rogw/tranp/syntax/node/node.py', 'rogw/tranp/semantics/reflection/helper/naming.py', 'rogw/tranp/implements/cpp/transpiler/py2cpp.py',
	'rogw/tranp/implements/cpp/view/cpp_view_helper.py']
STR_METHODS = {'startswith', 'endswith', 'find', 'rfind', 'index', 'rindex', 'replace', 'split', 'rsplit', 'partition', 'rpartition', 'count',
	'removeprefix', 'removesuffix', 'strip', 'lstrip', 'rstrip'}
ORDER_FUNCS = {'sorted', 'min', 'max'}
RE_METHODS = {'fullmatch', 'search', 'sub', 'match', 'findall', 'finditer', 'subn'}
VERDICTS = ['whole-key', 'entry-path', 'delimiter', 'unsafe-unreachable', 'not-a-name', 'config', 'name-list', 'reserved', 'reserved-prefix',
	'modelled', 'rendered', 'literal', 'regex', 'regex-use', 'convention', 'DEFECT']


class TranslateError(Exception):
	pass


def files() -> list[str]:
	defs = sorted(os.path.relpath(p, REPO) for p in glob.glob(os.path.join(REPO, 'rogw/tranp/syntax/node/definition/*.py')))
	return [*FIXED_FILES, *defs]


def scan(rel: str) -> list[dict[str, str]]:
	with open(os.path.join(REPO, rel), encoding='utf-8') as f:
		tree = ast.parse(f.read())
	out: list[dict[str, str]] = []

	def visit(node: ast.AST, qual: str) -> None:
		for child in ast.iter_child_nodes(node):
			q = qual
			if isinstance(child, (ast.FunctionDef, ast.AsyncFunctionDef, ast.ClassDef)):
				q = f'{qual}.{child.name}' if qual else child.name
			kind = None
			if isinstance(child, ast.Call) and isinstance(child.func, ast.Attribute):
				if child.func.attr in STR_METHODS:
					kind = f'str.{child.func.attr}'
				elif child.func.attr in RE_METHODS or (isinstance(child.func.value, ast.Name) and child.func.value.id == 're'):
					kind = f're.{child.func.attr}'
			elif isinstance(child, ast.Compare) and any(isinstance(o, (ast.In, ast.NotIn)) for o in child.ops):
				kind = 'in'
			# order-by-spelling sites: sorted() / .sort() / min() / max() over identifiers are equivariant only if used as a set
			if kind is None and isinstance(child, ast.Call):
				if isinstance(child.func, ast.Name) and child.func.id in ORDER_FUNCS:
					kind = f'order.{child.func.id}'
				elif isinstance(child.func, ast.Attribute) and child.func.attr == 'sort':
					kind = 'order.sort'
			if kind:
				out.append({'file': rel, 'where': qual or '<module>', 'kind': kind, 'code': ast.unparse(child)})
			visit(child, q)

	visit(tree, '')
	return out


J2_PATTERN = re.compile(r"startswith|endswith|\.find\(|\.split\(|\.replace\(|\.index\(|\.count\(|reg_\w+\(|\b(?:not )?in [\[\('\w]")


def scan_templates() -> list[dict[str, str]]:
	"""String tests written in the Jinja templates (data/cpp/template/**/*.j2): one site per template line that contains one."""
	out: list[dict[str, str]] = []
	root = os.path.join(REPO, 'data', 'cpp', 'template')
	for p in sorted(glob.glob(os.path.join(root, '**', '*.j2'), recursive=True)):
		with open(p, encoding='utf-8') as f:
			for ln in f.read().split('\n'):
				t = ln.strip()
				if re.search(r'\{%-?\s*for\b', t) and not re.search(r'startswith|endswith|reg_', t):
					continue
				if J2_PATTERN.search(t) and ('{%' in t or '{{' in t):
					out.append({'file': os.path.relpath(p, REPO), 'where': '<template>', 'kind': 'j2', 'code': t})
	return out


def lean_str(s: str) -> str:
	return '"' + s.replace('\\', '\\\\').replace('"', '\\"').replace('\n', '\\n') + '"'


def ctor(verdict: str) -> str:
	return '.' + ''.join(w if i == 0 else w.capitalize() for i, w in enumerate(verdict.lower().replace('-', ' ').split()))


def generate() -> list[dict]:
	found = [s for f in files() for s in scan(f)] + scan_templates()
	with open(AUDITED, encoding='utf-8') as f:
		audited = json.load(f)
	key = lambda s: (s['file'], s['where'], s['kind'], s['code'])  # noqa: E731
	have, want = Counter(key(s) for s in found), Counter(key(s) for s in audited)
	new, gone = list((have - want).elements()), list((want - have).elements())
	if new or gone:
		raise TranslateError('the audited site table of C08 no longer describes the code: '
			+ '; '.join([*(f'NEW or CHANGED site {k[0]} {k[1]}: {k[3]}' for k in new[:6]), *(f'audited site GONE {k[0]} {k[1]}: {k[3]}' for k in gone[:6])]))
	for a in audited:
		if a['verdict'] not in VERDICTS:
			raise TranslateError(f"unknown verdict {a['verdict']!r} in the audited table")
	rows = ',\n'.join(f"  ⟨{lean_str(a['file'])}, {lean_str(a['where'])}, {lean_str(a['kind'])}, {lean_str(a['code'])}, {ctor(a['verdict'])}⟩" for a in audited)
	ctors = ' | '.join(ctor(v)[1:] for v in VERDICTS)
	content = (
		'/-\n'
		'  GENERATED by translate/gen_c08_sites.py — do not edit; rewritten on every run of ./check C08.\n'
		'  Every string-inspecting call / `in` comparison / use of `re` found with `ast` in the files anchored by C08, cpp_view_helper.py\n'
		'  and syntax/node/definition/*.py, with the verdict of the audit (translate/c08_sites_audited.json). The translator fails when\n'
		'  a site is new, changed or gone.\n'
		'-/\n'
		'namespace Tranp.Generated.C08Sites\n\n'
		f'inductive Verdict where\n  | {ctors}\nderiving DecidableEq, Repr\n\n'
		'structure Site where\n  file : String\n  where_ : String\n  kind : String\n  code : String\n  verdict : Verdict\nderiving Repr\n\n'
		f'def sites : List Site := [\n{rows}\n]\n\n'
		'end Tranp.Generated.C08Sites\n')
	changed = write_if_changed(TARGET, content)
	return [{
		'file': 'lean/' + os.path.relpath(TARGET, os.path.dirname(os.path.dirname(GENERATED_DIR))),
		'source': 'ast scan of ' + ', '.join(os.path.basename(f) for f in files()),
		'entries': len(audited),
		'changed': changed,
		'sha256': hashlib.sha256(content.encode('utf-8')).hexdigest(),
		'verdicts': dict(Counter(a['verdict'] for a in audited)),
	}]
