"""Translator for property C10: which entries can sit directly below which tree tag, and which tags are resolvable.

Builds the lark parser exactly as `SyntaxParserOfLark.__load_parser` does (as `gen_tag_alphabet`) and writes
`lean/Tranp/Generated/GrammarChildren.lean`:

* `kids`       — for every tag a TREE entry of a parse tree can carry: the names its direct children can carry (tree tags,
  names of the tokens lark keeps, and `Entry.empty_name` for the `None` a missing `[x]` leaves behind). Computed from lark's
  compiled rules after its EBNF expansion, following `lark/parse_tree_builder.py`: a `_rule` is inlined into its parent,
  a terminal with `filter_out` is dropped unless the rule keeps all tokens (`!rule`), an alternative of a `?rule` without
  alias is replaced by its only child when it has exactly one (so it shows its own tag only if it can have two or more
  children, and shows its children's names only if it can have exactly one), an alias or a template name renames the tree.
  The counts are the minimal / maximal number of children of each compiled alternative (least fixed points).
* `resolvable` — the tags of `symbol_mapping()` (`rogw/tranp/providers/syntax/resolver.py`), in registration order.

`Tranp.C10.grammar_chain_free` decides over these tables that no three unresolvable tree tags are nested directly inside one
another above a further entry — the tag-level condition under which the three levels `Nodes.expand` looks down
(`group_by(via, depth=3)`, query.py) suffice. That every real parse tree conforms to `kids` is checked by the harness on
every tree it parses (a miss breaks the tie, like a name outside the tag alphabet).
"""
from __future__ import annotations

import hashlib
import os
from typing import Any

from harness.common import GENERATED_DIR, REPO, write_if_changed

OUT = os.path.join(GENERATED_DIR, 'GrammarChildren.lean')

INF = 1 << 20


class TranslateError(Exception):
	pass


def chars(s: str) -> str:
	for c in s:
		if c in "'\\" or not (32 <= ord(c) < 127):
			raise TranslateError(f'name {s!r} contains a character the generator does not emit')
	return '[' + ', '.join(f"'{c}'" for c in s) + ']'


def _name(n: Any) -> str:
	return str(n.value) if hasattr(n, 'value') else str(n)


def tables() -> tuple[str, dict[str, list[str]], list[str], str]:
	"""(start tag, parent tag -> sorted child names, resolvable tags, sha256 of the inputs)"""
	import inspect

	import lark
	from lark.indenter import PythonIndenter
	from rogw.tranp.providers.syntax import resolver as resolver_mod
	from rogw.tranp.providers.syntax.ast import parser_setting
	from rogw.tranp.syntax.ast.entry import Entry

	setting = parser_setting()
	if not isinstance(setting.start, str) or not setting.start:
		raise TranslateError('ParserSetting.start is not a non-empty string')
	with open(os.path.join(REPO, setting.grammar), encoding='utf-8') as f:
		text = f.read()
	parser = lark.Lark(text, start=setting.start, parser=setting.algorithem, postlex=PythonIndenter(), propagate_positions=True)
	if parser.options.maybe_placeholders is not True or parser.options.keep_all_tokens is not False:
		raise TranslateError('lark options maybe_placeholders / keep_all_tokens are not the defaults this translator reads the rules under')
	rules = list(parser.rules)
	if not rules:
		raise TranslateError('the compiled grammar has no rules')
	empty = getattr(Entry, 'empty_name', None)
	if not isinstance(empty, str):
		try:
			from rogw.tranp.syntax.ast.entry import EntryOfDict
			empty = EntryOfDict(None).name
		except Exception as e:  # noqa: BLE001
			raise TranslateError(f'cannot read Entry.empty_name: {e}') from e

	by_origin: dict[str, list[Any]] = {}
	for r in rules:
		for attr in ('origin', 'expansion', 'alias', 'options'):
			if not hasattr(r, attr):
				raise TranslateError(f'lark Rule has no attribute {attr}')
		for attr in ('keep_all_tokens', 'expand1', 'empty_indices', 'template_source'):
			if not hasattr(r.options, attr):
				raise TranslateError(f'lark RuleOptions has no attribute {attr}')
		for sym in r.expansion:
			if not hasattr(sym, 'is_term') or (sym.is_term and not hasattr(sym, 'filter_out')):
				raise TranslateError(f'symbol {sym!r} of rule {r!r} has an unknown shape')
		by_origin.setdefault(_name(r.origin.name), []).append(r)
	for r in rules:
		for sym in r.expansion:
			if not sym.is_term and _name(sym.name) not in by_origin:
				raise TranslateError(f'nonterminal {_name(sym.name)} has no rule')

	def inlined(origin: str) -> bool:
		return origin.startswith('_')

	def kept(r: Any, sym: Any) -> bool:
		return not (sym.filter_out and not r.options.keep_all_tokens)

	def placeholders(r: Any) -> int:
		return sum(1 for b in (r.options.empty_indices or ()) if b)

	def tag_of(r: Any) -> str:
		o = _name(r.origin.name)
		if r.alias:
			return _name(r.alias)
		if r.options.template_source is not None:
			return str(r.options.template_source)
		if '{' in o:
			raise TranslateError(f'rule {o!r} looks like a template instance but has no template_source')
		return o

	def count(pick: Any, start: int, cap: int) -> tuple[dict[str, int], dict[int, int]]:
		"""number of children a reference to a nonterminal contributes / a compiled alternative has (pick = min or max), capped"""
		ref = {o: start for o in by_origin}
		alt = {id(r): start for r in rules}
		changed = True
		while changed:
			changed = False
			for r in rules:
				c = placeholders(r)
				for sym in r.expansion:
					c += (1 if kept(r, sym) else 0) if sym.is_term else ref[_name(sym.name)]
				c = min(c, cap)
				if c != alt[id(r)] and pick(c, alt[id(r)]) == c:
					alt[id(r)] = c
					changed = True
			for o, rs in by_origin.items():
				v = pick(alt[id(r)] for r in rs) if inlined(o) else 1
				if v != ref[o] and pick(v, ref[o]) == v:
					ref[o] = v
					changed = True
		return ref, alt

	_, alt_min = count(min, INF, INF)
	_, alt_max = count(max, 0, 2)  # only `>= 2` is asked of the maximum (recursive `__x_star_n` helpers are unbounded)

	def shows_own_tag(r: Any) -> bool:
		o = _name(r.origin.name)
		if inlined(o):
			return False
		if r.options.expand1 and not r.alias:
			return alt_max[id(r)] >= 2
		return True

	def shows_children(r: Any) -> bool:
		o = _name(r.origin.name)
		if inlined(o):
			return True
		return bool(r.options.expand1 and not r.alias and alt_min[id(r)] <= 1)

	vis: dict[str, set[str]] = {o: set() for o in by_origin}
	below: dict[int, set[str]] = {id(r): set() for r in rules}
	changed = True
	while changed:
		changed = False
		for r in rules:
			ks: set[str] = set()
			for sym in r.expansion:
				if sym.is_term:
					if kept(r, sym):
						ks.add(_name(sym.name))
				else:
					ks |= vis[_name(sym.name)]
			if placeholders(r):
				ks.add(empty)
			if not ks <= below[id(r)]:
				below[id(r)] |= ks
				changed = True
		for o, rs in by_origin.items():
			v: set[str] = set()
			for r in rs:
				if shows_own_tag(r):
					v.add(tag_of(r))
				if shows_children(r):
					v |= below[id(r)]
			if not v <= vis[o]:
				vis[o] |= v
				changed = True
	kids: dict[str, set[str]] = {}
	for r in rules:
		if shows_own_tag(r):
			kids.setdefault(tag_of(r), set()).update(below[id(r)])
	if setting.start not in kids:
		raise TranslateError(f'the start symbol {setting.start} builds no tree')
	if 'name' not in kids.get('var', set()) or 'var' not in kids.get('assign_namelist', set()):
		raise TranslateError('the relation lacks var > name / assign_namelist > var: the grammar or lark changed shape')

	sm = resolver_mod.symbol_mapping()
	resolvable: list[str] = []
	for ctor, tags in sm.symbols.items():
		if not isinstance(ctor, type) or not isinstance(tags, (list, tuple)):
			raise TranslateError(f'symbol_mapping entry {ctor!r}: {tags!r} has an unknown shape')
		for t in tags:
			if not isinstance(t, str):
				raise TranslateError(f'symbol_mapping tag {t!r} is not a string')
			if t not in resolvable:
				resolvable.append(t)
	if not resolvable:
		raise TranslateError('symbol_mapping has no tags')
	sha = hashlib.sha256((text + '\0' + inspect.getsource(resolver_mod)).encode('utf-8')).hexdigest()
	return setting.start, {k: sorted(v) for k, v in sorted(kids.items())}, resolvable, sha


def render(kids: dict[str, list[str]], resolvable: list[str], sha: str) -> str:
	rows = ',\n'.join(f"  ({chars(p)}, [{', '.join(chars(c) for c in cs)}])" for p, cs in kids.items())
	res = ',\n'.join(f'  {chars(t)}' for t in resolvable)
	return '\n'.join([
		'/-',
		'  GENERATED by translate/gen_grammar_children.py from data/grammar.lark (compiled by lark as SyntaxParserOfLark does) and',
		'  rogw/tranp/providers/syntax/resolver.py (symbol_mapping) — do not edit.',
		f'  sha256 of the inputs = {sha}',
		'-/',
		'import Tranp.Str',
		'',
		'namespace Tranp.Generated.GrammarChildren',
		'',
		'/-- tree tag ↦ the names its direct children can carry (tree tags, kept token names, `__empty__`) -/',
		'def kids : List (Tranp.Str × List Tranp.Str) := [',
		rows,
		']',
		'',
		'/-- the tags `symbol_mapping()` registers a node class for (`Resolver.can_resolve`) -/',
		'def resolvable : List Tranp.Str := [',
		res,
		']',
		'',
		'end Tranp.Generated.GrammarChildren',
		'',
	])


def generate() -> list[dict[str, Any]]:
	start, kids, resolvable, sha = tables()
	changed = write_if_changed(OUT, render(kids, resolvable, sha))
	return [{
		'file': os.path.relpath(OUT, os.path.dirname(GENERATED_DIR)),
		'source': 'data/grammar.lark compiled by lark (child names per tree tag) + symbol_mapping() tags',
		'sha256': sha,
		'entries': sum(len(v) for v in kids.values()),
		'parents': len(kids),
		'resolvable': len(resolvable),
		'start': start,
		'changed': changed,
	}]


if __name__ == '__main__':
	for rec in generate():
		print(rec)
