"""Translator for property C05: what the three on-disk caches hash into their file names, read from the source (AST only).

Writes `lean/Tranp/Generated/CacheKeys.lean`:

* `Cached.identifier` / `CachedProxy.gen_cache_path` / `find_oldest` / `CacheProvider.get` (cache/cache.py): the digest
  expression, the file-name template, the eviction glob, the class selected by `enabled`;
* `FileLoader.load` (app/loader.py): the statements between `open(...)` and `return` — what bytes the file hash is the md5 of;
* `Module.identity` / `Module.__collect_hashes` (module/module.py): the statements, verbatim, in order;
* `SymbolDBPersistor._can_store` / `_can_restore` / `_gen_filepath` / `_gen_glob_pattern` (semantics/reflection/persistent.py):
  the conjuncts of the gates, the file-name template, the glob.

(The identities of the tree files and of the parser pickle are in `Generated/LarkCache.lean`, written by gen_lark_cache.py.)
Props/C05.lean compares these tables with the shapes the hand-written model (Model/CacheFS.lean) implements; a shape this
generator does not recognise raises `TranslateError` — the tie is broken, never silently defaulted.
"""
from __future__ import annotations

import ast
import os
from typing import Any

from harness.common import GENERATED_DIR, REPO, write_if_changed

OUT = os.path.join(GENERATED_DIR, 'CacheKeys.lean')

CACHE_PY = 'rogw/tranp/cache/cache.py'
LOADER_PY = 'rogw/tranp/app/loader.py'
MODULE_PY = 'rogw/tranp/module/module.py'
PERSIST_PY = 'rogw/tranp/semantics/reflection/persistent.py'


class TranslateError(Exception):
	pass


def need(cond: bool, msg: str) -> None:
	if not cond:
		raise TranslateError(msg)


def parse_file(rel: str) -> ast.Module:
	with open(os.path.join(REPO, rel), encoding='utf-8') as f:
		return ast.parse(f.read())


def find_class(tree: ast.AST, name: str) -> ast.ClassDef:
	hits = [n for n in ast.walk(tree) if isinstance(n, ast.ClassDef) and n.name == name]
	need(len(hits) == 1, f'expected exactly one class {name}')
	return hits[0]


def find_func(cls: ast.AST, name: str) -> ast.FunctionDef:
	hits = [n for n in getattr(cls, 'body', []) if isinstance(n, ast.FunctionDef) and n.name == name]
	need(len(hits) == 1, f'expected exactly one function {name}')
	return hits[0]


def body(fn: ast.FunctionDef) -> list[ast.stmt]:
	b = fn.body
	if b and isinstance(b[0], ast.Expr) and isinstance(b[0].value, ast.Constant) and isinstance(b[0].value.value, str):
		return b[1:]
	return b


def stmts(fn: ast.FunctionDef) -> list[str]:
	"""Flat, verbatim rendering of a function body: one entry per simple statement, compound statements contribute their header
	(`if <test>:` / `else:` / `for <t> in <it>:` / `with <items>:`) followed by their bodies, `end` closes a block."""
	out: list[str] = []

	def walk(ss: list[ast.stmt]) -> None:
		for s in ss:
			if isinstance(s, ast.If):
				out.append(f'if {ast.unparse(s.test)}:')
				walk(s.body)
				if s.orelse:
					out.append('else:')
					walk(s.orelse)
				out.append('end')
			elif isinstance(s, ast.For):
				out.append(f'for {ast.unparse(s.target)} in {ast.unparse(s.iter)}:')
				walk(s.body)
				need(not s.orelse, 'for/else is not understood')
				out.append('end')
			elif isinstance(s, ast.With):
				out.append('with ' + ', '.join(ast.unparse(i) for i in s.items) + ':')
				walk(s.body)
				out.append('end')
			elif isinstance(s, (ast.Assign, ast.AnnAssign, ast.AugAssign, ast.Return, ast.Expr, ast.Raise)):
				if isinstance(s, ast.Expr) and isinstance(s.value, ast.Constant) and isinstance(s.value.value, str):
					continue
				out.append(ast.unparse(s))
			else:
				raise TranslateError(f'statement kind {type(s).__name__} is not understood: {ast.unparse(s)[:80]}')
	walk(body(fn))
	return out


def conjuncts(fn: ast.FunctionDef) -> list[str]:
	b = body(fn)
	need(len(b) == 1 and isinstance(b[0], ast.Return) and b[0].value is not None, f'{fn.name}: expected a single return')
	v = b[0].value
	if isinstance(v, ast.BoolOp) and isinstance(v.op, ast.And):
		return [ast.unparse(x) for x in v.values]
	return [ast.unparse(v)]


def lean_str(s: str) -> str:
	def ch(c: str) -> str:
		if c == "'":
			return "'\\''"
		if c == '\\':
			return "'\\\\'"
		if c == '\n':
			return "'\\n'"
		if c == '\t':
			return "'\\t'"
		need(32 <= ord(c) < 127, f'non-ASCII character in a source expression: {c!r}')
		return f"'{c}'"
	return '[' + ', '.join(ch(c) for c in s) + ']'


def lean_list(name: str, items: list[str], doc: str) -> str:
	return f'/-- {doc} -/\ndef {name} : List Str := [' + ', '.join(lean_str(i) for i in items) + ']\n'


def generate() -> list[dict[str, Any]]:
	cache = parse_file(CACHE_PY)
	loader = parse_file(LOADER_PY)
	module = parse_file(MODULE_PY)
	persist = parse_file(PERSIST_PY)

	cached = find_class(cache, 'Cached')
	proxy = find_class(cache, 'CachedProxy')
	provider = find_class(cache, 'CacheProvider')
	file_loader = find_class(loader, 'FileLoader')
	mod = find_class(module, 'Module')
	pers = find_class(persist, 'SymbolDBPersistor')

	# the decorator of CacheProvider.get: the line that selects the class
	get_src = [ast.unparse(s) for s in ast.walk(find_func(provider, 'get')) if isinstance(s, ast.Assign) and ast.unparse(s.targets[0]) == 'ctor']
	need(len(get_src) == 1, 'CacheProvider.get: expected one `ctor = …`')

	parts = [
		lean_list('identifier', stmts(find_func(cached, 'identifier')), '`Cached.identifier` (cache/cache.py)'),
		lean_list('genCachePath', stmts(find_func(proxy, 'gen_cache_path')), '`CachedProxy.gen_cache_path`'),
		lean_list('proxyGet', stmts(find_func(proxy, 'get')), '`CachedProxy.get`'),
		lean_list('saveCache', stmts(find_func(proxy, 'save_cache')), '`CachedProxy.save_cache`'),
		lean_list('findOldest', stmts(find_func(proxy, 'find_oldest')), '`CachedProxy.find_oldest`'),
		lean_list('providerCtor', get_src, 'the class `CacheProvider.get` instantiates'),
		lean_list('loaderLoad', stmts(find_func(file_loader, 'load')), '`FileLoader.load` (app/loader.py): what the file hash is the md5 of'),
		lean_list('loaderHash', stmts(find_func(file_loader, 'hash')), '`FileLoader.hash`'),
		lean_list('moduleDependsOn', stmts(find_func(mod, 'depends_on')), '`Module.depends_on` (module/module.py)'),
		lean_list('moduleIdentity', stmts(find_func(mod, 'identity')), '`Module.identity`'),
		lean_list('moduleCollect', stmts(find_func(mod, '__collect_hashes')), '`Module.__collect_hashes`'),
		lean_list('canStore', conjuncts(find_func(pers, '_can_store')), 'conjuncts of `SymbolDBPersistor._can_store`'),
		lean_list('canRestore', conjuncts(find_func(pers, '_can_restore')), 'conjuncts of `SymbolDBPersistor._can_restore`'),
		lean_list('genFilepath', stmts(find_func(pers, '_gen_filepath')), '`SymbolDBPersistor._gen_filepath`'),
		lean_list('genGlobPattern', stmts(find_func(pers, '_gen_glob_pattern')), '`SymbolDBPersistor._gen_glob_pattern`'),
		lean_list('persistStore', stmts(find_func(pers, '_store')), '`SymbolDBPersistor._store`'),
		lean_list('persistRestore', stmts(find_func(pers, '_restore')), '`SymbolDBPersistor._restore`'),
	]
	text = ('/-\n  GENERATED by verif/translate/gen_cache_keys.py from the working tree of the repository — do not edit.\n'
		'  What the on-disk caches of tranp hash into their file names (property C05).\n-/\nimport Tranp.Str\n\n'
		'namespace Tranp.Generated.CacheKeys\nopen Tranp\n\n' + '\n'.join(parts) + '\nend Tranp.Generated.CacheKeys\n')
	changed = write_if_changed(OUT, text)
	return [{'file': os.path.relpath(OUT, os.path.dirname(GENERATED_DIR)), 'entries': len(parts), 'changed': changed,
		'sources': [CACHE_PY, LOADER_PY, MODULE_PY, PERSIST_PY]}]
