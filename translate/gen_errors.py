"""Translator for property C07: the exception tables of tranp as Lean data.

Reads (never imports for the AST parts) the working tree of /repo and writes `lean/Tranp/Generated/ErrorsTable.lean`:

* `ErrName` + `ErrName.parent?`   — the `Errors` hierarchy of rogw/tranp/errors.py (class → base), from the evaluated classes
  and cross-checked against the file's AST; `ErrName.definesCtor` — whether a class customises `__init__`/`__new__`
  (none does today: `e.__class__(node)` in Procedure.__emit relies on it).
* `Builtin` + `Builtin.parent?`   — CPython's builtin exception hierarchy (from the running interpreter).
* the `except` tables, read from the AST of the anchored functions:
  `emitHandlers` (Procedure.__emit), `makeEventHandlers` (Procedure.__make_event), `execImplHandlers` (Procedure.__exec_impl),
  `parserDiskHandlers` / `parserMemHandlers` (the two branches of SyntaxParserOfLark.__load_entry),
  `interactiveInnerCatch` / `interactiveOuterCatch` (Interactive.run).

A shape the generator does not recognise is an error (the tie is broken), never a silent default.
"""
from __future__ import annotations

import ast
import builtins
import os
from typing import Any

from harness.common import GENERATED_DIR, REPO, write_if_changed

OUT = os.path.join(GENERATED_DIR, 'ErrorsTable.lean')


class TranslateError(Exception):
	pass


# ---------------------------------------------------------------------------------------------
# hierarchy


def errors_hierarchy() -> list[tuple[str, str, bool]]:
	"""(class, base, customises ctor) in definition order. Base is `Errors.<X>` → 'X' or a builtin → 'builtins.<Y>'."""
	path = os.path.join(REPO, 'rogw/tranp/errors.py')
	with open(path, encoding='utf-8') as f:
		tree = ast.parse(f.read())
	ns = [n for n in tree.body if isinstance(n, ast.ClassDef) and n.name == 'Errors']
	if len(ns) != 1:
		raise TranslateError('errors.py: expected exactly one top-level class Errors')
	from_ast: list[tuple[str, str, bool]] = []
	for n in ns[0].body:
		if isinstance(n, ast.Expr):
			continue  # docstring
		if not isinstance(n, ast.ClassDef) or len(n.bases) != 1 or n.keywords:
			raise TranslateError(f'errors.py: unrecognised member of Errors at line {n.lineno}')
		b = n.bases[0]
		if not isinstance(b, ast.Name):
			raise TranslateError(f'errors.py: base of {n.name} is not a plain name')
		custom = any(isinstance(m, ast.FunctionDef) and m.name in ('__init__', '__new__') for m in n.body)
		from_ast.append((n.name, b.id, custom))
	names = [c for c, _, _ in from_ast]
	out = []
	for c, b, custom in from_ast:
		if b in names:
			if names.index(b) >= names.index(c):
				raise TranslateError(f'errors.py: {c} derives from a later class {b}')
			out.append((c, b, custom))
		elif isinstance(getattr(builtins, b, None), type) and issubclass(getattr(builtins, b), BaseException):
			out.append((c, f'builtins.{b}', custom))
		else:
			raise TranslateError(f'errors.py: base {b} of {c} is neither a member of Errors nor a builtin exception')
	# cross-check with the evaluated classes
	from rogw.tranp.errors import Errors  # type: ignore
	for c, b, _ in out:
		cls = getattr(Errors, c)
		real = cls.__bases__
		want = getattr(Errors, b) if not b.startswith('builtins.') else getattr(builtins, b[9:])
		if real != (want,):
			raise TranslateError(f'errors.py: evaluated bases of {c} differ from the source text')
	evaluated = [k for k, v in vars(Errors).items() if isinstance(v, type) and issubclass(v, BaseException)]
	if sorted(evaluated) != sorted(names):
		raise TranslateError('errors.py: evaluated members differ from the source text')
	return out


def builtin_hierarchy() -> list[tuple[str, str | None]]:
	out = []
	for k in sorted(vars(builtins)):
		v = getattr(builtins, k)
		if isinstance(v, type) and issubclass(v, BaseException) and v.__name__ == k:
			if len(v.__bases__) != 1 and v is not BaseException:
				# BaseExceptionGroup/ExceptionGroup: ExceptionGroup(BaseExceptionGroup, Exception)
				if k == 'ExceptionGroup':
					continue
				raise TranslateError(f'builtin exception {k} has {len(v.__bases__)} bases')
			base = v.__bases__[0]
			out.append((k, None if base is object else base.__name__))
	# parents first
	names = [k for k, _ in out]
	ordered: list[tuple[str, str | None]] = []
	done: set[str] = set()
	while len(ordered) < len(out):
		for k, b in out:
			if k not in done and (b is None or b in done):
				ordered.append((k, b))
				done.add(k)
	assert sorted(names) == sorted(k for k, _ in ordered)
	return ordered


# ---------------------------------------------------------------------------------------------
# except tables


def _find_func(tree: ast.AST, cls: str, name: str) -> ast.FunctionDef:
	for n in ast.walk(tree):
		if isinstance(n, ast.ClassDef) and n.name == cls:
			for m in n.body:
				if isinstance(m, ast.FunctionDef) and m.name == name:
					return m
	raise TranslateError(f'{cls}.{name} not found')


def _catch_atom(t: ast.expr | None, where: str) -> str:
	if isinstance(t, ast.Name) and isinstance(getattr(builtins, t.id, None), type):
		return f'.bi .{t.id}'
	if isinstance(t, ast.Attribute) and isinstance(t.value, ast.Name) and t.value.id == 'Errors':
		return f'.err .{t.attr}'
	raise TranslateError(f'{where}: unrecognised except clause type {ast.dump(t) if t else None}')


def _raised_errors_class(stmt: ast.stmt) -> tuple[str, list[ast.expr]] | None:
	if isinstance(stmt, ast.Raise) and isinstance(stmt.exc, ast.Call):
		f = stmt.exc.func
		if isinstance(f, ast.Attribute) and isinstance(f.value, ast.Name) and f.value.id == 'Errors':
			return f.attr, list(stmt.exc.args)
	return None


def _arg0_kind(args: list[ast.expr], node_names: tuple[str, ...]) -> str:
	if not args:
		return '.none'
	a = args[0]
	if isinstance(a, ast.Name) and a.id in node_names:
		return '.node'
	return '.other'


def _action(h: ast.ExceptHandler, where: str, node_names: tuple[str, ...]) -> str:
	body = h.body
	if len(body) == 1 and isinstance(body[0], ast.Raise) and body[0].exc is None:
		return '.reraise'
	if len(body) == 1:
		r = _raised_errors_class(body[0])
		if r is not None:
			return f'.wrap .{r[0]} {_arg0_kind(r[1], node_names)}'
	# Procedure.__emit: `if len(e.args) > 0 and not isinstance(e.args[0], Node): raise e.__class__(node) from e` ; `raise e`
	if len(body) == 2 and isinstance(body[0], ast.If) and isinstance(body[1], ast.Raise) and isinstance(body[1].exc, ast.Name) and body[1].exc.id == h.name:
		test = ast.unparse(body[0].test)
		inner = body[0].body
		if test == f'len({h.name}.args) > 0 and (not isinstance({h.name}.args[0], Node))' and len(inner) == 1 and isinstance(inner[0], ast.Raise) \
				and ast.unparse(inner[0].exc) == f'{h.name}.__class__(node)' and not body[0].orelse:
			return '.renode'
	raise TranslateError(f'{where}: unrecognised except body: {ast.unparse(h)[:200]}')


def _only_try(fn: ast.FunctionDef, where: str) -> ast.Try:
	tries = [n for n in ast.walk(fn) if isinstance(n, ast.Try)]
	if len(tries) != 1:
		raise TranslateError(f'{where}: expected exactly one try statement, found {len(tries)}')
	return tries[0]


def _handlers(t: ast.Try, where: str, node_names: tuple[str, ...]) -> list[str]:
	if t.orelse or t.finalbody and where != 'Interactive.run':
		raise TranslateError(f'{where}: try statement has else/finally')
	return [f'⟨{_catch_atom(h.type, where)}, {_action(h, where, node_names)}⟩' for h in t.handlers]


def procedure_tables() -> dict[str, list[str]]:
	path = os.path.join(REPO, 'rogw/tranp/semantics/procedure.py')
	with open(path, encoding='utf-8') as f:
		tree = ast.parse(f.read())
	out = {}
	emit = _find_func(tree, 'Procedure', '__emit')
	t = _only_try(emit, 'Procedure.__emit')
	# the event is built BEFORE the try (its exceptions do not pass through these handlers)
	first = emit.body[1] if isinstance(emit.body[0], ast.Expr) else emit.body[0]
	if not (isinstance(first, ast.Assign) and ast.unparse(first.value) == 'self.__make_event(node)' and emit.body.index(first) < emit.body.index(t)):
		raise TranslateError('Procedure.__emit: expected `event = self.__make_event(node)` before the try statement')
	if not (len(t.body) == 1 and isinstance(t.body[0], ast.Return) and 'self.__emitter.emit(' in ast.unparse(t.body[0])):
		raise TranslateError('Procedure.__emit: the try body is not the single emitter call')
	out['emitHandlers'] = _handlers(t, 'Procedure.__emit', ('node',))
	out['makeEventHandlers'] = _handlers(_only_try(_find_func(tree, 'Procedure', '__make_event'), 'Procedure.__make_event'), 'Procedure.__make_event', ('node',))
	out['execImplHandlers'] = _handlers(_only_try(_find_func(tree, 'Procedure', '__exec_impl'), 'Procedure.__exec_impl'), 'Procedure.__exec_impl', ('root',))
	# __action: missing handler -> Errors.MustBeImplemented(node, ...)
	action = _find_func(tree, 'Procedure', '__action')
	raises = [r for r in (_raised_errors_class(s) for s in ast.walk(action) if isinstance(s, ast.Raise)) if r]
	if len(raises) != 1 or raises[0][0] != 'MustBeImplemented' or _arg0_kind(raises[0][1], ('node',)) != '.node':
		raise TranslateError('Procedure.__action: expected the single `raise Errors.MustBeImplemented(node, ...)`')
	return out


def parser_tables() -> tuple[dict[str, list[str]], dict[str, bool]]:
	path = os.path.join(REPO, 'rogw/tranp/implements/syntax/lark/parser.py')
	with open(path, encoding='utf-8') as f:
		tree = ast.parse(f.read())
	fn = _find_func(tree, 'SyntaxParserOfLark', '__load_entry')
	mem_if = [s for s in fn.body if isinstance(s, ast.If) and ast.unparse(s.test) == 'not self.__sources.exists(source_path)']
	if len(mem_if) != 1:
		raise TranslateError('SyntaxParserOfLark.__load_entry: in-memory branch `if not self.__sources.exists(source_path)` not found')
	body = mem_if[0].body
	# the text handed to lark: the provider's text as it is (pinned tree) or through __load_source (completes a missing final line feed)
	loaders = {'parser.parse(self.__source_provider(module_path))': False, 'parser.parse(self.__load_source(module_path))': True}
	used: set[bool] = set()

	def is_parse_return(s: ast.stmt) -> bool:
		if not isinstance(s, ast.Return):
			return False
		text = ast.unparse(s)
		hit = [v for k, v in loaders.items() if k in text]
		if len(hit) != 1:
			return False
		used.add(hit[0])
		return True

	if len(body) == 1 and is_parse_return(body[0]):
		mem: list[str] = []
	elif len(body) == 1 and isinstance(body[0], ast.Try) and len(body[0].body) == 1 and is_parse_return(body[0].body[0]):
		mem = _handlers(body[0], '__load_entry[in-memory]', ())
	else:
		raise TranslateError('SyntaxParserOfLark.__load_entry: unrecognised in-memory branch')
	inst = [s for s in fn.body if isinstance(s, ast.FunctionDef) and s.name == 'instantiate']
	if len(inst) != 1:
		raise TranslateError('SyntaxParserOfLark.__load_entry: nested instantiate() not found')
	t = _only_try(inst[0], '__load_entry.instantiate')
	if not (len(t.body) == 1 and is_parse_return(t.body[0])):
		raise TranslateError('SyntaxParserOfLark.__load_entry.instantiate: try body is not the single parse call')
	if len(used) != 1:
		raise TranslateError('SyntaxParserOfLark.__load_entry: the two branches load the source differently')
	completes = used.pop()
	skips_empty = False
	if completes:
		ls = _find_func(tree, 'SyntaxParserOfLark', '__load_source')
		text = ' ; '.join(ast.unparse(s) for s in ls.body if not isinstance(s, ast.Expr))
		head = 'source = self.__source_provider(module_path) ; '
		shapes = {
			head + "return source if source.endswith('\\n') else f'{source}\\n'": False,
			head + "return source if source.endswith('\\n') or len(source) == 0 else f'{source}\\n'": True,
		}
		if text not in shapes:
			raise TranslateError(f'SyntaxParserOfLark.__load_source: unrecognised body: {text}')
		skips_empty = shapes[text]
	return {'parserDiskHandlers': _handlers(t, '__load_entry[on-disk]', ()), 'parserMemHandlers': mem}, {'sourceCompletesNewline': completes, 'sourceCompletionSkipsEmpty': skips_empty}


def modules_tables() -> dict[str, list[str]]:
	"""Modules.load: pinned tree = no try statement; repaired tree (8079937) =
	`try: <libraries; re-check; loader.load; try: dependencies; preprocess except Exception: self.unload(module_path); raise>`
	`except Errors.Error: raise` / `except Exception as e: raise Errors.Fatal(module_path, ...) from e`."""
	path = os.path.join(REPO, 'rogw/tranp/module/modules.py')
	with open(path, encoding='utf-8') as f:
		tree = ast.parse(f.read())
	fn = _find_func(tree, 'Modules', 'load')
	tries = [n for n in ast.walk(fn) if isinstance(n, ast.Try)]
	if not tries:
		return {'modulesLoadHandlers': [], 'modulesLoadRollbackCatch': [], 'modulesLoadRechecks': []}
	outer = [s for s in fn.body if isinstance(s, ast.Try)]
	if len(outer) != 1 or len(tries) != 2 or outer[0].orelse or outer[0].finalbody:
		raise TranslateError('Modules.load: expected one outer try with one nested try')
	inner = [t for t in tries if t is not outer[0]][0]
	if inner.orelse or inner.finalbody or len(inner.handlers) != 1:
		raise TranslateError('Modules.load: unrecognised inner try')
	h = inner.handlers[0]
	body = [ast.unparse(x) for x in h.body]
	if body != ['self.unload(module_path)', 'raise']:
		raise TranslateError(f'Modules.load: inner handler is not `self.unload(module_path); raise`: {body}')
	inner_body = [ast.unparse(x) for x in inner.body]
	if inner_body != ['self.__load_dependencies(self.__modules[module_path])', 'self.__loader.preprocess(self.__modules[module_path])']:
		raise TranslateError(f'Modules.load: unrecognised inner try body {inner_body}')
	ifs = [x for x in outer[0].body if isinstance(x, ast.If)]
	if len(outer[0].body) != 2 or len(ifs) != 2 or any(ast.unparse(i.test) != 'module_path not in self.__modules' for i in ifs):
		raise TranslateError('Modules.load: expected `if not registered: libraries` ; `if not registered: load, try …`')
	if [ast.unparse(x) for x in ifs[0].body] != ['self.__load_libraries(module_path)']:
		raise TranslateError('Modules.load: first block is not the library load')
	second = ifs[1].body
	if not (len(second) == 2 and ast.unparse(second[0]) == 'self.__modules[module_path] = self.__loader.load(ModulePath(module_path, language))' and second[1] is inner):
		raise TranslateError('Modules.load: second block is not `register loader.load(...)` ; inner try')
	return {
		'modulesLoadHandlers': _handlers(outer[0], 'Modules.load', ()),
		'modulesLoadRollbackCatch': [_catch_atom(h.type, 'Modules.load')],
		'modulesLoadRechecks': ['true'],
	}


def transpile_stage_tables() -> dict[str, list[str]]:
	"""The transpile stage outside Procedure: Py2Cpp.transpile and Runner._run_impl have no except clause (anything else is a new shape
	the model does not know), the module's `__main__` block is `try: App(...).run(...)` / `except Exception as e: print(ErrorRender(e))`."""
	with open(os.path.join(REPO, 'rogw/tranp/implements/cpp/transpiler/py2cpp.py'), encoding='utf-8') as f:
		tree = ast.parse(f.read())
	fn = _find_func(tree, 'Py2Cpp', 'transpile')
	body = [ast.unparse(x) for x in fn.body if not isinstance(x, ast.Expr) or not isinstance(x.value, ast.Constant)]
	if body != ['self.__stack_on_depends.append([])', 'result = self.__procedure.exec(node)', 'self.__stack_on_depends.pop()', 'return result']:
		raise TranslateError(f'Py2Cpp.transpile: unrecognised body {body}')
	with open(os.path.join(REPO, 'rogw/tranp/bin/transpile.py'), encoding='utf-8') as f:
		tree = ast.parse(f.read())
	for name in ('run', '_run_impl', 'can_transpile', 'by_entrypoint'):
		if any(isinstance(n, ast.Try) for n in ast.walk(_find_func(tree, 'Runner', name))):
			raise TranslateError(f'Runner.{name}: unexpected try statement')
	impl = _find_func(tree, 'Runner', '_run_impl')
	loops = [x for x in impl.body if isinstance(x, ast.For)]
	if len(loops) != 1 or [ast.unparse(x) for x in loops[0].body] != [
			'content = self.transpiler.transpile(self.by_entrypoint(module_path))', 'writer = Writer(self.output_filepath(module_path))', 'writer.put(content)', 'writer.flush()']:
		raise TranslateError('Runner._run_impl: unrecognised target loop')
	# one turn of the interactive loop: rebuild_module = assign the source, unload the main module, load it again — unload is NOT inside Modules.load
	rb = _find_func(tree, 'Interactive', 'rebuild_module')
	rb_body = [ast.unparse(x) for x in rb.body if not (isinstance(x, ast.Expr) and isinstance(x.value, ast.Constant))]
	if rb_body != ['self.source_provider.source_code = source_code', 'self.modules.unload(self.source_provider.main_module_path)', 'return self.modules.load(self.source_provider.main_module_path)']:
		raise TranslateError(f'Interactive.rebuild_module: unrecognised body {rb_body}')
	run = _find_func(tree, 'Interactive', 'run')
	inner_try = [n for n in ast.walk(run) if isinstance(n, ast.Try) and not n.finalbody]
	if len(inner_try) != 1:
		raise TranslateError('Interactive.run: inner try not found')
	turn = [ast.unparse(x) for x in inner_try[0].body[:2]]
	if turn != ["main_module = self.rebuild_module('\\n'.join(lines))", 'result = self.transpiler.transpile(main_module.entrypoint)'] or any(not ast.unparse(x).startswith('print(') for x in inner_try[0].body[2:]):
		raise TranslateError(f'Interactive.run: unrecognised turn {[ast.unparse(x) for x in inner_try[0].body]}')
	main = [x for x in tree.body if isinstance(x, ast.If) and ast.unparse(x.test) == "__name__ == '__main__'"]
	if len(main) != 1 or len(main[0].body) != 1 or not isinstance(main[0].body[0], ast.Try):
		raise TranslateError('bin/transpile.py: `if __name__ == "__main__": try …` not found')
	t = main[0].body[0]
	if t.orelse or t.finalbody:
		raise TranslateError('bin/transpile.py __main__: try has else/finally')
	for h in t.handlers:
		if not (len(h.body) == 1 and ast.unparse(h.body[0]) == f'print(ErrorRender({h.name}))'):
			raise TranslateError('bin/transpile.py __main__: handler is not `print(ErrorRender(e))`')
	return {'mainCatch': [_catch_atom(h.type, '__main__') for h in t.handlers]}


def unload_shape() -> bool:
	"""Modules.unload: pinned = `loader.unload; del`; repaired (023f8e8) = `loader.unload; del; for dependent in __dependent_paths: self.unload(dependent)`
	(removal BEFORE the cascade — the order the termination theorem `unload_terminates` is about)."""
	with open(os.path.join(REPO, 'rogw/tranp/module/modules.py'), encoding='utf-8') as f:
		tree = ast.parse(f.read())
	fn = _find_func(tree, 'Modules', 'unload')
	body = [x for x in fn.body if not (isinstance(x, ast.Expr) and isinstance(x.value, ast.Constant))]
	if len(body) != 1 or not isinstance(body[0], ast.If) or ast.unparse(body[0].test) != 'module_path in self.__modules' or body[0].orelse:
		raise TranslateError('Modules.unload: expected the single `if module_path in self.__modules:`')
	stmts = [ast.unparse(x) for x in body[0].body]
	base = ['module = self.__modules[module_path]', 'self.__loader.unload(module.module_path)', 'del self.__modules[module_path]']
	cascade = 'for dependent_path in self.__dependent_paths(module_path):\n    self.unload(dependent_path)'
	if stmts == base:
		return False
	if stmts == [*base, cascade]:
		dp = _find_func(tree, 'Modules', '__dependent_paths')
		text = ' ; '.join(ast.unparse(x) for x in dp.body if not (isinstance(x, ast.Expr) and isinstance(x.value, ast.Constant)))
		if 'module_path in import_paths or (module_path in library_paths and path not in library_paths)' not in text or 'for path, module in self.__modules.items()' not in text:
			raise TranslateError(f'Modules.__dependent_paths: unrecognised body: {text}')
		return True
	raise TranslateError(f'Modules.unload: unrecognised body {stmts}')


def writer_shape() -> None:
	"""file/writer.py Writer.flush: directory creation, then `try: self._flush(abs_filepath)` with the single retry clause (the clause itself
	is classified by the audit: `.retry` = `time.sleep(0.1)` ; `self._flush(abs_filepath)`)."""
	with open(os.path.join(REPO, 'rogw/tranp/file/writer.py'), encoding='utf-8') as f:
		tree = ast.parse(f.read())
	fn = _find_func(tree, 'Writer', 'flush')
	body = [x for x in fn.body if not (isinstance(x, ast.Expr) and isinstance(x.value, ast.Constant))]
	texts = [ast.unparse(x) if not isinstance(x, ast.Try) else 'TRY' for x in body]
	if texts != ['abs_filepath = os.path.abspath(self.__filepath)', 'dirpath = os.path.dirname(abs_filepath)', 'if not os.path.exists(dirpath):\n    os.makedirs(dirpath)', 'TRY']:
		raise TranslateError(f'Writer.flush: unrecognised body {texts}')
	t = body[-1]
	assert isinstance(t, ast.Try)
	if [ast.unparse(x) for x in t.body] != ['self._flush(abs_filepath)'] or t.orelse or t.finalbody or len(t.handlers) != 1:
		raise TranslateError('Writer.flush: the try statement is not `self._flush(abs_filepath)` with one except clause')


def interactive_tables() -> dict[str, list[str]]:
	path = os.path.join(REPO, 'rogw/tranp/bin/transpile.py')
	with open(path, encoding='utf-8') as f:
		tree = ast.parse(f.read())
	fn = _find_func(tree, 'Interactive', 'run')
	outer = [s for s in fn.body if isinstance(s, ast.Try)]
	if len(outer) != 1 or not outer[0].finalbody:
		raise TranslateError('Interactive.run: outer try/finally not found')
	loops = [s for s in outer[0].body if isinstance(s, ast.While)]
	if len(loops) != 1 or ast.unparse(loops[0].test) != 'True':
		raise TranslateError('Interactive.run: `while True` not found')
	inner = [s for s in loops[0].body if isinstance(s, ast.Try)]
	if len(inner) != 1 or inner[0].finalbody or inner[0].orelse:
		raise TranslateError('Interactive.run: inner try not found')
	for h in inner[0].handlers:
		if not (len(h.body) == 1 and ast.unparse(h.body[0]) == f'print(ErrorRender({h.name}))'):
			raise TranslateError('Interactive.run: inner handler is not `print(ErrorRender(e))`')
	for h in outer[0].handlers:
		if not (len(h.body) == 1 and isinstance(h.body[0], ast.Pass)):
			raise TranslateError('Interactive.run: outer handler is not `pass`')
	return {
		'interactiveInnerCatch': [_catch_atom(h.type, 'Interactive.run') for h in inner[0].handlers],
		'interactiveOuterCatch': [_catch_atom(h.type, 'Interactive.run') for h in outer[0].handlers],
	}


def render_tables() -> dict[str, bool]:
	"""Shape of ErrorRender.__build_quotation: the two early returns of the pinned tree, optionally followed by the
	"node without a position" guard (proposed/C16-spanless-quotation.diff)."""
	path = os.path.join(REPO, 'rogw/tranp/view/error_render.py')
	with open(path, encoding='utf-8') as f:
		tree = ast.parse(f.read())
	fn = _find_func(tree, 'ErrorRender', '__build_quotation')
	ifs = [s for s in fn.body if isinstance(s, ast.If)]
	tests = [ast.unparse(i.test) for i in ifs]
	for i in ifs:
		if not (len(i.body) == 1 and ast.unparse(i.body[0]) == 'return []' and not i.orelse):
			raise TranslateError('ErrorRender.__build_quotation: an early return is not `return []`')
	base = ['len(self.e.args) == 0 or not isinstance(self.e.args[0], Node)', 'not os.path.exists(filepath)']
	guard = "node.source_map['begin'][0] < 1 or node.source_map['begin'][1] < 1"
	# proposed/C07-quotation-stale-line.diff: no quotation for a node whose begin line is beyond what the file holds now
	line_guard = 'not self.__has_line(filepath, node)'
	if tests == base:
		out = {'quotationSpanGuard': False, 'quotationLineGuard': False}
	elif tests == [*base, guard]:
		out = {'quotationSpanGuard': True, 'quotationLineGuard': False}
	elif tests == [*base, guard, line_guard]:
		hl = _find_func(tree, 'ErrorRender', '__has_line')
		hb = ' ; '.join(ast.unparse(s) for s in hl.body if not isinstance(s, ast.Expr)).replace('\n', ' ')
		want = "with open(filepath, mode='rb') as f: return node.source_map['begin'][0] <= len(f.readlines())"
		if ' '.join(hb.split()) != want:
			raise TranslateError(f'ErrorRender.__has_line: unrecognised body: {hb}')
		out = {'quotationSpanGuard': True, 'quotationLineGuard': True}
	else:
		raise TranslateError(f'ErrorRender.__build_quotation: unrecognised early returns {tests}')
	# __build_message: pinned = one join over `f'"{arg}"' if isinstance(arg, str) else str(arg)`;
	# proposed/C07-render-unprintable-arg.diff = the same through a helper that falls back to repr(arg) when str(arg) raises
	msg = _find_func(tree, 'ErrorRender', '__build_message')
	body = [s for s in msg.body if not isinstance(s, ast.Expr)]
	text = ' ; '.join(ast.unparse(s) for s in body)
	pinned = "join_args = ', '.join([f'\"{arg}\"' if isinstance(arg, str) else str(arg) for arg in self.e.args]) ; return f'({join_args})'"
	helper = "join_args = ', '.join([self.__arg_to_str(arg) for arg in self.e.args]) ; return f'({join_args})'"
	if text == pinned:
		out['messageStrFallback'] = False
	elif text == helper:
		h = _find_func(tree, 'ErrorRender', '__arg_to_str')
		hb = ' ; '.join(ast.unparse(s) for s in h.body if not isinstance(s, ast.Expr)).replace('\n', ' ')
		want = "if isinstance(arg, str): return f'\"{arg}\"' ; try: return str(arg) except Exception: return repr(arg)"
		if ' '.join(hb.split()) != ' '.join(want.split()):
			raise TranslateError(f'ErrorRender.__arg_to_str: unrecognised body: {hb}')
		out['messageStrFallback'] = True
	else:
		raise TranslateError(f'ErrorRender.__build_message: unrecognised body: {text}')
	return out


# ---------------------------------------------------------------------------------------------
# audit of EVERY except clause


AUDIT_EXCLUDE_DIRS = ('compatible', 'test')
# stand-alone developer tools with their own `__main__`: not on a path from Modules.load / ITranspiler.transpile / Interactive.run / App.run
AUDIT_EXCLUDE_FILES = ('bin/j2_check.py', 'bin/gram_check.py', 'bin/ast_check.py', 'bin/analyze.py')


def _site_ident(rel: str, qual: str) -> str:
	import re
	base = re.sub(r'[^A-Za-z0-9]+', '_', f"{rel[:-3]}__{qual}").strip('_')
	return base


def _qualnames(tree: ast.AST) -> dict[ast.AST, str]:
	"""innermost enclosing function/class chain of every node (`<module>` at top level)"""
	out: dict[ast.AST, str] = {}

	def walk(node: ast.AST, chain: list[str]) -> None:
		for child in ast.iter_child_nodes(node):
			if isinstance(child, (ast.FunctionDef, ast.AsyncFunctionDef, ast.ClassDef)):
				walk(child, [*chain, child.name])
			else:
				out[child] = '.'.join(chain) or '<module>'
				walk(child, chain)

	walk(tree, [])
	return out


def _disposition(h: ast.ExceptHandler, where: str) -> str:
	"""What the clause does with the exception. Unknown bodies are an error (the audit must understand every clause)."""
	body = h.body
	texts = [ast.unparse(x) for x in body]
	if len(body) == 1 and isinstance(body[0], ast.Raise) and body[0].exc is None:
		return '.reraise'
	if len(body) == 1:
		r = _raised_errors_class(body[0])
		if r is not None:
			return f'.wrap .{r[0]}'
	if len(body) == 2 and isinstance(body[0], ast.If) and isinstance(body[1], ast.Raise) and isinstance(body[1].exc, ast.Name) and body[1].exc.id == h.name \
			and len(body[0].body) == 1 and ast.unparse(body[0].body[0].exc if isinstance(body[0].body[0], ast.Raise) and body[0].body[0].exc else ast.Constant(0)) == f'{h.name}.__class__(node)':
		return '.renode'
	if len(body) >= 2 and isinstance(body[-1], ast.Raise) and body[-1].exc is None and all(isinstance(x, ast.Expr) for x in body[:-1]):
		return '.cleanupReraise'   # e.g. `self.unload(module_path)` ; `raise`
	if len(body) == 1 and isinstance(body[0], ast.Raise) and isinstance(body[0].exc, ast.Call) and ast.unparse(body[0].exc.func) == 'raise_error':
		return '.wrapDynamic'      # lang/error.py `raises(...)`: the target class is a parameter
	if texts == [f'print(ErrorRender({h.name}))']:
		return '.print'
	if texts == ['pass']:
		return '.pass'
	if len(body) == 1 and isinstance(body[0], ast.Return):
		return '.value'            # the exception is turned into a result (lookup that may fail)
	if texts == ['time.sleep(0.1)', 'self._flush(abs_filepath)']:
		return '.retry'
	raise TranslateError(f'{where}: except body not understood by the audit: {texts}')


def audit_clauses() -> list[tuple[str, str, list[str], str, int, int]]:
	"""(site identifier, `file:qualname`, caught atoms, disposition, position in its try) for every except clause of rogw/tranp on the audited
	paths, in file/line order. Cross-checked against a tokenize-based count of the `except` keyword (independent of `ast`)."""
	import io
	import tokenize
	root = os.path.join(REPO, 'rogw', 'tranp')
	out: list[tuple[str, str, list[str], str, int, int]] = []
	for dirpath, dirnames, files in os.walk(root):
		dirnames[:] = sorted(d for d in dirnames if d not in AUDIT_EXCLUDE_DIRS and not d.startswith('__'))
		for fn in sorted(files):
			if not fn.endswith('.py'):
				continue
			path = os.path.join(dirpath, fn)
			rel = os.path.relpath(path, root).replace(os.sep, '/')
			if rel in AUDIT_EXCLUDE_FILES:
				continue
			with open(path, encoding='utf-8') as f:
				text = f.read()
			if 'except' not in text:
				continue
			tree = ast.parse(text)
			quals = _qualnames(tree)
			found = 0
			tries = sorted((n for n in ast.walk(tree) if isinstance(n, ast.Try)), key=lambda n: n.lineno)
			per_site: dict[str, int] = {}
			for t in tries:
				qual = quals.get(t, '<module>')
				where = f'{rel}:{qual}'
				try_no = per_site.get(qual, 0)
				per_site[qual] = try_no + 1
				for i, h in enumerate(t.handlers):
					found += 1
					if h.type is None:
						raise TranslateError(f'{where}: bare `except:`')
					types = h.type.elts if isinstance(h.type, ast.Tuple) else [h.type]
					if len(types) == 1 and isinstance(types[0], ast.Name) and types[0].id == 'handle_errors':
						atoms = []  # lang/error.py: the caught classes are a parameter of the decorator
					else:
						atoms = [_catch_atom(x, where) for x in types]
					out.append((_site_ident(rel, qual), where, atoms, _disposition(h, where), try_no, i))
			n_tok = sum(1 for tok in tokenize.generate_tokens(io.StringIO(text).readline) if tok.type == tokenize.NAME and tok.string == 'except')
			if n_tok != found:
				raise TranslateError(f'{rel}: ast sees {found} except clauses, tokenize sees {n_tok}')
	# lang/error.py helpers must stay unused on the audited paths (their caught classes are dynamic)
	for dirpath, dirnames, files in os.walk(root):
		dirnames[:] = [d for d in dirnames if d not in AUDIT_EXCLUDE_DIRS]
		for fn in files:
			if fn.endswith('.py') and os.path.join(dirpath, fn) != os.path.join(root, 'lang', 'error.py'):
				with open(os.path.join(dirpath, fn), encoding='utf-8') as f:
					text = f.read()
				if '@raises(' in text or 'Transaction(' in text:
					raise TranslateError(f'{os.path.relpath(os.path.join(dirpath, fn), root)}: uses lang.error.raises/Transaction (dynamic except clause) — not covered by the audit')
	return out


# ---------------------------------------------------------------------------------------------
# emit


def render(errs: list[tuple[str, str, bool]], bis: list[tuple[str, str | None]], tables: dict[str, list[str]], flags: dict[str, bool], audit: list[tuple[str, str, list[str], str, int, int]], req: dict[str, str]) -> str:
	L: list[str] = []
	L.append('/-')
	L.append('  GENERATED by verif/translate/gen_errors.py — do not edit.')
	L.append('  Sources: rogw/tranp/errors.py, CPython builtins, and the except clauses of')
	L.append('  semantics/procedure.py (Procedure.__emit/__make_event/__exec_impl), implements/syntax/lark/parser.py')
	L.append('  (SyntaxParserOfLark.__load_entry), bin/transpile.py (Interactive.run), module/modules.py (Modules.load); early returns of view/error_render.py (__build_quotation).')
	L.append('-/')
	L.append('namespace Tranp.Generated.ErrorsTable')
	L.append('')
	L.append('/-- members of the `Errors` namespace (rogw/tranp/errors.py), definition order -/')
	L.append('inductive ErrName')
	for c, _, _ in errs:
		L.append(f'  | {c}')
	L.append('  deriving DecidableEq, Repr')
	L.append('')
	L.append('/-- CPython builtin exception classes (single inheritance; ExceptionGroup is left out) -/')
	L.append('inductive Builtin')
	for k, _ in bis:
		L.append(f'  | {k}')
	L.append('  deriving DecidableEq, Repr')
	L.append('')
	L.append('/-- a named exception class: a member of `Errors` or a builtin -/')
	L.append('inductive Atom')
	L.append('  | err (n : ErrName)')
	L.append('  | bi (b : Builtin)')
	L.append('  deriving DecidableEq, Repr')
	L.append('')
	L.append('def ErrName.all : List ErrName := [' + ', '.join(f'.{c}' for c, _, _ in errs) + ']')
	L.append('def Builtin.all : List Builtin := [' + ', '.join(f'.{k}' for k, _ in bis) + ']')
	L.append('')
	L.append('def ErrName.toString : ErrName → String')
	for c, _, _ in errs:
		L.append(f'  | .{c} => "{c}"')
	L.append('')
	L.append('def Builtin.toString : Builtin → String')
	for k, _ in bis:
		L.append(f'  | .{k} => "{k}"')
	L.append('')
	L.append('/-- direct base class -/')
	L.append('def ErrName.parent : ErrName → Atom')
	for c, b, _ in errs:
		L.append(f'  | .{c} => ' + (f'.bi .{b[9:]}' if b.startswith('builtins.') else f'.err .{b}'))
	L.append('')
	L.append('/-- direct base class (`none`: the base is `object`) -/')
	L.append('def Builtin.parent? : Builtin → Option Builtin')
	for k, b in bis:
		L.append(f'  | .{k} => ' + ('none' if b is None else f'some .{b}'))
	L.append('')
	L.append('/-- the class defines its own `__init__`/`__new__` (then `cls(node)` in Procedure.__emit may not be a valid call) -/')
	L.append('def ErrName.definesCtor : ErrName → Bool')
	if any(c for _, _, c in errs):
		for c, _, custom in errs:
			L.append(f'  | .{c} => {"true" if custom else "false"}')
	else:
		L.append('  | _ => false')
	L.append('')
	L.append('/-- what `e.args[0]` is -/')
	L.append('inductive Arg0')
	L.append('  | none   -- no arguments')
	L.append('  | node   -- a Node')
	L.append('  | other  -- anything else')
	L.append('  deriving DecidableEq, Repr')
	L.append('')
	L.append('/-- body of an `except` clause -/')
	L.append('inductive Action')
	L.append('  | wrap (n : ErrName) (arg0 : Arg0)  -- `raise Errors.<n>(<arg0>, ...) from e`')
	L.append('  | renode                            -- `if len(e.args) > 0 and not isinstance(e.args[0], Node): raise e.__class__(node) from e` ; `raise e`')
	L.append('  | reraise                           -- bare `raise`')
	L.append('  deriving DecidableEq, Repr')
	L.append('')
	L.append('structure Handler where')
	L.append('  catches : Atom')
	L.append('  action : Action')
	L.append('  deriving DecidableEq, Repr')
	L.append('')
	for name in ['emitHandlers', 'makeEventHandlers', 'execImplHandlers', 'parserDiskHandlers', 'parserMemHandlers', 'modulesLoadHandlers']:
		L.append(f'def {name} : List Handler := [' + ', '.join(tables[name]) + ']')
	for name in ['interactiveInnerCatch', 'interactiveOuterCatch', 'modulesLoadRollbackCatch', 'mainCatch']:
		L.append(f'def {name} : List Atom := [' + ', '.join(tables[name]) + ']')
	L.append('')
	L.append('/-! ### the request boundary of the interactive mode (bin/io.py `tty`, the `if …: break` of Interactive.run) -/')
	L.append('')
	L.append('/-- boolean expressions over the request `lines` (a list of lines) as they occur in the quit test of Interactive.run -/')
	L.append('inductive ReqTest')
	L.append('  | lenEq (n : Nat)                       -- len(lines) == n')
	L.append('  | itemEq (i : Int) (s : List Char)      -- lines[i] == s     (raises IndexError outside the list)')
	L.append('  | nonEmpty                              -- lines             (truth value of a list)')
	L.append('  | not (a : ReqTest)')
	L.append('  | and (a b : ReqTest)                   -- short-circuit, left to right')
	L.append('  | or (a b : ReqTest)')
	L.append('  deriving Repr')
	L.append('')
	L.append('/-- bin/transpile.py Interactive.run: `if <test>: break` right after `lines = tty(prompt)` -/')
	L.append(f"def interactiveQuitTest : ReqTest := {req['interactiveQuitTest']}")
	L.append('/-- bin/io.py tty: `elif line == <ttyQuitLine>: return <ttyQuitResult>` -/')
	L.append(f"def ttyQuitLine : List Char := {req['ttyQuitLine']}")
	L.append(f"def ttyQuitResult : List (List Char) := {req['ttyQuitResult']}")
	L.append('')
	L.append('/-! ### audit: every `except` clause of rogw/tranp (without compatible/, test/ and the stand-alone tools bin/*_check.py, bin/analyze.py) -/')
	L.append('')
	sites: list[str] = []
	for ident, _, _, _, _, _ in audit:
		if ident not in sites:
			sites.append(ident)
	L.append('/-- the functions that contain a try statement (`file__qualname`) -/')
	L.append('inductive Site')
	for sname in sites:
		L.append(f'  | {sname}')
	L.append('  deriving DecidableEq, Repr')
	L.append('')
	L.append('/-- what an except clause does with the exception it caught -/')
	L.append('inductive Disposition')
	L.append('  | wrap (n : ErrName)   -- raise Errors.<n>(...)')
	L.append('  | renode               -- Procedure.__emit: rebuild with the node / re-raise the same object')
	L.append('  | reraise              -- bare `raise`')
	L.append('  | cleanupReraise       -- clean-up calls, then bare `raise`')
	L.append('  | wrapDynamic          -- lang/error.py raises(): `raise raise_error(e) from e` (target class is a parameter)')
	L.append('  | print                -- print(ErrorRender(e))')
	L.append('  | pass                 -- swallowed')
	L.append('  | value                -- turned into a return value')
	L.append('  | retry                -- the guarded call is repeated once')
	L.append('  deriving DecidableEq, Repr')
	L.append('')
	L.append('structure Clause where')
	L.append('  site : Site')
	L.append('  tryNo : Nat             -- which try statement of the function (source order)')
	L.append('  index : Nat             -- position among the clauses of its try statement')
	L.append('  catches : List Atom     -- [] = the caught classes are a parameter (lang/error.py)')
	L.append('  disp : Disposition')
	L.append('  deriving DecidableEq, Repr')
	L.append('')
	L.append('def exceptAudit : List Clause := [')
	for k, (ident, where, atoms, disp, try_no, idx) in enumerate(audit):
		L.append(f"  ⟨.{ident}, {try_no}, {idx}, [{', '.join(atoms)}], {disp}⟩{',' if k + 1 < len(audit) else ''}  -- {where}")
	L.append(']')
	L.append('')
	L.append('/-- Modules.load looks the module up again after the library modules were loaded -/')
	L.append(f"def modulesLoadRechecks : Bool := {'true' if tables['modulesLoadRechecks'] else 'false'}")
	L.append('')
	L.append('/-- Modules.unload also unloads the registered modules that depend on the unloaded one (after removing it) -/')
	L.append(f"def modulesUnloadCascades : Bool := {'true' if flags['modulesUnloadCascades'] else 'false'}")
	L.append('')
	L.append('/-- SyntaxParserOfLark.__load_source appends a line feed to a text that does not end in one (both branches) -/')
	L.append(f"def sourceCompletesNewline : Bool := {'true' if flags['sourceCompletesNewline'] else 'false'}")
	L.append('')
	L.append('/-- … except to the empty text (there is no last line to complete) -/')
	L.append(f"def sourceCompletionSkipsEmpty : Bool := {'true' if flags['sourceCompletionSkipsEmpty'] else 'false'}")
	L.append('')
	L.append('/-- ErrorRender.__build_quotation returns [] for a node without a position (begin line or column < 1) -/')
	L.append(f"def quotationSpanGuard : Bool := {'true' if flags['quotationSpanGuard'] else 'false'}")
	L.append('/-- ErrorRender.__build_quotation returns [] for a node whose begin line is beyond the lines the file holds now -/')
	L.append(f"def quotationLineGuard : Bool := {'true' if flags['quotationLineGuard'] else 'false'}")
	L.append('')
	L.append('/-- ErrorRender.__build_message shows `repr(arg)` when `str(arg)` raises -/')
	L.append(f"def messageStrFallback : Bool := {'true' if flags['messageStrFallback'] else 'false'}")
	L.append('')
	L.append('end Tranp.Generated.ErrorsTable')
	return '\n'.join(L) + '\n'


# ---------------------------------------------------------------------------------------------
# the request boundary of the interactive mode: bin/io.py `tty` and the `if …: break` test of Interactive.run


def _lean_chars(text: str) -> str:
	def one(c: str) -> str:
		if c in ("'", '\\'):
			return "'\\" + c + "'"
		if c == '\n':
			return "'\\n'"
		if c == '\t':
			return "'\\t'"
		if not (32 <= ord(c) < 127):
			return f'(Char.ofNat {ord(c)})'
		return f"'{c}'"
	return '[' + ', '.join(one(c) for c in text) + ']'


def _req_test(e: ast.expr, var: str) -> str:
	"""a boolean expression over the request list `var` → a `ReqTest` term (anything outside the small language is a broken tie)"""
	if isinstance(e, ast.BoolOp) and isinstance(e.op, (ast.And, ast.Or)):
		ctor = 'and' if isinstance(e.op, ast.And) else 'or'
		terms = [_req_test(v, var) for v in e.values]
		out = terms[-1]
		for t in reversed(terms[:-1]):
			out = f'.{ctor} ({t}) ({out})'
		return out
	if isinstance(e, ast.UnaryOp) and isinstance(e.op, ast.Not):
		return f'.not ({_req_test(e.operand, var)})'
	if isinstance(e, ast.Name) and e.id == var:
		return '.nonEmpty'
	if isinstance(e, ast.Compare) and len(e.ops) == 1 and isinstance(e.ops[0], (ast.Eq, ast.NotEq)) and isinstance(e.comparators[0], ast.Constant):
		left, k = e.left, e.comparators[0].value
		term = None
		if isinstance(left, ast.Call) and ast.unparse(left) == f'len({var})' and type(k) is int and k >= 0:
			term = f'.lenEq {k}'
		elif isinstance(left, ast.Subscript) and isinstance(left.value, ast.Name) and left.value.id == var and type(k) is str:
			idx = left.slice
			if isinstance(idx, ast.UnaryOp) and isinstance(idx.op, ast.USub) and isinstance(idx.operand, ast.Constant) and type(idx.operand.value) is int:
				term = f'.itemEq ({-idx.operand.value}) {_lean_chars(k)}'
			elif isinstance(idx, ast.Constant) and type(idx.value) is int:
				term = f'.itemEq {idx.value} {_lean_chars(k)}'
		if term is not None:
			return term if isinstance(e.ops[0], ast.Eq) else f'.not ({term})'
	raise TranslateError(f'Interactive.run: the quit test contains `{ast.unparse(e)}`, which is outside the modelled request-test language')


def request_tables() -> dict[str, str]:
	"""`lines = tty(prompt)` / `if <test>: break` at the head of the loop body of Interactive.run, and the body of bin/io.py `tty`."""
	with open(os.path.join(REPO, 'rogw/tranp/bin/transpile.py'), encoding='utf-8') as f:
		tree = ast.parse(f.read())
	imp = [ast.unparse(x) for x in tree.body if isinstance(x, ast.ImportFrom) and any(a.name == 'tty' or a.asname == 'tty' for a in x.names)]
	if imp != ['from rogw.tranp.bin.io import tty']:
		raise TranslateError(f'bin/transpile.py: `tty` is not imported from rogw.tranp.bin.io: {imp}')
	fn = _find_func(tree, 'Interactive', 'run')
	loop = [s for t in fn.body if isinstance(t, ast.Try) for s in t.body if isinstance(s, ast.While)]
	if len(loop) != 1:
		raise TranslateError('Interactive.run: `while True` not found')
	head = []
	for st in loop[0].body:
		if isinstance(st, ast.Try):
			break
		head.append(st)
	rest = loop[0].body[len(head):]
	if len(rest) != 1 or loop[0].orelse:
		raise TranslateError('Interactive.run: statements after the inner try (or a while/else)')
	if len(head) != 3 or not (isinstance(head[0], ast.Assign) and ast.unparse(head[0].targets[0]) == 'prompt' and all(isinstance(n, (ast.Constant, ast.List, ast.Attribute, ast.Call, ast.Load, ast.Name)) for n in ast.walk(head[0].value)) and ast.unparse(head[0].value).startswith("'\\n'.join([")) \
			or ast.unparse(head[1]) != 'lines = tty(prompt)' or not (isinstance(head[2], ast.If) and not head[2].orelse and len(head[2].body) == 1 and isinstance(head[2].body[0], ast.Break)):
		raise TranslateError(f'Interactive.run: unrecognised head of the loop body {[ast.unparse(x) for x in head]}')
	test = _req_test(head[2].test, 'lines')
	with open(os.path.join(REPO, 'rogw/tranp/bin/io.py'), encoding='utf-8') as f:
		io_tree = ast.parse(f.read())
	tty = [x for x in io_tree.body if isinstance(x, ast.FunctionDef) and x.name == 'tty']
	if len(tty) != 1:
		raise TranslateError('bin/io.py: def tty not found')
	body = [x for x in tty[0].body if not (isinstance(x, ast.Expr) and isinstance(x.value, ast.Constant))]
	shape = [ast.unparse(x) for x in body]
	if len(body) != 4 or shape[0] != 'if prompt:\n    print(prompt)' or shape[1] != 'lines: list[str] = []' or shape[3] != 'return lines' or not isinstance(body[2], ast.While) or ast.unparse(body[2].test) != 'True' or body[2].orelse:
		raise TranslateError(f'bin/io.py tty: unrecognised body {shape}')
	w = body[2].body
	if len(w) != 3 or ast.unparse(w[0]) != 'line = readline()' or ast.unparse(w[2]) != 'lines.append(line)' or not isinstance(w[1], ast.If):
		raise TranslateError(f'bin/io.py tty: unrecognised loop body {[ast.unparse(x) for x in w]}')
	br = w[1]
	if ast.unparse(br.test) != 'not line' or len(br.body) != 1 or not isinstance(br.body[0], ast.Break) or len(br.orelse) != 1 or not isinstance(br.orelse[0], ast.If):
		raise TranslateError(f'bin/io.py tty: unrecognised end-of-request test `{ast.unparse(br)}`')
	ex = br.orelse[0]
	t = ex.test
	if ex.orelse or not (isinstance(t, ast.Compare) and ast.unparse(t.left) == 'line' and len(t.ops) == 1 and isinstance(t.ops[0], ast.Eq) and isinstance(t.comparators[0], ast.Constant) and type(t.comparators[0].value) is str):
		raise TranslateError(f'bin/io.py tty: unrecognised quit test `{ast.unparse(ex.test)}`')
	if len(ex.body) != 1 or not isinstance(ex.body[0], ast.Return) or not isinstance(ex.body[0].value, ast.List) or not all(isinstance(v, ast.Constant) and type(v.value) is str for v in ex.body[0].value.elts):
		raise TranslateError(f'bin/io.py tty: unrecognised quit branch `{ast.unparse(ex.body[0])}`')
	rl = [x for x in io_tree.body if isinstance(x, ast.FunctionDef) and x.name == 'readline']
	rv = rl[0].body[-1].value if len(rl) == 1 and isinstance(rl[0].body[-1], ast.Return) else None
	# the request model relies on the strip only (a blank or whitespace-only line ends a request); how the bytes are decoded is readline's business
	if not (isinstance(rv, ast.Call) and not rv.args and not rv.keywords and isinstance(rv.func, ast.Attribute) and rv.func.attr == 'rstrip'
			and isinstance(rv.func.value, ast.Call) and ast.unparse(rv.func.value.func) == 'res.stdout.decode'):
		raise TranslateError('bin/io.py readline: the result is not `res.stdout.decode(...).rstrip()`')
	return {
		'interactiveQuitTest': test,
		'ttyQuitLine': _lean_chars(t.comparators[0].value),
		'ttyQuitResult': '[' + ', '.join(_lean_chars(v.value) for v in ex.body[0].value.elts) + ']',
	}


def generate() -> list[dict[str, Any]]:
	errs = errors_hierarchy()
	bis = builtin_hierarchy()
	ptables, pflags = parser_tables()
	tables = {**procedure_tables(), **ptables, **interactive_tables(), **modules_tables(), **transpile_stage_tables()}
	for need in ('Exception', 'BaseException', 'TypeError', 'AssertionError', 'KeyboardInterrupt'):
		if need not in [k for k, _ in bis]:
			raise TranslateError(f'builtin {need} missing')
	flags = {**render_tables(), **pflags, 'modulesUnloadCascades': unload_shape()}
	audit = audit_clauses()
	writer_shape()
	req = request_tables()
	changed = write_if_changed(OUT, render(errs, bis, tables, flags, audit, req))
	return [{
		'file': os.path.relpath(OUT, os.path.dirname(GENERATED_DIR)),
		'source': 'rogw/tranp/errors.py + except clauses of procedure.py / parser.py / bin/transpile.py + CPython builtins',
		'entries': len(errs) + len(bis) + sum(len(v) for k, v in tables.items() if k != 'modulesLoadRechecks'),
		'errors_classes': len(errs),
		'builtin_classes': len(bis),
		'handlers': {k: len(v) for k, v in tables.items() if k != 'modulesLoadRechecks'},
		'mem_branch_wrapped': bool(tables['parserMemHandlers']),
		'audited_except_clauses': len(audit),
		'modules_load_normalised': bool(tables['modulesLoadHandlers']),
		'modules_unload_cascades': flags['modulesUnloadCascades'],
		'source_completes_newline': flags['sourceCompletesNewline'],
		'source_completion_skips_empty': flags['sourceCompletionSkipsEmpty'],
		'quotation_span_guard': flags['quotationSpanGuard'],
		'quotation_line_guard': flags['quotationLineGuard'],
		'message_str_fallback': flags['messageStrFallback'],
		'interactive_quit_test': req['interactiveQuitTest'],
		'changed': changed,
	}]
