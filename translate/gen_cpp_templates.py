"""Translator for C01: operator templates + expression ladder -> lean/Tranp/Generated/CppTemplates.lean.

Inputs (read from the working tree of /repo, cwd = /repo):
  data/cpp/template/operation/{binary_operator,unary_operator,binary_in,ternary_operator}.j2, data/cpp/template/expression/group.j2
  data/i18n.yml            (the `i18n('mod', 'local')` atoms of the templates are resolved exactly like view/helper/helper.py:45-47)
  data/grammar.lark        (the expression ladder or_test .. factor and its operator terminals)
  rogw/tranp/implements/cpp/transpiler/py2cpp.py   (class CppOperatorPrecedences: the emitter's C++ precedence table, read with `ast`)

The generator understands exactly the skeleton these files have today:
  {%- if C -%} line {%- elif C -%} line ... [{%- else -%} line] {%- endif -%}      or a single line without control tags,
  lines made of literal C++ text and `{{ name }}` / `{{ i18n('a', 'b') }}` atoms,
  conditions built from  name == 'str' | name in ['a', 'b'] | name | not | and | or | ( )
and fails loudly (exception -> the check reports the tie as broken) on anything else.

Statement templates (the statements core of Model/EmitStmt: emitLines is an interpreter of these lines):
  assign/move_assign.j2, assign/aug_assign.j2, assign/move_assign_declare.j2 (the plain branch: neither `is_initializer` nor `is_static`),
  statement/return.j2 (the branch with a return value), flow/if/{if,else_if,else}.j2 (not the `std::is_same_v` / constexpr forms),
  flow/while.j2, flow/for/range.j2, statement/break.j2, statement/continue.j2.
For each file the translator checks the WHOLE file against the skeleton it has today (the statements block
`{%- filter indent('\t') %}{%- for statement in statements %}{{ statement }}{%- endfor %}{%- endfilter %}`, where the else-ifs and the
else clause are spliced, the closing line) and extracts the head / tail lines as pieces; any other shape raises.
"""
from __future__ import annotations

import os
import re
from typing import Any

import yaml

TEMPLATES = {
	'binaryOperator': 'data/cpp/template/operation/binary_operator.j2',
	'unaryOperator': 'data/cpp/template/operation/unary_operator.j2',
	'binaryIn': 'data/cpp/template/operation/binary_in.j2',
	'ternaryOperator': 'data/cpp/template/operation/ternary_operator.j2',
	'group': 'data/cpp/template/expression/group.j2',
}

CPP_TOKEN_RE = re.compile(r'''
	(?P<sp>[ ]+)
	|(?P<id>[A-Za-z_][A-Za-z_0-9]*(?:::[A-Za-z_][A-Za-z_0-9]*)*)
	|(?P<num>0[xX][0-9a-fA-F]+|[0-9]+\.[0-9]*(?:[eE][+-]?[0-9]+)?|[0-9]+)
	|(?P<str>"(?:[^"\\]|\\.)*")
	|(?P<op><<=|>>=|<=>|->|\+\+|--|<<|>>|<=|>=|==|!=|&&|\|\||\+=|-=|\*=|/=|%=|&=|\|=|\^=|::|[-+*/%&|^~!<>=?:.,;()\[\]{}])
''', re.X)


def cpp_tokens(text: str, keep_space: bool = False) -> list[str]:
	"""C++ maximal-munch tokens of the operator core (shared with harness/c01.py for the real `return` text)."""
	out: list[str] = []
	pos = 0
	while pos < len(text):
		m = CPP_TOKEN_RE.match(text, pos)
		if not m:
			raise ValueError(f'cannot tokenise C++ text at {pos}: {text[pos:pos + 20]!r}')
		pos = m.end()
		if m.lastgroup == 'sp':
			if keep_space:
				out.extend(' ' * len(m.group(0)))   # one blank piece per blank: the model reproduces the text exactly
			continue
		out.append(m.group(0))
	return out


# ---------------------------------------------------------------------------------------------
# i18n


class I18n:
	def __init__(self, path: str = 'data/i18n.yml') -> None:
		with open(path, encoding='utf-8') as f:
			self.to: dict[str, str] = yaml.safe_load(f)

	def t(self, key: str) -> str:
		if key not in self.to:
			raise ValueError(f'i18n key missing in data/i18n.yml: {key}')
		return self.to[key]

	def i18n(self, module_path: str, local: str) -> str:
		# helper.py:45-47: translator(ModuleDSN.full_joined(translator(alias_dsn(module_path)), local)); alias_dsn = 'aliases.' + name
		return self.t(f"{self.t('aliases.' + module_path)}#{local}")


# ---------------------------------------------------------------------------------------------
# template skeleton


TAG_RE = re.compile(r'\{%-\s*(if|elif|else|endif)\b(.*?)-%\}')
ATOM_RE = re.compile(r'\{\{\s*(.*?)\s*\}\}')
I18N_RE = re.compile(r"i18n\(\s*'([^']*)'\s*,\s*'([^']*)'\s*\)$")
NAME_RE = re.compile(r'[A-Za-z_][A-Za-z_0-9]*$')


def parse_line(line: str, i18n: I18n, where: str) -> list[tuple[str, str]]:
	"""-> pieces ('var', name) | ('tok', text) | ('sp', '')"""
	if '{%' in line or '{#' in line:
		raise ValueError(f'{where}: unexpected tag inside a content line: {line!r}')
	pieces: list[tuple[str, str]] = []
	pos = 0

	def lit(text: str) -> None:
		for tok in cpp_tokens(text, keep_space=True):
			pieces.append(('sp', '') if tok == ' ' else ('tok', tok))

	for m in ATOM_RE.finditer(line):
		lit(line[pos:m.start()])
		pos = m.end()
		expr = m.group(1)
		mi = I18N_RE.match(expr)
		if mi:
			pieces.append(('tok', i18n.i18n(mi.group(1), mi.group(2))))
		elif NAME_RE.match(expr):
			pieces.append(('var', expr))
		else:
			raise ValueError(f'{where}: unsupported template expression {{{{ {expr} }}}}')
	lit(line[pos:])
	return pieces


COND_TOKEN_RE = re.compile(r"\s*(?:(?P<str>'[^']*')|(?P<name>[A-Za-z_][A-Za-z_0-9]*)|(?P<op>==|\[|\]|,|\(|\)))")


def parse_cond(text: str, where: str) -> Any:
	toks: list[tuple[str, str]] = []
	pos = 0
	text = text.strip()
	while pos < len(text):
		m = COND_TOKEN_RE.match(text, pos)
		if not m:
			raise ValueError(f'{where}: unsupported condition syntax at {text[pos:]!r}')
		pos = m.end()
		kind = m.lastgroup or ''
		toks.append((kind, m.group(kind)))
	i = [0]

	def peek() -> tuple[str, str]:
		return toks[i[0]] if i[0] < len(toks) else ('eof', '')

	def take(kind: str | None = None, val: str | None = None) -> tuple[str, str]:
		t = peek()
		if (kind and t[0] != kind) or (val and t[1] != val):
			raise ValueError(f'{where}: condition {text!r}: expected {val or kind}, found {t}')
		i[0] += 1
		return t

	def p_or() -> Any:
		l = p_and()
		while peek() == ('name', 'or'):
			take()
			l = ('or', l, p_and())
		return l

	def p_and() -> Any:
		l = p_not()
		while peek() == ('name', 'and'):
			take()
			l = ('and', l, p_not())
		return l

	def p_not() -> Any:
		if peek() == ('name', 'not'):
			take()
			return ('not', p_not())
		return p_atom()

	def p_atom() -> Any:
		if peek() == ('op', '('):
			take()
			e = p_or()
			take('op', ')')
			return e
		_, name = take('name')
		if name in ('and', 'or', 'not', 'in', 'is'):
			raise ValueError(f'{where}: condition {text!r}: keyword {name} in atom position')
		if peek() == ('op', '=='):
			take()
			_, s = take('str')
			return ('eq', name, s[1:-1])
		if peek() == ('name', 'in'):
			take()
			take('op', '[')
			vals = []
			while peek()[0] == 'str':
				vals.append(take('str')[1][1:-1])
				if peek() == ('op', ','):
					take()
			take('op', ']')
			return ('inList', name, vals)
		return ('flag', name)

	e = p_or()
	if peek()[0] != 'eof':
		raise ValueError(f'{where}: condition {text!r}: trailing tokens {toks[i[0]:]}')
	return e


def parse_template(path: str, i18n: I18n) -> list[tuple[Any, list[tuple[str, str]]]]:
	"""-> branches [(cond | None, pieces)] in file order; a file without control tags is one unconditional branch."""
	with open(path, encoding='utf-8') as f:
		text = f.read()
	if text.endswith('\n'):
		text = text[:-1]   # jinja2 drops one trailing newline (keep_trailing_newline=False)
	lines = text.split('\n')
	if not any('{%' in line for line in lines):
		if len(lines) != 1:
			raise ValueError(f'{path}: expected a single content line')
		return [(None, parse_line(lines[0], i18n, path))]
	branches: list[tuple[Any, list[tuple[str, str]]]] = []
	state = 'start'
	cur_cond: Any = None
	for n, line in enumerate(lines):
		where = f'{path}:{n + 1}'
		m = TAG_RE.fullmatch(line.strip())
		if m:
			kw, rest = m.group(1), m.group(2).strip()
			if kw == 'if':
				if state != 'start':
					raise ValueError(f'{where}: nested/second if')
				cur_cond, state = parse_cond(rest, where), 'want-body'
			elif kw == 'elif':
				if state != 'after-body':
					raise ValueError(f'{where}: elif out of place')
				cur_cond, state = parse_cond(rest, where), 'want-body'
			elif kw == 'else':
				if state != 'after-body' or rest:
					raise ValueError(f'{where}: else out of place')
				cur_cond, state = None, 'want-else-body'
			else:
				if state != 'after-body' or rest:
					raise ValueError(f'{where}: endif out of place')
				state = 'end'
		else:
			if state not in ('want-body', 'want-else-body'):
				raise ValueError(f'{where}: content line out of place ({state}): {line!r}')
			branches.append((cur_cond, parse_line(line, i18n, where)))
			state = 'after-body'
	if state != 'end':
		raise ValueError(f'{path}: template does not end with endif')
	return branches


# ---------------------------------------------------------------------------------------------
# statement templates

STMT_DIR = 'data/cpp/template'
BODY_BLOCK = ["{%- filter indent('\\t') %}", '{%- for statement in statements %}', '{{ statement }}', '{%- endfor %}', '{%- endfilter %}']
STMT_SOURCES = ['assign/move_assign.j2', 'assign/aug_assign.j2', 'assign/move_assign_declare.j2', 'statement/return.j2', 'flow/if/if.j2', 'flow/if/else_if.j2', 'flow/if/else.j2',
	'flow/while.j2', 'flow/for/range.j2', 'statement/break.j2', 'statement/continue.j2']


def _lines(rel: str) -> list[str]:
	with open(os.path.join(STMT_DIR, rel), encoding='utf-8') as f:
		text = f.read()
	if text.endswith('\n'):
		text = text[:-1]
	return text.split('\n')


def _expect(rel: str, got: list[str], want: list[str]) -> None:
	"""tag lines are compared without their indentation (jinja2 `{%-` strips it); content lines exactly"""
	norm = [ln.lstrip('\t ') if ln.lstrip('\t ').startswith('{%') else ln for ln in got]
	if norm != want:
		raise ValueError(f'{STMT_DIR}/{rel}: unexpected template skeleton:\n  got  {norm}\n  want {want}')


def parse_statement_templates(i18n: I18n) -> dict[str, Any]:
	"""-> {'lines': {name: pieces}, 'tails': {name: closing line}}"""
	lines: dict[str, list[tuple[str, str]]] = {}
	tails: dict[str, str] = {}

	def head(rel: str, text: str) -> list[tuple[str, str]]:
		return parse_line(text, i18n, f'{STMT_DIR}/{rel}')

	# assign/move_assign.j2: one line
	got = _lines('assign/move_assign.j2')
	if len(got) != 1:
		raise ValueError('assign/move_assign.j2: expected a single content line')
	lines['stmtAssign'] = head('assign/move_assign.j2', got[0])
	got = _lines('assign/aug_assign.j2')
	if len(got) != 1:
		raise ValueError('assign/aug_assign.j2: expected a single content line')
	lines['stmtAug'] = head('assign/aug_assign.j2', got[0])
	# assign/move_assign_declare.j2: if is_initializer / elif is_static / else <plain> / endif
	got = _lines('assign/move_assign_declare.j2')
	if len(got) != 7 or [got[0], got[2], got[4], got[6]] != ['{%- if is_initializer -%}', '{%- elif is_static -%}', '{%- else -%}', '{%- endif -%}']:
		raise ValueError(f'assign/move_assign_declare.j2: unexpected branch structure {got}')
	lines['stmtDeclare'] = head('assign/move_assign_declare.j2', got[5])
	# statement/break.j2, statement/continue.j2: one content line without variables
	for name, rel in (('stmtBreak', 'statement/break.j2'), ('stmtContinue', 'statement/continue.j2')):
		got = _lines(rel)
		if len(got) != 1 or '{' in got[0]:
			raise ValueError(f'{rel}: expected a single content line without tags')
		lines[name] = head(rel, got[0])
	# statement/return.j2: if return_self / return *this; / else / return{% if return_value %} {{ return_value }}{% endif %}; / endif
	got = _lines('statement/return.j2')
	if len(got) != 5 or [got[0], got[2], got[4]] != ['{%- if return_self -%}', '{%- else -%}', '{%- endif -%}']:
		raise ValueError(f'statement/return.j2: unexpected branch structure {got}')
	m = re.fullmatch(r'(.*)\{% if return_value %\}(.*)\{% endif %\}(.*)', got[3])
	if not m:
		raise ValueError(f'statement/return.j2: unexpected return line {got[3]!r}')
	lines['stmtReturn'] = head('statement/return.j2', m.group(1) + m.group(2) + m.group(3))
	# flow/while.j2, flow/for/range.j2: head, statements block, closing line
	for name, rel in (('stmtWhile', 'flow/while.j2'), ('stmtForRange', 'flow/for/range.j2')):
		got = _lines(rel)
		if len(got) != 7:
			raise ValueError(f'{rel}: expected head + statements block + closing line')
		_expect(rel, got[1:6], BODY_BLOCK)
		lines[name + 'Head'] = head(rel, got[0])
		tails[name + 'Tail'] = got[6]
	# flow/if/else.j2: head + statements block
	got = _lines('flow/if/else.j2')
	_expect('flow/if/else.j2', got[1:], BODY_BLOCK)
	lines['stmtElseHead'] = head('flow/if/else.j2', got[0])
	# flow/if/else_if.j2: `set is_type_expr`, head with the inline constexpr switch (off for a condition that is no type expression), block
	got = _lines('flow/if/else_if.j2')
	if got[0] != "{%- set is_type_expr = condition.startswith('std::is_same_v') -%}":
		raise ValueError(f'flow/if/else_if.j2: unexpected first line {got[0]!r}')
	m = re.fullmatch(r'(.*)\{% if is_type_expr %\}constexpr \{% endif %\}(.*)', got[1])
	if not m:
		raise ValueError(f'flow/if/else_if.j2: unexpected head {got[1]!r}')
	_expect('flow/if/else_if.j2', got[2:], BODY_BLOCK)
	lines['stmtElifHead'] = head('flow/if/else_if.j2', m.group(1) + m.group(2))
	# flow/if/if.j2: the `std::is_same_v` form first, the ordinary form in the else branch
	got = _lines('flow/if/if.j2')
	if got[0] != "{%- if condition.startswith('std::is_same_v') -%}" or got[-1].strip() != '{%- endif -%}':
		raise ValueError('flow/if/if.j2: unexpected outer structure')
	try:
		at = [ln.strip() for ln in got].index('{%- else -%}')
	except ValueError:
		raise ValueError('flow/if/if.j2: no else branch') from None
	rest = got[at + 1:-1]
	_expect('flow/if/if.j2', rest[1:-1], [*BODY_BLOCK, '{%- for else_if in else_ifs %}', '{{ else_if }}', '{%- endfor %}', '{%- if else_clause %}', '{{ else_clause }}', '{%- endif %}'])
	lines['stmtIfHead'] = head('flow/if/if.j2', rest[0])
	tails['stmtIfTail'] = rest[-1]
	return {'lines': lines, 'tails': tails}


# ---------------------------------------------------------------------------------------------
# grammar ladder


def parse_ladder(path: str = 'data/grammar.lark') -> tuple[list[dict[str, Any]], list[str]]:
	"""-> (levels loosest first: {'tag','kind': 'chain'|'prefix','sub','ops'}, operand rule of the tightest level)"""
	rules: dict[str, str] = {}
	with open(path, encoding='utf-8') as f:
		src = f.read()
	# join continuation lines (`\t| ...`)
	cur = None
	for raw in src.split('\n'):
		line = raw.split('//')[0].rstrip()
		if not line.strip():
			continue
		m = re.match(r'([?!]*)([a-z_][a-z_0-9]*)(\{[^}]*\})?\s*:\s*(.*)$', line)
		if m and not raw.startswith(('\t', ' ')):
			cur = m.group(2)
			rules[cur] = m.group(4).strip()
		elif cur is not None and raw.startswith(('\t', ' ')) and line.strip().startswith('|'):
			rules[cur] += ' ' + line.strip()

	def op_tokens(rule: str) -> list[str]:
		toks = re.findall(r'"[^"]*"|->|\||[A-Za-z_][A-Za-z_0-9]*', rules[rule])
		if ''.join(toks) != re.sub(r'\s+', '', rules[rule]):
			raise ValueError(f'grammar.lark: operator rule {rule}: unsupported syntax {rules[rule]!r}')
		out: list[str] = []
		cur: list[str] = []
		alias = False
		for t in [*toks, '|']:
			if t == '|':
				if not cur:
					raise ValueError(f'grammar.lark: operator rule {rule}: empty alternative')
				out.append('.'.join(cur))
				cur, alias = [], False
			elif t == '->':
				alias = True
			elif t.startswith('"') and not alias:
				cur.append(t[1:-1])
			elif alias and not t.startswith('"'):
				pass   # alias name of the alternative (comp_in, comp_is_not, …): the node keeps the joined terminal tokens
			else:
				raise ValueError(f'grammar.lark: operator rule {rule}: unsupported token {t!r}')
		return out

	levels: list[dict[str, Any]] = []
	name = 'or_test'
	guard = 0
	while True:
		guard += 1
		if guard > 40 or name not in rules:
			raise ValueError(f'grammar.lark: ladder walk lost at {name}')
		body = rules[name]
		m = re.fullmatch(r'([a-z_0-9]+) \(([a-z_0-9]+) ([a-z_0-9]+)\)\*', body)
		if m and m.group(1) == m.group(3):
			levels.append({'tag': name, 'kind': 'chain', 'sub': m.group(1), 'ops': op_tokens(m.group(2))})
			name = m.group(1)
			continue
		m = re.fullmatch(r'([a-z_0-9]+) ([a-z_0-9]+)(?: -> ([a-z_0-9]+))? \| ([a-z_0-9]+)', body)
		if m and m.group(2) == name:
			levels.append({'tag': m.group(3) or name, 'kind': 'prefix', 'sub': m.group(4), 'ops': op_tokens(m.group(1))})
			name = m.group(4)
			if name == 'primary':
				break
			continue
		m = re.fullmatch(r'([a-z_0-9]+)', body)
		if m:
			name = m.group(1)   # pure alias (`?expr: or_expr`)
			continue
		raise ValueError(f'grammar.lark: rule {name} is not a ladder level: {body!r}')
	tern = rules.get('expression', '')
	if 'or_test "if" or_test "else" expression -> ternary_test' not in tern:
		raise ValueError(f'grammar.lark: ternary rule changed: {tern!r}')
	return levels, ['primary']


# ---------------------------------------------------------------------------------------------
# C++ precedence table of the emitter (py2cpp.py, class CppOperatorPrecedences)


def parse_aug_ops(path: str = 'data/grammar.lark') -> list[str]:
	"""the terminals of `aug_assign_op` (the operators an augmented assignment can carry)"""
	with open(path, encoding='utf-8') as f:
		rules = [ln for ln in f.read().split('\n') if re.match(r'!?aug_assign_op\s*:', ln)]
	if len(rules) != 1:
		raise ValueError(f'{path}: expected exactly one aug_assign_op rule, found {len(rules)}')
	body = rules[0].split(':', 1)[1]
	ops = re.findall(r'"([^"\s]+=)"', body)
	if not ops or ' | '.join(f'"{o}"' for o in ops) != body.strip():
		raise ValueError(f'{path}: unexpected aug_assign_op rule {body.strip()!r}')
	return ops


def parse_precedences(path: str = 'rogw/tranp/implements/cpp/transpiler/py2cpp.py') -> tuple[int, list[tuple[str, int]]]:
	"""-> (unary, [(operator token, precedence)]) read from the class body with `ast` (literal values only)"""
	import ast
	with open(path, encoding='utf-8') as f:
		tree = ast.parse(f.read())
	cls = [n for n in tree.body if isinstance(n, ast.ClassDef) and n.name == 'CppOperatorPrecedences']
	if len(cls) != 1:
		raise ValueError(f'{path}: class CppOperatorPrecedences not found')
	unary: int | None = None
	binary: list[tuple[str, int]] | None = None
	for st in cls[0].body:
		if isinstance(st, ast.AnnAssign) and isinstance(st.target, ast.Name) and st.value is not None:
			if st.target.id == 'unary':
				unary = ast.literal_eval(st.value)
			elif st.target.id == 'binary':
				if not isinstance(st.value, ast.Dict):
					raise ValueError(f'{path}: CppOperatorPrecedences.binary is not a dict literal')
				binary = [(ast.literal_eval(k), ast.literal_eval(v)) for k, v in zip(st.value.keys, st.value.values)]  # type: ignore[arg-type]
	if not isinstance(unary, int) or binary is None or not all(isinstance(k, str) and isinstance(v, int) for k, v in binary):
		raise ValueError(f'{path}: CppOperatorPrecedences.unary/binary not recognised')
	# `precedence_of` must still be the plain lookup the model transcribes
	meth = [n for n in cls[0].body if isinstance(n, ast.FunctionDef) and n.name == 'precedence_of']
	if len(meth) != 1 or ast.unparse(meth[0].body[-1]) != 'return cls.binary.get(operator, cls.unary)':
		raise ValueError(f'{path}: CppOperatorPrecedences.precedence_of changed')
	return unary, binary


# ---------------------------------------------------------------------------------------------
# Lean output


def lstr(s: str) -> str:
	"""a `Tranp.Str` (= List Char) literal that reduces in the kernel"""
	def ch(c: str) -> str:
		if c == "'":
			return "'\\''"
		if c == '\\':
			return "'\\\\'"
		return f"'{c}'"
	return '[' + ', '.join(ch(c) for c in s) + ']'


def lean_cond(c: Any) -> str:
	if c is None:
		return 'none'
	return f'some ({_cond(c)})'


def _cond(c: Any) -> str:
	k = c[0]
	if k == 'eq':
		return f'.eq {lstr(c[1])} {lstr(c[2])}'
	if k == 'flag':
		return f'.flag {lstr(c[1])}'
	if k == 'inList':
		return f".inList {lstr(c[1])} [{', '.join(lstr(v) for v in c[2])}]"
	if k == 'not':
		return f'.not ({_cond(c[1])})'
	return f'.{k} ({_cond(c[1])}) ({_cond(c[2])})'


def lean_pieces(ps: list[tuple[str, str]]) -> str:
	out = []
	for k, v in ps:
		out.append('.sp' if k == 'sp' else f'.{k} {lstr(v)}')
	return '[' + ', '.join(out) + ']'


def render() -> tuple[str, int]:
	i18n = I18n()
	out = [
		'/-',
		'  GENERATED by translate/gen_cpp_templates.py — do not edit.',
		'  Sources: ' + ', '.join(TEMPLATES.values()) + ', data/i18n.yml, data/grammar.lark',
		'-/',
		'import Tranp.Str',
		'',
		'namespace Tranp.Generated.CppTemplates',
		'open Tranp',
		'',
		'/-- one piece of a template line: `{{ name }}`, a literal C++ token (i18n atoms resolved), or one blank -/',
		'inductive Piece where',
		'  | var (name : Str)',
		'  | tok (text : Str)',
		'  | sp',
		'deriving DecidableEq, Repr',
		'',
		'/-- the condition language of `{%- if … -%}` in these files -/',
		'inductive Cond where',
		'  | eq (var val : Str)',
		'  | flag (var : Str)',
		'  | inList (var : Str) (vals : List Str)',
		'  | not (c : Cond)',
		'  | and (a b : Cond)',
		'  | or (a b : Cond)',
		'deriving DecidableEq, Repr',
		'',
		'/-- `cond = none` is the `else` branch / an unconditional template -/',
		'structure Branch where',
		'  cond : Option Cond',
		'  shape : List Piece',
		'deriving DecidableEq, Repr',
		'',
	]
	entries = 0
	for name, path in TEMPLATES.items():
		branches = parse_template(path, i18n)
		entries += len(branches)
		out.append(f'/-- {path} -/')
		out.append(f'def {name} : List Branch := [')
		out.append(',\n'.join(f'  ⟨{lean_cond(c)}, {lean_pieces(ps)}⟩' for c, ps in branches))
		out.append(']')
		out.append('')
	levels, _ = parse_ladder()
	entries += len(levels)
	out.append('inductive LevelKind where')
	out.append('  | chain')
	out.append('  | prefix')
	out.append('deriving DecidableEq, Repr')
	out.append('')
	out.append('/-- one level of the expression ladder of data/grammar.lark (loosest first): node tag, kind, operator tokens as `Terminal.tokens` joins them -/')
	out.append('structure LadderLevel where')
	out.append('  tag : Str')
	out.append('  kind : LevelKind')
	out.append('  ops : List Str')
	out.append('deriving DecidableEq, Repr')
	out.append('')
	out.append('def ladder : List LadderLevel := [')
	out.append(',\n'.join(f"  ⟨{lstr(lv['tag'])}, .{lv['kind']}, [{', '.join(lstr(o) for o in lv['ops'])}]⟩" for lv in levels))
	out.append(']')
	out.append('')
	unary, binary = parse_precedences()
	entries += len(binary) + 1
	out.append('/-- py2cpp.py `CppOperatorPrecedences.unary` -/')
	out.append(f'def cppPrecUnary : Nat := {unary}')
	out.append('')
	out.append('/-- py2cpp.py `CppOperatorPrecedences.binary` (operator token as the emitter sees it ↦ precedence, larger binds tighter) -/')
	out.append('def cppPrecBinary : List (Str × Nat) := [')
	out.append(',\n'.join(f'  ({lstr(k)}, {v})' for k, v in binary))
	out.append(']')
	out.append('')
	aug = parse_aug_ops()
	entries += len(aug)
	out.append('/-- data/grammar.lark `aug_assign_op`: the operator tokens of an augmented assignment -/')
	out.append(f"def augAssignOps : List Str := [{', '.join(lstr(o) for o in aug)}]")
	out.append('')
	st = parse_statement_templates(i18n)
	entries += len(st['lines']) + len(st['tails'])
	out.append('/-! statement templates: ' + ', '.join(f'{STMT_DIR}/{r}' for r in STMT_SOURCES) + ' -/')
	out.append('')
	for name, ps in st['lines'].items():
		out.append(f'def {name} : List Piece := {lean_pieces(ps)}')
		out.append('')
	for name, tail in st['tails'].items():
		out.append(f'def {name} : Str := {lstr(tail)}')
		out.append('')
	out.append('end Tranp.Generated.CppTemplates')
	return '\n'.join(out) + '\n', entries


def generate() -> list[dict[str, Any]]:
	from harness import common
	text, entries = render()
	path = os.path.join(common.GENERATED_DIR, 'CppTemplates.lean')
	changed = common.write_if_changed(path, text)
	return [{'file': 'lean/Tranp/Generated/CppTemplates.lean', 'entries': entries, 'changed': changed,
		'sources': [*TEMPLATES.values(), *[f'{STMT_DIR}/{r}' for r in STMT_SOURCES], 'data/i18n.yml', 'data/grammar.lark', 'rogw/tranp/implements/cpp/transpiler/py2cpp.py (CppOperatorPrecedences)']}]
