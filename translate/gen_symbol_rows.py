"""Translator for property C14: the SCHEMA of the exported rows and the expressions the model is written after, read from the source.

The Lean model (`Model/SymbolJson.lean`) has two row shapes (`Row.symbol types attrs`, `Row.reflection node decl origin via attrs`), a
class test, a depth sort and a flattening guard. This generator reads the AST of rogw/tranp/semantics/reflection/serializer.py and
rogw/tranp/lang/sequence.py (never imports them) and writes `lean/Tranp/Generated/SymbolRows.lean`:

* `symbolRow` / `reflectionRow`     — (key, source text of the value) of the two dict literals `serialize` returns, in source order
* `classTest`                       — the test that selects the Symbol shape
* `attrsValue` / `expandCall`       — how the `attrs` value is built (flattening call, path ↦ type key)
* `symbolReads` / `reflectionReads` — the keys `deserialize` reads from a row in either branch (`data['…']`), in order of first use
* `viaExpr`                         — the expression that picks the `via` of a restored Reflection
* `sortCall`                        — the call that orders the index paths in `_deserialize_attrs`
* `expandGuard`                     — the condition under which `seqs.expand` descends into `iter_key`
* `orderLoopTests` / `orderWalkTests` / `orderWalkWrites` / `orderWalkCalls` / `orderWalkLoops`
                                    — db.py `_order_keys` / `_order_keys_recursive`: every test in source order (the module filter, the
                                      cycle guard `key not in resolving`, the final `key not in orders`), the writes to `resolving` / `orders`,
                                      the recursive calls and what the two loops iterate over

`C14.row_schema_generated` (Props/C14.lean) states that these are what the model implements: every key written is read back and no
other, and each expression is the one the model's definition cites. A row key added, dropped or renamed, a second `return`, a row
passed on whole (`**data`, `data.get`), another sort key or flattening guard is either an unknown shape here (TranslateError: the
tie is broken) or a failed theorem with the differing text in the message.
"""
from __future__ import annotations

import ast
import os
from typing import Any

from harness.common import GENERATED_DIR, REPO, write_if_changed

OUT = os.path.join(GENERATED_DIR, 'SymbolRows.lean')
SERIALIZER = 'rogw/tranp/semantics/reflection/serializer.py'
SEQUENCE = 'rogw/tranp/lang/sequence.py'
DB = 'rogw/tranp/semantics/reflection/db.py'


class TranslateError(Exception):
	pass


def lean_chars(s: str) -> str:
	out = []
	for c in s:
		if c == "'":
			out.append("'\\''")
		elif c == '\\':
			out.append("'\\\\'")
		elif 32 <= ord(c) < 127:
			out.append(f"'{c}'")
		else:
			raise TranslateError(f'unexpected character {c!r} in {s!r}')
	return '[' + ', '.join(out) + ']'


def parse(path: str) -> ast.Module:
	with open(os.path.join(REPO, path), encoding='utf-8') as f:
		return ast.parse(f.read())


def method(tree: ast.Module, cls_name: str, name: str, path: str) -> ast.FunctionDef:
	for c in tree.body:
		if isinstance(c, ast.ClassDef) and c.name == cls_name:
			found = [m for m in c.body if isinstance(m, ast.FunctionDef) and m.name == name]
			if len(found) == 1:
				return found[0]
	raise TranslateError(f'{path}: {cls_name}.{name} not found exactly once')


def body_of(fn: ast.FunctionDef) -> list[ast.stmt]:
	"""statements without the docstring"""
	return [s for s in fn.body if not (isinstance(s, ast.Expr) and isinstance(s.value, ast.Constant) and isinstance(s.value.value, str))]


def row_of(ret: ast.stmt, where: str) -> list[tuple[str, str]]:
	if not (isinstance(ret, ast.Return) and isinstance(ret.value, ast.Dict)):
		raise TranslateError(f'{where}: expected `return {{…}}`, found {ast.unparse(ret)[:80]}')
	out = []
	for k, v in zip(ret.value.keys, ret.value.values):
		if not (isinstance(k, ast.Constant) and isinstance(k.value, str)):
			raise TranslateError(f'{where}: row key is not a string literal ({ast.unparse(k) if k is not None else "**…"})')
		out.append((k.value, ast.unparse(v)))
	if len({k for k, _ in out}) != len(out):
		raise TranslateError(f'{where}: a row key is written twice')
	return out


def scan_serialize(tree: ast.Module) -> dict[str, Any]:
	fn = method(tree, 'ReflectionSerializer', 'serialize', SERIALIZER)
	stmts = body_of(fn)
	if len(stmts) != 3:
		raise TranslateError(f'{SERIALIZER}:{fn.lineno}: serialize has {len(stmts)} statements, expected flatten / attrs / if-return')
	flat, attrs, branch = stmts
	if not (isinstance(flat, (ast.AnnAssign, ast.Assign)) and flat.value is not None):
		raise TranslateError(f'{SERIALIZER}:{flat.lineno}: expected the flattening assignment')
	flat_name = ast.unparse(flat.target if isinstance(flat, ast.AnnAssign) else flat.targets[0])
	if not (isinstance(attrs, ast.Assign) and len(attrs.targets) == 1 and isinstance(attrs.targets[0], ast.Name)):
		raise TranslateError(f'{SERIALIZER}:{attrs.lineno}: expected `attrs = {{…}}`')
	if flat_name not in ast.unparse(attrs.value):
		raise TranslateError(f'{SERIALIZER}:{attrs.lineno}: the attrs value does not use {flat_name}')
	if not (isinstance(branch, ast.If) and len(branch.body) == 1 and len(branch.orelse) == 1):
		raise TranslateError(f'{SERIALIZER}:{branch.lineno}: expected `if <class test>: return {{…}} else: return {{…}}`')
	returns = [n for n in ast.walk(fn) if isinstance(n, ast.Return)]
	if len(returns) != 2:
		raise TranslateError(f'{SERIALIZER}: serialize has {len(returns)} return statements, expected 2')
	return {
		'expandCall': ast.unparse(flat.value),
		'attrsName': attrs.targets[0].id,
		'attrsValue': ast.unparse(attrs.value),
		'classTest': ast.unparse(branch.test),
		'symbolRow': row_of(branch.body[0], f'{SERIALIZER}:{branch.body[0].lineno}'),
		'reflectionRow': row_of(branch.orelse[0], f'{SERIALIZER}:{branch.orelse[0].lineno}'),
	}


def reads_of(stmts: list[ast.stmt], param: str, where: str) -> list[str]:
	"""keys read as `<param>['…']`; any other use of the row is an unknown shape"""
	out: list[str] = []
	subscripted: set[int] = set()
	for s in stmts:
		for n in ast.walk(s):
			if isinstance(n, ast.Subscript) and isinstance(n.value, ast.Name) and n.value.id == param:
				if not (isinstance(n.slice, ast.Constant) and isinstance(n.slice.value, str) and isinstance(n.ctx, ast.Load)):
					raise TranslateError(f'{where}:{n.lineno}: the row is used as {ast.unparse(n)} (not a read of a literal key)')
				subscripted.add(id(n.value))
				if n.slice.value not in out:
					out.append(n.slice.value)
	for s in stmts:
		for n in ast.walk(s):
			if isinstance(n, ast.Name) and n.id == param and id(n) not in subscripted:
				raise TranslateError(f'{where}:{n.lineno}: the row is used whole ({param} outside `{param}[…]`)')
	return out


def scan_deserialize(tree: ast.Module) -> dict[str, Any]:
	fn = method(tree, 'ReflectionSerializer', 'deserialize', SERIALIZER)
	params = [a.arg for a in fn.args.args]
	if len(params) != 3:
		raise TranslateError(f'{SERIALIZER}:{fn.lineno}: deserialize takes {params}')
	row = params[2]
	stmts = body_of(fn)
	if not (len(stmts) == 1 and isinstance(stmts[0], ast.If) and stmts[0].orelse):
		raise TranslateError(f'{SERIALIZER}:{fn.lineno}: expected one `if <row class>: … else: …`')
	branch = stmts[0]
	test = ast.unparse(branch.test)
	via = [s for s in branch.orelse if isinstance(s, ast.Assign) and len(s.targets) == 1 and isinstance(s.targets[0], ast.Name) and s.targets[0].id == 'via']
	if len(via) != 1:
		raise TranslateError(f'{SERIALIZER}:{branch.lineno}: expected exactly one assignment to `via` in the Reflection branch')
	return {
		'rowTest': test,
		'symbolReads': reads_of(branch.body, row, SERIALIZER),
		'reflectionReads': reads_of(branch.orelse, row, SERIALIZER),
		'viaExpr': ast.unparse(via[0].value),
	}


def scan_attrs(tree: ast.Module) -> dict[str, Any]:
	fn = method(tree, 'ReflectionSerializer', '_deserialize_attrs', SERIALIZER)
	calls = [n for n in ast.walk(fn) if isinstance(n, ast.Call) and ((isinstance(n.func, ast.Name) and n.func.id in ('sorted', 'reversed')) or (isinstance(n.func, ast.Attribute) and n.func.attr in ('sort', 'reverse')))]
	if len(calls) != 1:
		raise TranslateError(f'{SERIALIZER}:{fn.lineno}: _deserialize_attrs has {len(calls)} ordering calls, expected the one depth sort')
	return {'sortCall': ast.unparse(calls[0])}


def scan_expand(tree: ast.Module) -> dict[str, Any]:
	fns = [n for n in tree.body if isinstance(n, ast.FunctionDef) and n.name == 'expand']
	if len(fns) != 1:
		raise TranslateError(f'{SEQUENCE}: expand not found exactly once')
	fn = fns[0]
	# the `else` of the list / dict dispatch: `entries[path] = entry`, then `if <guard>: for … in enumerate(getattr(entry, iter_key))`
	guards = [n for n in ast.walk(fn) if isinstance(n, ast.If) and any(isinstance(c, ast.Call) and isinstance(c.func, ast.Name) and c.func.id == 'getattr' for b in n.body for c in ast.walk(b))
		and not any(isinstance(c, ast.If) for b in n.body for c in ast.walk(b))]
	if len(guards) != 1:
		raise TranslateError(f'{SEQUENCE}:{fn.lineno}: expected exactly one guarded descent into the iterator attribute, found {len(guards)}')
	dispatch = [n for n in ast.walk(fn) if isinstance(n, ast.If) and 'type(entry)' in ast.unparse(n.test)]
	return {'expandGuard': ast.unparse(guards[0].test), 'expandDispatch': [ast.unparse(n.test) for n in dispatch]}


def scan_order(tree: ast.Module) -> dict[str, Any]:
	"""the tests of the export-order walk (db.py `_order_keys`, `_order_keys_recursive`), in source order, and what the walk does
	with `resolving` (the set of type keys whose own entry is being expanded)"""
	out: dict[str, Any] = {}
	for name, field in (('_order_keys', 'orderLoopTests'), ('_order_keys_recursive', 'orderWalkTests')):
		fn = method(tree, 'SymbolDB', name, DB)
		tests = [n for n in ast.walk(fn) if isinstance(n, (ast.If, ast.IfExp, ast.While))]
		tests.sort(key=lambda n: (n.lineno, n.col_offset))
		out[field] = [ast.unparse(n.test) for n in tests]
		if any(isinstance(n, (ast.ListComp, ast.SetComp, ast.DictComp, ast.GeneratorExp, ast.Try, ast.Break, ast.Continue)) or (isinstance(n, ast.Return) and n.value is not None) for n in ast.walk(fn) if n is not fn) and name == '_order_keys_recursive':
			raise TranslateError(f'{DB}:{fn.lineno}: {name} has a comprehension / try / break / continue / value return (shape the model does not have)')
	fn = method(tree, 'SymbolDB', '_order_keys_recursive', DB)
	uses: list[str] = []
	for n in sorted((n for n in ast.walk(fn) if isinstance(n, ast.Call) and isinstance(n.func, ast.Attribute) and isinstance(n.func.value, ast.Name) and n.func.value.id in ('resolving', 'orders')), key=lambda n: (n.lineno, n.col_offset)):
		uses.append(ast.unparse(n))
	out['orderWalkWrites'] = uses
	out['orderWalkCalls'] = [ast.unparse(n) for n in sorted((n for n in ast.walk(fn) if isinstance(n, ast.Call) and isinstance(n.func, ast.Attribute) and n.func.attr == '_order_keys_recursive'), key=lambda n: (n.lineno, n.col_offset))]
	out['orderWalkLoops'] = [ast.unparse(n.iter) for n in sorted((n for n in ast.walk(fn) if isinstance(n, ast.For)), key=lambda n: (n.lineno, n.col_offset))]
	return out


def generate() -> list[dict[str, Any]]:
	ser = parse(SERIALIZER)
	rec: dict[str, Any] = {**scan_serialize(ser), **scan_deserialize(ser), **scan_attrs(ser), **scan_expand(parse(SEQUENCE)), **scan_order(parse(DB))}

	def names(xs: list[str]) -> str:
		return '[' + ', '.join(lean_chars(x) for x in xs) + ']'

	def pairs(xs: list[tuple[str, str]]) -> str:
		return '[' + ',\n  '.join(f'({lean_chars(k)}, {lean_chars(v)})' for k, v in xs) + ']'
	text = '\n'.join([
		'/-',
		'  GENERATED by translate/gen_symbol_rows.py from the AST of reflection/serializer.py and lang/sequence.py — do not edit.',
		'  The two row shapes `serialize` writes (key, source text of the value), what `deserialize` reads, and the expressions the',
		'  model definitions cite.',
		'-/',
		'import Tranp.Str',
		'',
		'namespace Tranp.Generated.SymbolRows',
		'open Tranp',
		'',
		f'def expandCall : Str := {lean_chars(rec["expandCall"])}',
		f'def attrsName : Str := {lean_chars(rec["attrsName"])}',
		f'def attrsValue : Str := {lean_chars(rec["attrsValue"])}',
		f'def classTest : Str := {lean_chars(rec["classTest"])}',
		f'def symbolRow : List (Str × Str) := {pairs(rec["symbolRow"])}',
		f'def reflectionRow : List (Str × Str) := {pairs(rec["reflectionRow"])}',
		f'def rowTest : Str := {lean_chars(rec["rowTest"])}',
		f'def symbolReads : List Str := {names(rec["symbolReads"])}',
		f'def reflectionReads : List Str := {names(rec["reflectionReads"])}',
		f'def viaExpr : Str := {lean_chars(rec["viaExpr"])}',
		f'def sortCall : Str := {lean_chars(rec["sortCall"])}',
		f'def expandGuard : Str := {lean_chars(rec["expandGuard"])}',
		f'def expandDispatch : List Str := {names(rec["expandDispatch"])}',
		f'def orderLoopTests : List Str := {names(rec["orderLoopTests"])}',
		f'def orderWalkTests : List Str := {names(rec["orderWalkTests"])}',
		f'def orderWalkWrites : List Str := {names(rec["orderWalkWrites"])}',
		f'def orderWalkCalls : List Str := {names(rec["orderWalkCalls"])}',
		f'def orderWalkLoops : List Str := {names(rec["orderWalkLoops"])}',
		'',
		'end Tranp.Generated.SymbolRows',
		'',
	])
	changed = write_if_changed(OUT, text)
	return [{'file': os.path.relpath(OUT, os.path.dirname(GENERATED_DIR)), 'entries': len(rec['symbolRow']) + len(rec['reflectionRow']) + 9, **rec, 'changed': changed}]
