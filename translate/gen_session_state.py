"""Translator for property C04: the inventory of all state of rogw/tranp that can carry history from one request to the next.

Reads the AST of every source below rogw/tranp (never imports them; tests and the library stubs `compatible/` excluded) and
writes `lean/Tranp/Generated/SessionState.lean`:

* `sites` — every place where an object, a class or a module keeps something that can change after construction:
    inst    `self.x = {}` / `[]` / `set()` / comprehension / `dict()` / `Memoize()` / ... in any method, and every attribute that is
            assigned outside `__init__` (rebound state: `Module.__identity`, `Memo._result`, ...)
    class   class-level assignment of a container (shared by all instances)
    module  module-level assignment of a container
    memo    a key memoised on a node / a node table (`self._memo.get(<key>, factory)`, `self.__memo.get(...)`)
    cache   `setattr(<class or function>, ...)`, `@functools.cache` / `lru_cache` / `cached_property` / `@memo..`, `global`
    foreign an attribute (or an item of an attribute) of ANOTHER object assigned inside a function (`provider.source_code = ..`,
            `symbol.attrs[i] = ..`)
  with the methods of the owning class that write it (assign, `x[..] = `, `del x[..]`, augmented assign, mutator call), and the
  audited verdict from `c04_state_audited.json`:
    reset F     per-module entry, removed by `Modules.unload` (model: field F of `State`, cleared by `unload`)
    owned F     lives inside an object that a per-module entry of F owns (node memo, entry cache, symbol attributes, module identity):
                dropped together with that entry
    content F   keyed by file content / mtime, survives unload on purpose (model: `ast`, `stored`)
    stack F     per-call stack, pushed and popped by one transpile (model: `deps`, `proc`)
    constant    filled by the constructor / at class creation, never written afterwards (checked here: no writer but `__init__`)
    wiring      dependency injection containers: which instance, not which content (property C19)
    percall     belongs to an object created for one call and dropped with it
    process     survives every session of the process (class-level caches; searched: `prop-keys-cache`)
    offpath     not reachable from the default application (self-hosted parser, debug trace)

A site that is not in the audit file, an audit entry without a site, a changed writer list, a `constant` site with a writer
other than `__init__`, a `reset` site without a writer named `unload`, or an unknown statement shape at a site is a
TranslateError (the tie is broken, never a silent default): audit the new site, then `python -m translate.gen_session_state --audit`
prints the entry to add. `Tranp.C04.inventory_*` are proved about the generated table.

Not covered (stated, not assumed away): state captured by closures (`nonlocal`), state of third party packages (lark, jinja2),
the file system (cache directory: model field `stored`).
"""
from __future__ import annotations

import ast
import json
import os
import sys
from typing import Any

from harness.common import GENERATED_DIR, REPO, write_if_changed

OUT = os.path.join(GENERATED_DIR, 'SessionState.lean')
AUDITED = os.path.join(os.path.dirname(os.path.abspath(__file__)), 'c04_state_audited.json')
ROOT = 'rogw/tranp'
EXCLUDED = ('/tests/', '/test/', '/compatible/')

FIELDS = ['mainSrc', 'mods', 'eps', 'ast', 'db', 'completed', 'stored', 'ident', 'deps', 'proc']
WITH_FIELD = ['reset', 'owned', 'content', 'stack']
PLAIN = ['constant', 'wiring', 'percall', 'process', 'offpath']
CONTAINER_CALLS = {'dict', 'list', 'set', 'defaultdict', 'OrderedDict', 'deque', 'Counter', 'Memoize', 'Memo'}
MUTATORS = {'append', 'pop', 'clear', 'insert', 'extend', 'remove', 'sort', 'reverse', 'update', 'setdefault', 'popitem', 'add', 'discard',
	'appendleft', 'popleft', '__setitem__', '__delitem__'}
CACHE_DECORATORS = ('cache', 'lru_cache', 'cached_property', 'memo')


class TranslateError(Exception):
	pass


def _container(v: ast.AST | None) -> bool:
	if isinstance(v, (ast.Dict, ast.List, ast.Set, ast.ListComp, ast.DictComp, ast.SetComp)):
		return True
	if isinstance(v, ast.Call):
		f = v.func
		name = f.id if isinstance(f, ast.Name) else f.attr if isinstance(f, ast.Attribute) else None
		return name in CONTAINER_CALLS
	return False


def _self_attr(t: ast.AST) -> str | None:
	"""`self.x` / `cls.x` -> x"""
	if isinstance(t, ast.Attribute) and isinstance(t.value, ast.Name) and t.value.id in ('self', 'cls'):
		return t.attr
	return None


def _targets(node: ast.AST) -> list[ast.AST]:
	ts: list[ast.AST] = []
	if isinstance(node, ast.Assign):
		ts = list(node.targets)
	elif isinstance(node, (ast.AnnAssign, ast.AugAssign)):
		ts = [node.target]
	elif isinstance(node, ast.Delete):
		ts = list(node.targets)
	out: list[ast.AST] = []
	for t in ts:
		out.extend(t.elts if isinstance(t, (ast.Tuple, ast.List)) else [t])
	return out


def _written_attrs(meth: ast.FunctionDef) -> dict[str, list[ast.AST]]:
	"""attribute of self -> the statements of this method that assign or mutate it"""
	out: dict[str, list[ast.AST]] = {}
	for sub in ast.walk(meth):
		for t in _targets(sub):
			base = t
			while isinstance(base, ast.Subscript):
				base = base.value
			a = _self_attr(base)
			if a is not None and not (isinstance(sub, ast.AnnAssign) and sub.value is None):
				out.setdefault(a, []).append(sub)
		if isinstance(sub, ast.Call) and isinstance(sub.func, ast.Attribute) and sub.func.attr in MUTATORS:
			a = _self_attr(sub.func.value)
			if a is not None:
				out.setdefault(a, []).append(sub)
	return out


def _memo_key(call: ast.Call) -> str:
	if not call.args:
		raise TranslateError(f'memo get without a key: {ast.unparse(call)}')
	k = call.args[0]
	if isinstance(k, ast.Constant) and isinstance(k.value, str):
		return k.value
	if isinstance(k, ast.JoinedStr):
		return ''.join(v.value if isinstance(v, ast.Constant) else '{' + ast.unparse(v.value) + '}' for v in k.values)  # type: ignore[attr-defined]
	if isinstance(k, ast.Attribute) and k.attr == '__name__':
		return ast.unparse(k)
	raise TranslateError(f'memo key of unknown shape: {ast.unparse(call)}')


def scan_file(rel: str, tree: ast.Module) -> list[dict[str, Any]]:
	sites: dict[str, dict[str, Any]] = {}

	def add(owner: str, name: str, kind: str, writers: list[str] | None = None) -> None:
		sid = f'{rel}::{owner}.{name}' if owner else f'{rel}::{name}'
		s = sites.setdefault(sid, {'id': sid, 'file': rel, 'owner': owner, 'name': name, 'kind': kind, 'writers': []})
		for w in writers or []:
			if w not in s['writers']:
				s['writers'].append(w)

	for node in tree.body:
		for t in _targets(node) if isinstance(node, (ast.Assign, ast.AnnAssign)) else []:
			if isinstance(t, ast.Name) and _container(getattr(node, 'value', None)):
				add('', t.id, 'module')
	for fn in [n for n in ast.walk(tree) if isinstance(n, (ast.FunctionDef, ast.AsyncFunctionDef))]:
		for d in fn.decorator_list:
			s = ast.unparse(d)
			last = s.split('(')[0].split('.')[-1]
			if last in CACHE_DECORATORS[:3] or last.lower().startswith('memo'):
				add('', f'{fn.name}@{s}', 'cache')
		for sub in ast.walk(fn):
			if isinstance(sub, (ast.Global, ast.Nonlocal)) and isinstance(sub, ast.Global):
				add('', f"{fn.name}:global {','.join(sub.names)}", 'cache')
	# attributes (or items of attributes) of ANOTHER object assigned or deleted: `provider.source_code = ..`, `symbol.attrs[i] = ..`
	def visit(scope: str, body: list[ast.stmt]) -> None:
		for st in body:
			if isinstance(st, ast.ClassDef):
				visit(st.name, st.body)
				continue
			if isinstance(st, (ast.FunctionDef, ast.AsyncFunctionDef)):
				for sub in ast.walk(st):
					for t in _targets(sub):
						base = t
						while isinstance(base, ast.Subscript):
							base = base.value
						if isinstance(base, ast.Attribute) and _self_attr(base) is None:
							add(scope, f'{st.name}:{ast.unparse(t)}', 'foreign', [st.name])
	visit('', tree.body)
	for cls in [n for n in ast.walk(tree) if isinstance(n, ast.ClassDef)]:
		for node in cls.body:
			if isinstance(node, (ast.Assign, ast.AnnAssign)) and _container(node.value):
				for t in _targets(node):
					if isinstance(t, ast.Name):
						add(cls.name, t.id, 'class')
		meths = [m for m in cls.body if isinstance(m, (ast.FunctionDef, ast.AsyncFunctionDef))]
		written = {m.name: _written_attrs(m) for m in meths}
		state: list[str] = []
		for m in meths:
			for a, stmts in written[m.name].items():
				rebound = m.name != '__init__' and any(isinstance(s, (ast.Assign, ast.AnnAssign, ast.AugAssign)) and any(_self_attr(t) == a for t in _targets(s)) for s in stmts)
				holds = any(isinstance(s, (ast.Assign, ast.AnnAssign)) and _container(s.value) and any(_self_attr(t) == a for t in _targets(s)) for s in stmts)
				mutated = any(not (isinstance(s, (ast.Assign, ast.AnnAssign, ast.AugAssign)) and any(_self_attr(t) == a for t in _targets(s))) for s in stmts)
				if (rebound or holds or mutated) and a not in state:
					state.append(a)
		for a in state:
			add(cls.name, a, 'inst', [m.name for m in meths if a in written[m.name]])
		for m in meths:
			for sub in ast.walk(m):
				if isinstance(sub, ast.Call) and isinstance(sub.func, ast.Name) and sub.func.id == 'setattr':
					add(cls.name, f'{m.name}:setattr({ast.unparse(sub.args[0])})', 'cache', [m.name])
				if isinstance(sub, ast.Call) and isinstance(sub.func, ast.Attribute) and sub.func.attr == 'get' and _self_attr(sub.func.value) in ('_memo', '__memo') \
						and len(sub.args) == 2:
					add(cls.name, f'{_self_attr(sub.func.value)}[{_memo_key(sub)}]', 'memo', [m.name])
	return list(sites.values())


_CLASS_WRITES: set[tuple[str, str]] = set()


def _class_writes(tree: ast.Module) -> None:
	"""`ClassName.attr = ..`, `ClassName.attr[..] = ..`, `ClassName.attr.append(..)` anywhere: class-level tables written from outside"""
	for sub in ast.walk(tree):
		bases = []
		for t in _targets(sub):
			while isinstance(t, ast.Subscript):
				t = t.value
			bases.append(t)
		if isinstance(sub, ast.Call) and isinstance(sub.func, ast.Attribute) and sub.func.attr in MUTATORS:
			bases.append(sub.func.value)
		for b in bases:
			if isinstance(b, ast.Attribute) and isinstance(b.value, ast.Name) and b.value.id[:1].isupper():
				_CLASS_WRITES.add((b.value.id, b.attr))


def scan() -> list[dict[str, Any]]:
	out: list[dict[str, Any]] = []
	_CLASS_WRITES.clear()
	for dp, _dn, fns in sorted(os.walk(os.path.join(REPO, ROOT))):
		for fn in sorted(fns):
			rel = os.path.relpath(os.path.join(dp, fn), REPO)
			if not fn.endswith('.py') or any(x in f'/{rel}' for x in EXCLUDED):
				continue
			with open(os.path.join(dp, fn), encoding='utf-8') as f:
				try:
					tree = ast.parse(f.read())
				except SyntaxError as e:
					raise TranslateError(f'{rel}: {e}') from e
			_class_writes(tree)
			out.extend(scan_file(rel, tree))
	for s in out:
		if s['kind'] == 'class' and (s['owner'], s['name']) in _CLASS_WRITES:
			s['writers'].append('<outside>')
	return out


def load_audit() -> dict[str, dict[str, Any]]:
	with open(AUDITED, encoding='utf-8') as f:
		return json.load(f)


def check(sites: list[dict[str, Any]], audit: dict[str, dict[str, Any]]) -> None:
	ids = [s['id'] for s in sites]
	new = [s for s in sites if s['id'] not in audit]
	if new:
		raise TranslateError('state not in the audited inventory (audit it, then add to translate/c04_state_audited.json): '
			+ '; '.join(f"{s['id']} [{s['kind']}, written by {s['writers']}]" for s in new))
	gone = [k for k in audit if k not in ids]
	if gone:
		raise TranslateError(f'audited state no longer in the source (remove from translate/c04_state_audited.json): {gone}')
	for s in sites:
		a = audit[s['id']]
		v = a.get('verdict')
		if v not in WITH_FIELD + PLAIN:
			raise TranslateError(f"{s['id']}: unknown verdict {v!r}")
		if (v in WITH_FIELD) != (a.get('field') in FIELDS):
			raise TranslateError(f"{s['id']}: verdict {v} with field {a.get('field')!r}")
		if a.get('kind') != s['kind'] or a.get('writers') != s['writers']:
			raise TranslateError(f"{s['id']}: audited as {a.get('kind')} written by {a.get('writers')}, the source now has {s['kind']} written by {s['writers']}")
		if v == 'constant' and [w for w in s['writers'] if w != '__init__']:
			raise TranslateError(f"{s['id']}: audited constant but written by {s['writers']}")
		if v == 'reset' and s['kind'] != 'foreign' and not any(w in ('unload', 'clear') for w in s['writers']):
			raise TranslateError(f"{s['id']}: audited reset-on-unload but no unload/clear method writes it ({s['writers']})")
		if not a.get('why'):
			raise TranslateError(f"{s['id']}: audit entry without a reason")


def chars(s: str) -> str:
	def one(c: str) -> str:
		if c == "'":
			return "'\\''"
		if c == '\\':
			return "'\\\\'"
		return f"'{c}'" if 32 <= ord(c) < 127 else f"Char.ofNat {ord(c)}"
	return '[' + ', '.join(one(c) for c in s) + ']'


def render(sites: list[dict[str, Any]], audit: dict[str, dict[str, Any]]) -> str:
	lines = ['/-',
		f'  GENERATED by translate/gen_session_state.py from every source below {ROOT} (tests and library stubs excluded) — do not edit.',
		'  Every place where an object, a class or a module keeps something that can change after construction, the methods of the',
		'  owning class that write it, and the audited verdict (translate/c04_state_audited.json): what happens to it when a module',
		'  is unloaded. A new or changed site stops the translator (broken tie) until it is audited.',
		'-/', 'import Tranp.Str', '', 'namespace Tranp.Generated.SessionState', '',
		'/-- the components of the model state (`Tranp.Session.State`) -/',
		'inductive Field where', *[f'  | {f}' for f in FIELDS], 'deriving DecidableEq, Repr', '',
		'inductive Kind where', '  | inst | cls | module | memo | cache | foreign', 'deriving DecidableEq, Repr', '',
		'inductive Verdict where',
		'  /-- per-module entry removed by `Modules.unload` -/', '  | reset (f : Field)',
		'  /-- inside an object owned by a per-module entry of `f`, dropped with it -/', '  | owned (f : Field)',
		'  /-- keyed by file content, survives unload on purpose -/', '  | content (f : Field)',
		'  /-- per-call stack -/', '  | stack (f : Field)',
		*[f'  | {p}' for p in PLAIN], 'deriving DecidableEq, Repr', '',
		'structure Site where', '  file : List Char', '  owner : List Char', '  name : List Char', '  kind : Kind', '  writers : List (List Char)', '  verdict : Verdict',
		'deriving DecidableEq, Repr', '', 'def sites : List Site :=']
	kinds = {'inst': '.inst', 'class': '.cls', 'module': '.module', 'memo': '.memo', 'cache': '.cache', 'foreign': '.foreign'}
	rows = []
	for s in sites:
		a = audit[s['id']]
		v = f".{a['verdict']} .{a['field']}" if a['verdict'] in WITH_FIELD else f".{a['verdict']}"
		rows.append(f"    -- {s['id']}: {a['why']}\n    ⟨{chars(s['file'])}, {chars(s['owner'])}, {chars(s['name'])}, {kinds[s['kind']]}, [{', '.join(chars(w) for w in s['writers'])}], {v}⟩")
	lines.append('  [\n' + ',\n'.join(rows) + ' ]')
	lines += ['', 'end Tranp.Generated.SessionState', '']
	return '\n'.join(lines)


def generate() -> list[dict[str, Any]]:
	sites = scan()
	audit = load_audit()
	check(sites, audit)
	changed = write_if_changed(OUT, render(sites, audit))
	by: dict[str, int] = {}
	for s in sites:
		a = audit[s['id']]
		k = f"{a['verdict']} {a['field']}" if a['verdict'] in WITH_FIELD else a['verdict']
		by[k] = by.get(k, 0) + 1
	return [{'file': os.path.relpath(OUT, os.path.dirname(GENERATED_DIR)), 'source': f'{ROOT}/**/*.py', 'entries': len(sites), 'changed': changed, 'verdicts': by}]


def main() -> int:
	if '--audit' in sys.argv:
		try:
			audit = load_audit()
		except FileNotFoundError:
			audit = {}
		for s in scan():
			if s['id'] not in audit or audit[s['id']].get('writers') != s['writers'] or audit[s['id']].get('kind') != s['kind']:
				print(json.dumps({s['id']: {'kind': s['kind'], 'writers': s['writers'], 'verdict': '?', 'why': '?'}}))
		return 0
	for rec in generate():
		print(rec)
	return 0


if __name__ == '__main__':
	sys.exit(main())
