"""Translator for property C09: the per-instance state of `Procedure` and the source text the hand-written model covers.

Reads the AST of the sources (never imports them) and writes `lean/Tranp/Generated/ProcedureState.lean`:

* `stateWriters` — every attribute of a `Procedure` instance with the methods that assign or mutate it
  (`self.__stacks = …`, `self.__stacks.append/pop`, `self.__stack.append/pop` through the `__stack` property,
  `self.__emitter.on/off/clear`). `Tranp.C09.instance_state_is_modelled` proves it equal to the state of
  `Model/ProcedureHistory.lean` (stacks + emitter, `__verbose` write-once), so `exec_history_independent` speaks
  about everything an instance can remember.
* `classState` — class-level assignments of `Procedure` (state shared by all instances): must be empty.
* `makeEventCount` / `execFlatten` — where `__make_event` takes the length of a list property from and where `__exec_impl`
  takes the flattening from (`len(getattr(node, prop_key))` at event time; `root.procedural()` on every exec).

Anything else is a TranslateError (the tie is broken, never a silent default):
  an instance attribute the model does not know, class-level state, `setattr`/`__dict__` on self, an unknown method of the
  emitter, a mutation through an unknown path, a handler `on_*` that catches the exception of `next()` (chaining itself is
  modelled), and any change of the normalised source of a modelled function against `c09_modelled_source.json`
  (re-audit the model, then `python -m translate.gen_procedure_state --audit`).
"""
from __future__ import annotations

import ast
import difflib
import json
import os
import sys
from typing import Any

from harness.common import GENERATED_DIR, REPO, write_if_changed

OUT = os.path.join(GENERATED_DIR, 'ProcedureState.lean')
AUDITED = os.path.join(os.path.dirname(os.path.abspath(__file__)), 'c09_modelled_source.json')
PROCEDURE = 'rogw/tranp/semantics/procedure.py'

KNOWN_ATTRS = ['__stacks', '__verbose', '__emitter']
LIST_MUTATORS = {'append', 'pop', 'clear', 'insert', 'extend', 'remove', 'sort', 'reverse', 'update', 'setdefault', 'popitem', '__setitem__', '__delitem__'}
EMITTER_WRITES = {'on', 'off', 'clear'}
EMITTER_READS = {'usable', 'emit'}

# the functions the Lean model covers line by line (Model/Procedure.lean, Model/ProcedureHistory.lean, Model/PropKeys.lean)
MODELLED: dict[str, list[str]] = {
	PROCEDURE: ['Procedure.__init__', 'Procedure.on', 'Procedure.off', 'Procedure.clear_handler', 'Procedure.exec', 'Procedure.__exec_impl',
		'Procedure.__stack', 'Procedure.__result', 'Procedure.__process', 'Procedure.__action', 'Procedure.__run_action', 'Procedure.__emit',
		'Procedure.__make_event', 'Procedure.__is_prop_list_by', 'Procedure.__stack_pop'],
	'rogw/tranp/syntax/node/node.py': ['Node.__hash__', 'Node.__eq__', 'Node.can_expand', 'Node.prop_keys', 'Node.__embed_classes', 'Node.procedural',
		'Node.__prop_expand', 'Node.__prop_of_nodes', 'Node._under_expand'],
	'rogw/tranp/lang/middleware.py': ['Middleware.__init__', 'Middleware.on', 'Middleware.off', 'Middleware.usable', 'Middleware.emit', 'Middleware.__emit', 'Middleware.clear'],
	'rogw/tranp/syntax/node/embed.py': ['MetaData.class_path', 'MetaData.method_path', 'MetaData.set_for_method', 'MetaData.get_from_method', 'Meta.dig_for_method', 'expandable'],
}


class TranslateError(Exception):
	pass


def _parse(rel: str) -> ast.Module:
	with open(os.path.join(REPO, rel), encoding='utf-8') as f:
		return ast.parse(f.read())


def _strip_doc(fn: ast.AST) -> ast.AST:
	body = getattr(fn, 'body', [])
	if body and isinstance(body[0], ast.Expr) and isinstance(body[0].value, ast.Constant) and isinstance(body[0].value.value, str):
		fn.body = body[1:] or [ast.Pass()]
	for child in ast.iter_child_nodes(fn):
		if isinstance(child, (ast.FunctionDef, ast.ClassDef)):
			_strip_doc(child)
	return fn


def normalised(fn: ast.AST) -> str:
	"""Source of a function without docstrings / comments / layout."""
	import copy
	return ast.unparse(_strip_doc(copy.deepcopy(fn)))


def functions_of(rel: str) -> dict[str, ast.AST]:
	out: dict[str, ast.AST] = {}
	for n in _parse(rel).body:
		if isinstance(n, ast.FunctionDef):
			out[n.name] = n
		elif isinstance(n, ast.ClassDef):
			for m in n.body:
				if isinstance(m, ast.FunctionDef):
					out[f'{n.name}.{m.name}'] = m
	return out


def modelled_sources() -> dict[str, str]:
	out: dict[str, str] = {}
	for rel, names in MODELLED.items():
		fns = functions_of(rel)
		for name in names:
			if name not in fns:
				raise TranslateError(f'{rel}: modelled function {name} is missing')
			out[f'{rel}::{name}'] = normalised(fns[name])
	return out


def check_audited(current: dict[str, str]) -> None:
	if not os.path.exists(AUDITED):
		raise TranslateError(f'{AUDITED} is missing (run python -m translate.gen_procedure_state --audit after auditing the model)')
	with open(AUDITED, encoding='utf-8') as f:
		audited = json.load(f)
	for key in sorted(set(audited) | set(current)):
		if audited.get(key) != current.get(key):
			diff = '\n'.join(difflib.unified_diff((audited.get(key) or '').splitlines(), (current.get(key) or '').splitlines(), 'modelled', 'source', lineterm='', n=1))
			raise TranslateError(f'{key}: the source differs from the text the Lean model was written against:\n{diff}')


def _self_attr(n: ast.AST) -> str | None:
	if isinstance(n, ast.Attribute) and isinstance(n.value, ast.Name) and n.value.id == 'self':
		return n.attr
	return None


def procedure_state() -> dict[str, Any]:
	tree = _parse(PROCEDURE)
	classes = [n for n in tree.body if isinstance(n, ast.ClassDef) and n.name == 'Procedure']
	if len(classes) != 1:
		raise TranslateError(f'{PROCEDURE}: expected exactly one class Procedure')
	cls = classes[0]
	class_state: list[str] = []
	methods: dict[str, ast.FunctionDef] = {}
	for st in cls.body:
		if isinstance(st, ast.Expr) and isinstance(st.value, ast.Constant) and isinstance(st.value.value, str):
			continue
		if isinstance(st, ast.FunctionDef):
			methods[st.name] = st
		elif isinstance(st, (ast.Assign, ast.AnnAssign, ast.AugAssign)):
			targets = st.targets if isinstance(st, ast.Assign) else [st.target]
			class_state.extend(ast.unparse(t) for t in targets)
		else:
			raise TranslateError(f'{PROCEDURE}:{st.lineno}: unrecognised statement in the body of class Procedure')
	if class_state:
		raise TranslateError(f'{PROCEDURE}: class-level state {class_state} is shared by all Procedure instances (not modelled: an instance owns its stacks)')
	# the `__stack` property is a view of `__stacks[-1]`
	alias: dict[str, str] = {}
	if '__stack' in methods:
		body = [s for s in methods['__stack'].body if not (isinstance(s, ast.Expr) and isinstance(s.value, ast.Constant))]
		if len(body) == 1 and isinstance(body[0], ast.Return) and ast.unparse(body[0].value) == 'self.__stacks[-1]':
			alias['__stack'] = '__stacks'
		else:
			raise TranslateError(f'{PROCEDURE}: the property __stack is not `return self.__stacks[-1]`')
	writers: dict[str, list[str]] = {a: [] for a in KNOWN_ATTRS}

	def note(attr: str, method: str, line: int) -> None:
		attr = alias.get(attr, attr)
		if attr not in writers:
			raise TranslateError(f'{PROCEDURE}:{line}: Procedure.{method} writes the instance attribute {attr!r} the model does not know (per-instance state beyond stacks / handlers)')
		if method not in writers[attr]:
			writers[attr].append(method)
	for name, fn in methods.items():
		for n in ast.walk(fn):
			if isinstance(n, ast.Call) and isinstance(n.func, ast.Name) and n.func.id in ('setattr', 'delattr', 'vars') and n.args and isinstance(n.args[0], ast.Name) and n.args[0].id == 'self':
				raise TranslateError(f'{PROCEDURE}:{n.lineno}: Procedure.{name} uses {n.func.id}(self, …)')
			a = _self_attr(n)
			if a is None:
				continue
			if a == '__dict__':
				raise TranslateError(f'{PROCEDURE}:{n.lineno}: Procedure.{name} touches self.__dict__')
			if a not in KNOWN_ATTRS and a not in alias and a not in methods:
				raise TranslateError(f'{PROCEDURE}:{n.lineno}: Procedure.{name} uses the instance attribute {a!r} the model does not know (per-instance state beyond stacks / handlers)')
			if isinstance(n.ctx, (ast.Store, ast.Del)):
				note(a, name, n.lineno)
		for n in ast.walk(fn):
			# mutation through a method call / subscript store on an attribute of self
			if isinstance(n, ast.Call) and isinstance(n.func, ast.Attribute):
				a = _self_attr(n.func.value)
				if a is None or a in methods and a not in alias:
					continue
				real = alias.get(a, a)
				if real == '__emitter':
					if n.func.attr in EMITTER_WRITES:
						note(a, name, n.lineno)
					elif n.func.attr not in EMITTER_READS:
						raise TranslateError(f'{PROCEDURE}:{n.lineno}: Procedure.{name} calls self.__emitter.{n.func.attr} (not modelled)')
				elif n.func.attr in LIST_MUTATORS:
					note(a, name, n.lineno)
			if isinstance(n, ast.Subscript) and isinstance(n.ctx, (ast.Store, ast.Del)):
				a = _self_attr(n.value)
				if a is not None:
					note(a, name, n.lineno)
	order = list(methods)
	for a in writers:
		writers[a].sort(key=order.index)
	# where __make_event takes the list length from, where __exec_impl takes the flattening from
	me = methods.get('__make_event')
	counts = [ast.unparse(n.value) for n in ast.walk(me) if isinstance(n, ast.Assign) and len(n.targets) == 1 and ast.unparse(n.targets[0]) == 'counts'] if me else []
	if counts != ['len(getattr(node, prop_key))']:
		raise TranslateError(f'{PROCEDURE}: __make_event takes the number of results of a list property from {counts}, the model re-reads len(getattr(node, prop_key)) at event time')
	ei = methods.get('__exec_impl')
	flat = [ast.unparse(n.value) for n in ast.walk(ei) if isinstance(n, ast.Assign) and len(n.targets) == 1 and ast.unparse(n.targets[0]) == 'flatted'] if ei else []
	if flat != ['root.procedural()']:
		raise TranslateError(f'{PROCEDURE}: __exec_impl takes the flattening from {flat}, the model flattens the given root on every exec (root.procedural())')
	return {'writers': writers, 'class_state': class_state}


def check_no_next_handlers() -> int:
	"""Middleware chaining (`next`) is not modelled: no handler of tranp may ask for it."""
	n = 0
	for root, _, files in os.walk(os.path.join(REPO, 'rogw', 'tranp')):
		for fn in files:
			if not fn.endswith('.py'):
				continue
			path = os.path.join(root, fn)
			try:
				with open(path, encoding='utf-8') as f:
					tree = ast.parse(f.read())
			except SyntaxError:
				continue
			for node in ast.walk(tree):
				if isinstance(node, ast.FunctionDef) and node.name.startswith('on_'):
					n += 1
					if any(a.arg == 'next' for a in [*node.args.args, *node.args.kwonlyargs]):
						# chaining is modelled (Model/ProcedureHistory.composeCB) — except catching the exception of next()
						for t in ast.walk(node):
							if isinstance(t, ast.Try) and any(isinstance(c, ast.Call) and isinstance(c.func, ast.Name) and c.func.id == 'next' for b in t.body for c in ast.walk(b)):
								raise TranslateError(f'{os.path.relpath(path, REPO)}:{t.lineno}: handler {node.name} catches the exception of next() (not modelled)')
	return n


def _chars(s: str) -> str:
	return '[' + ', '.join("'" + c + "'" for c in s) + ']'


def render(state: dict[str, Any], handlers: int, functions: list[str]) -> str:
	w = state['writers']
	rows = ',\n    '.join(f"({_chars(a)}, [{', '.join(_chars(m) for m in w[a])}])" for a in KNOWN_ATTRS)
	return '\n'.join([
		'/-',
		f'  GENERATED by translate/gen_procedure_state.py from {PROCEDURE} — do not edit.',
		'  Every attribute of a `Procedure` instance with the methods that assign or mutate it; class-level state;',
		'  the sources of the list length in `__make_event` and of the flattening in `__exec_impl`.',
		f'  {len(functions)} modelled functions are pinned to their audited source text; {handlers} `on_*` handlers of tranp scanned (none catches the exception of `next()`).',
		'-/',
		'import Tranp.Str',
		'',
		'namespace Tranp.Generated.ProcedureState',
		'',
		'/-- instance attribute ↦ methods of `Procedure` that assign or mutate it (definition order) -/',
		'def stateWriters : List (List Char × List (List Char)) :=',
		f'  [ {rows} ]',
		'',
		'/-- class-level assignments of `Procedure` (state shared between instances) -/',
		'def classState : List (List Char) := []',
		'',
		'/-- where `__make_event` takes the number of results of a list property from -/',
		'inductive CountSource where',
		'  /-- `len(getattr(node, prop_key))`, read from the node when the event is built -/',
		'  | lenGetattrAtEventTime',
		'deriving DecidableEq',
		'def makeEventCount : CountSource := .lenGetattrAtEventTime',
		'',
		'/-- where `__exec_impl` takes the flattening from -/',
		'inductive FlattenSource where',
		'  /-- `root.procedural()` of the root it is given, on every exec -/',
		'  | rootProceduralOnEveryExec',
		'deriving DecidableEq',
		'def execFlatten : FlattenSource := .rootProceduralOnEveryExec',
		'',
		'end Tranp.Generated.ProcedureState',
		'',
	])


def generate() -> list[dict[str, Any]]:
	state = procedure_state()
	handlers = check_no_next_handlers()
	current = modelled_sources()
	check_audited(current)
	changed = write_if_changed(OUT, render(state, handlers, sorted(current)))
	return [{'file': os.path.relpath(OUT, os.path.dirname(GENERATED_DIR)), 'source': PROCEDURE, 'entries': len(KNOWN_ATTRS) + len(current), 'changed': changed,
		'pinned_functions': len(current), 'handlers_without_next': handlers}]


if __name__ == '__main__':
	if '--audit' in sys.argv:
		with open(AUDITED, 'w', encoding='utf-8') as f:
			json.dump(modelled_sources(), f, indent=1, sort_keys=True)
		print(f'audited {AUDITED}')
	else:
		print(generate())
