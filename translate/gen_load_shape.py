"""Translator for property C04: `Modules.load` statement by statement.

Reads the AST of rogw/tranp/module/modules.py (never imports it) and writes `lean/Tranp/Generated/LoadShape.lean`: the body of
`Modules.load(p)` as a program of a small language, in source order

    self.__load_libraries(p)                                        libraries
    self.__modules[p] = self.__loader.load(ModulePath(p, language)) register
    self.__load_dependencies(self.__modules[p])                     dependencies
    self.__loader.preprocess(self.__modules[p])                     preprocess
    if p not in self.__modules: <statements>                        ifUnregistered [..]
    try: <statements>  except Exception: self.unload(p); raise      tryRollback [..]

inside the outer `try: .. except Errors.Error: raise / except Exception as e: raise Errors.Fatal(..) from e`, followed by
`return self.__modules[p]`. The two helpers are compared with the text the model was written from

    __load_libraries(via)     `if via not in [path.path for path in self.__library_paths]: self.libralies()`
    __load_dependencies(via)  `depends = [self.load(i.import_path.tokens) for i in via.entrypoint.imports]; via.depends_on(depends)`
    libralies()               `return [self.load(module_path.path, module_path.language) for module_path in self.__library_paths]`

Anything else — a rollback for fewer exception classes, a missing re-check, another order, an early return — is a TranslateError
(the tie is broken, never a silent default). `Tranp.C04.load_generated` proves that running the generated program
(Lemmas/LoadShape.lean) IS the hand-written `loadOne` / `loadAll` of the model.
"""
from __future__ import annotations

import ast
import os
import sys
from typing import Any

from harness.common import GENERATED_DIR, REPO, write_if_changed

OUT = os.path.join(GENERATED_DIR, 'LoadShape.lean')
SRC = 'rogw/tranp/module/modules.py'

HELPERS = {
	'__load_libraries': 'if via_module_path not in [path.path for path in self.__library_paths]:\n\tself.libralies()',
	'__load_dependencies': 'depends = [self.load(import_node.import_path.tokens) for import_node in via_module.entrypoint.imports]\nvia_module.depends_on(depends)',
	'libralies': 'return [self.load(module_path.path, module_path.language) for module_path in self.__library_paths]',
}


class TranslateError(Exception):
	pass


def _strip_doc(body: list[ast.stmt]) -> list[ast.stmt]:
	if body and isinstance(body[0], ast.Expr) and isinstance(body[0].value, ast.Constant) and isinstance(body[0].value.value, str):
		return body[1:]
	return list(body)


def _dump(nodes: list[ast.stmt]) -> str:
	return '\n'.join(ast.dump(n) for n in nodes)


def _modules_class() -> ast.ClassDef:
	with open(os.path.join(REPO, SRC), encoding='utf-8') as f:
		tree = ast.parse(f.read())
	hits = [n for n in tree.body if isinstance(n, ast.ClassDef) and n.name == 'Modules']
	if len(hits) != 1:
		raise TranslateError(f'{SRC}: expected exactly one class Modules')
	return hits[0]


def _method(cls: ast.ClassDef, name: str) -> ast.FunctionDef:
	hits = [n for n in cls.body if isinstance(n, ast.FunctionDef) and n.name == name]
	if len(hits) != 1:
		raise TranslateError(f'{SRC}: expected exactly one method Modules.{name}')
	return hits[0]


def _u(e: ast.AST | None) -> str:
	return ast.unparse(e) if e is not None else ''


def statements(body: list[ast.stmt], p: str) -> list[str]:
	out: list[str] = []
	entry = f'self.__modules[{p}]'
	for st in body:
		at = f'{SRC}:{st.lineno}'
		src = _u(st).splitlines()[0]
		if isinstance(st, ast.If):
			if _u(st.test) != f'{p} not in self.__modules' or st.orelse:
				raise TranslateError(f'{at}: conditional of unknown shape in Modules.load: {src}')
			out.append(f"(.ifUnregistered [{', '.join(statements(st.body, p))}])")
		elif isinstance(st, ast.Try):
			h = st.handlers
			ok = len(h) == 1 and not st.orelse and not st.finalbody and _u(h[0].type) == 'Exception' and h[0].name is None \
				and [_u(x) for x in h[0].body] == [f'self.unload({p})', 'raise']
			if not ok:
				raise TranslateError(f'{at}: the rollback of a failed load is not `except Exception: self.unload({p}); raise` (the model rolls back for EVERY failure): '
					f"{'; '.join(_u(x.type) + ': ' + ', '.join(_u(y) for y in x.body) for x in h)}")
			out.append(f"(.tryRollback [{', '.join(statements(st.body, p))}])")
		elif isinstance(st, ast.Expr) and _u(st) == f'self.__load_libraries({p})':
			out.append('.libraries')
		elif isinstance(st, ast.Assign) and len(st.targets) == 1 and _u(st.targets[0]) == entry and _u(st.value) == f'self.__loader.load(ModulePath({p}, language))':
			out.append('.register')
		elif isinstance(st, ast.Expr) and _u(st) == f'self.__load_dependencies({entry})':
			out.append('.dependencies')
		elif isinstance(st, ast.Expr) and _u(st) == f'self.__loader.preprocess({entry})':
			out.append('.preprocess')
		else:
			raise TranslateError(f'{at}: statement of unknown shape in Modules.load: {src}')
	return out


def read() -> dict[str, Any]:
	cls = _modules_class()
	fn = _method(cls, 'load')
	params = [a.arg for a in fn.args.args]
	if params != ['self', 'module_path', 'language'] or fn.args.vararg or fn.args.kwarg or fn.args.kwonlyargs:
		raise TranslateError(f'{SRC}:{fn.lineno}: Modules.load takes {params}')
	p = 'module_path'
	body = _strip_doc(fn.body)
	if len(body) != 2 or not isinstance(body[0], ast.Try) or _u(body[1]) != f'return self.__modules[{p}]':
		raise TranslateError(f'{SRC}:{fn.lineno}: Modules.load is not `try: .. except ..` followed by `return self.__modules[{p}]`')
	outer = body[0]
	hs = outer.handlers
	ok = len(hs) == 2 and not outer.orelse and not outer.finalbody \
		and _u(hs[0].type) == 'Errors.Error' and [_u(x) for x in hs[0].body] == ['raise'] \
		and _u(hs[1].type) == 'Exception' and len(hs[1].body) == 1 and isinstance(hs[1].body[0], ast.Raise) \
		and isinstance(hs[1].body[0].exc, ast.Call) and _u(hs[1].body[0].exc.func) == 'Errors.Fatal' and _u(hs[1].body[0].cause) == (hs[1].name or '?')
	if not ok:
		raise TranslateError(f'{SRC}:{outer.lineno}: the outer handlers of Modules.load are not `except Errors.Error: raise` / `except Exception as e: raise Errors.Fatal(..) from e`')
	stmts = statements(outer.body, p)
	for name, text in HELPERS.items():
		got = _strip_doc(_method(cls, name).body)
		want = ast.parse(text).body
		if _dump(got) != _dump(want):
			raise TranslateError(f'{SRC}:{_method(cls, name).lineno}: Modules.{name} is no longer\n{text}\nbut\n' + '\n'.join(_u(x) for x in got))
	return {'file': SRC, 'line': fn.lineno, 'stmts': stmts}


def render(rec: dict[str, Any]) -> str:
	return '\n'.join(['/-', '  GENERATED by translate/gen_load_shape.py from rogw/tranp/module/modules.py — do not edit.',
		'  `Modules.load(p)` as the list of its statements (inside `try: .. except Errors.Error: raise / except Exception as e: raise',
		'  Errors.Fatal(..) from e`, before `return self.__modules[p]`), in source order.', '-/', '', 'namespace Tranp.Generated.LoadShape', '',
		'inductive LStmt where', '  /-- `self.__load_libraries(p)` -/', '  | libraries',
		'  /-- `self.__modules[p] = self.__loader.load(ModulePath(p, language))` -/', '  | register',
		'  /-- `self.__load_dependencies(self.__modules[p])` -/', '  | dependencies', '  /-- `self.__loader.preprocess(self.__modules[p])` -/', '  | preprocess',
		'  /-- `if p not in self.__modules: body` -/', '  | ifUnregistered (body : List LStmt)',
		'  /-- `try: body` / `except Exception: self.unload(p); raise` -/', '  | tryRollback (body : List LStmt)', '',
		f"/-- `Modules.load` ({rec['file']}:{rec['line']}) -/", f"def modulesLoad : List LStmt := [{', '.join(rec['stmts'])}]", '', 'end Tranp.Generated.LoadShape', ''])


def generate() -> list[dict[str, Any]]:
	rec = read()
	changed = write_if_changed(OUT, render(rec))
	return [{'file': os.path.relpath(OUT, os.path.dirname(GENERATED_DIR)), 'source': SRC, 'entries': len(rec['stmts']), 'changed': changed, 'program': rec['stmts']}]


if __name__ == '__main__':
	for r in generate():
		print(r)
	sys.exit(0)
