"""Translator for property C13: dumps the evaluated `TokenDefinition()` and the grammar tokenizer definition
(data/syntax/gram_tokenizer.py) plus the enums the lexer code names (TokenTypes, TokenDomains, SpecialSymbols) into
`lean/Tranp/Generated/TokenDef.lean`.

The file is deterministic, committed, and rewritten (only when its content changes) on every run. Anything the generator
does not recognise (a post filter regex outside the supported item language, a non-string alphabet, ...) raises: the tie is
then broken (DESIGN.md §2.3), never silently weakened.
"""
from __future__ import annotations

import os
import re._constants as sre_c  # type: ignore[import-not-found]
import re._parser as sre_p  # type: ignore[import-not-found]
from typing import Any

from harness.common import GENERATED_DIR, write_if_changed

OUT = os.path.join(GENERATED_DIR, 'TokenDef.lean')


class Unsupported(Exception):
	pass


def lchar(c: str) -> str:
	o = ord(c)
	if c == '\\':
		return "'\\\\'"
	if c == "'":
		return "'\\''"
	if c == '\n':
		return "'\\n'"
	if c == '\t':
		return "'\\t'"
	if c == '\r':
		return "'\\r'"
	if 0x20 <= o < 0x7f:
		return f"'{c}'"
	if o < 0x100:
		return f"'\\x{o:02x}'"
	return f'(Char.ofNat {o})'


def lstr(s: str) -> str:
	if not isinstance(s, str):
		raise Unsupported(f'expected str, got {type(s).__name__}')
	return '[' + ', '.join(lchar(c) for c in s) + ']'


def lpairs(pairs: list[dict[str, str]]) -> str:
	out = []
	for p in pairs:
		if set(p.keys()) != {'open', 'close'}:
			raise Unsupported(f'quote pair keys {sorted(p.keys())}')
		out.append(f"({lstr(p['open'])}, {lstr(p['close'])})")
	return '[' + ', '.join(out) + ']'


def regex_items(pattern: str) -> list[tuple[list[str], bool, str]]:
	"""A post filter regex as a sequence of single-character items (chars, negated, quantifier one|star|opt).

	Supported: literals, classes of literals/ranges (optionally negated), and the greedy quantifiers * ? + on one such item.
	The pattern must not match the empty string (every match then removes at least one character, which is what the model's
	`removeMatches` implements for `''.join(re.split(p, s))`)."""
	parsed = sre_p.parse(pattern)
	if parsed.state.flags & ~sre_c.SRE_FLAG_UNICODE:
		raise Unsupported(f'regex flags {parsed.state.flags}')

	def single(op: Any, av: Any) -> tuple[list[str], bool]:
		if op is sre_c.LITERAL:
			return [chr(av)], False
		if op is sre_c.NOT_LITERAL:
			return [chr(av)], True
		if op is sre_c.IN:
			chars: list[str] = []
			neg = False
			for o2, a2 in av:
				if o2 is sre_c.NEGATE:
					neg = True
				elif o2 is sre_c.LITERAL:
					chars.append(chr(a2))
				elif o2 is sre_c.RANGE:
					lo, hi = a2
					if hi - lo > 512:
						raise Unsupported('character range too wide')
					chars.extend(chr(x) for x in range(lo, hi + 1))
				else:
					raise Unsupported(f'class member {o2}')
			return chars, neg
		raise Unsupported(f'regex node {op}')

	items: list[tuple[list[str], bool, str]] = []
	for op, av in parsed.data:
		if op is sre_c.MAX_REPEAT:
			lo, hi, sub = av
			if len(sub.data) != 1:
				raise Unsupported('quantified group')
			chars, neg = single(*sub.data[0])
			if (lo, hi) == (0, sre_c.MAXREPEAT):
				items.append((chars, neg, 'star'))
			elif (lo, hi) == (0, 1):
				items.append((chars, neg, 'opt'))
			elif (lo, hi) == (1, sre_c.MAXREPEAT):
				items.append((chars, neg, 'one'))
				items.append((chars, neg, 'star'))
			else:
				raise Unsupported(f'quantifier {{{lo},{hi}}}')
		else:
			chars, neg = single(op, av)
			items.append((chars, neg, 'one'))
	if not any(q == 'one' for _, _, q in items):
		raise Unsupported('post filter regex can match the empty string')
	return items


def lfilter(definition_cls: Any, flt: Any) -> str:
	if not isinstance(flt, str):
		raise Unsupported(f'post filter {flt!r}')
	if flt == '*':
		return '.all'
	if flt == definition_cls.MatchBeginOrEnd:
		return '.beginOrEnd'
	items = regex_items(flt)
	body = ', '.join(f"⟨{lstr(''.join(chars))}, {'true' if neg else 'false'}, .{q}⟩" for chars, neg, q in items)
	return f'.regex [{body}]'


def ldef(name: str, d: Any, type_values: list[int], doc: str) -> str:
	from rogw.tranp.implements.syntax.tranp.token import TokenDefinition, TokenDomains, TokenTypes
	known = {'analyze_order', 'white_space', 'comment', 'quote', 'number', 'identifier', 'symbol', 'combined_symbols', 'post_filters'}
	if set(vars(d).keys()) != known:
		raise Unsupported(f'TokenDefinition attributes changed: {sorted(set(vars(d).keys()) ^ known)}')
	for dom in d.analyze_order:
		if not isinstance(dom, TokenDomains):
			raise Unsupported(f'analyze_order entry {dom!r}')
	filters = []
	for ty, flt in d.post_filters:
		if not isinstance(ty, TokenTypes):
			raise Unsupported(f'post filter type {ty!r}')
		filters.append(f'({ty.value}, {lfilter(TokenDefinition, flt)})')
	lines = [
		f'/-- {doc} -/',
		f'def {name} : TokenDef where',
		f"  analyzeOrder := [{', '.join(str(dom.value) for dom in d.analyze_order)}]",
		f'  whiteSpace := {lstr(d.white_space)}',
		f'  comment := {lpairs(d.comment)}',
		f'  quote := {lpairs(d.quote)}',
		f'  number := {lstr(d.number)}',
		f'  identifier := {lstr(d.identifier)}',
		f'  symbol := {lstr(d.symbol)}',
		f"  combinedSymbols := [{', '.join(lstr(s) for s in d.combined_symbols)}]",
		f"  postFilters := [{', '.join(filters)}]",
		f"  typeValues := [{', '.join(str(v) for v in type_values)}]",
	]
	return '\n'.join(lines)


def check_source_map_pure() -> int:
	"""`Token.SourceMap.make` is modelled as a pure function `mkMap (source, begin, end)` (Lean: `C13.source_map_pure`).
	That is only right while the real one keeps no state between calls: scan token.py and refuse (→ broken tie) a
	module-level or class-level mutable container, `global` / `nonlocal`, a caching decorator, or a `SourceMap` method that
	reads a module-level variable. Returns the number of definitions scanned."""
	import ast
	from rogw.tranp.implements.syntax.tranp import token as token_module
	path = token_module.__file__
	with open(path, encoding='utf-8') as f:
		tree = ast.parse(f.read())
	containers = (ast.List, ast.Dict, ast.Set, ast.ListComp, ast.DictComp, ast.SetComp)
	container_calls = {'list', 'dict', 'set', 'defaultdict', 'OrderedDict', 'deque', 'Counter', 'bytearray'}

	def mutable(value: ast.AST | None) -> bool:
		if value is None:
			return False
		if isinstance(value, containers):
			return True
		if isinstance(value, ast.Call):
			fn = value.func
			name = fn.id if isinstance(fn, ast.Name) else fn.attr if isinstance(fn, ast.Attribute) else ''
			return name in container_calls
		return False

	def assigned(body: list[ast.stmt], where: str) -> set[str]:
		names: set[str] = set()
		for st in body:
			targets: list[ast.expr] = []
			value = None
			if isinstance(st, ast.Assign):
				targets, value = st.targets, st.value
			elif isinstance(st, ast.AnnAssign):
				targets, value = [st.target], st.value
			elif isinstance(st, ast.AugAssign):
				targets, value = [st.target], st.value
			for t in targets:
				for n in ast.walk(t):
					if isinstance(n, ast.Name):
						names.add(n.id)
			if mutable(value):
				raise Unsupported(f'{where}: mutable container state `{ast.unparse(st)[:80]}` (Token.SourceMap.make is modelled as a pure function)')
		return names

	module_vars = assigned(tree.body, 'token.py module level')
	for n in ast.walk(tree):
		if isinstance(n, (ast.Global, ast.Nonlocal)):
			raise Unsupported(f'token.py uses `{ast.unparse(n)}`: hidden state')
	scanned = 0
	token_cls = next((n for n in tree.body if isinstance(n, ast.ClassDef) and n.name == 'Token'), None)
	if token_cls is None:
		raise Unsupported('class Token not found in token.py')
	assigned(token_cls.body, 'class Token')
	sm_cls = next((n for n in token_cls.body if isinstance(n, ast.ClassDef) and n.name == 'SourceMap'), None)
	if sm_cls is None:
		raise Unsupported('class Token.SourceMap not found')
	# NamedTuple field declarations are annotations without value; anything with a container value is refused
	assigned(sm_cls.body, 'class Token.SourceMap')
	for fn in sm_cls.body:
		if not isinstance(fn, ast.FunctionDef):
			continue
		scanned += 1
		for dec in fn.decorator_list:
			text = ast.unparse(dec)
			if 'cache' in text.lower() or 'memo' in text.lower():
				raise Unsupported(f'Token.SourceMap.{fn.name} has a caching decorator `{text}`')
		for n in ast.walk(fn):
			if isinstance(n, ast.Name) and n.id in module_vars:
				raise Unsupported(f'Token.SourceMap.{fn.name} reads the module-level variable `{n.id}`: hidden state')
			if isinstance(n, ast.Attribute) and isinstance(n.value, ast.Name) and n.value.id == 'cls' and isinstance(n.ctx, ast.Store):
				raise Unsupported(f'Token.SourceMap.{fn.name} assigns to `cls.{n.attr}`: hidden state')
	return scanned


def render() -> tuple[str, int]:
	from data.syntax.gram_tokenizer import gram_tokenizer
	from rogw.tranp.implements.syntax.tranp.token import SpecialSymbols, TokenDefinition, TokenDomains, TokenTypes

	# enum members including aliases (BeginCombine = MinusEqual, Max = Symbol)
	types = [(n, m.value) for n, m in TokenTypes.__members__.items()]
	doms = [(n, m.value) for n, m in TokenDomains.__members__.items()]
	specials = [(n, m.value) for n, m in SpecialSymbols.__members__.items()]
	for _, v in types + doms:
		if not isinstance(v, int) or v < 0:
			raise Unsupported(f'enum value {v!r}')
	type_values = sorted({v for _, v in types})
	py = TokenDefinition()
	gram = gram_tokenizer()._definition
	pure_methods = check_source_map_pure()
	parts = [
		'/-',
		'  GENERATED by verif/translate/gen_token_def.py — do not edit.',
		'  Source: rogw/tranp/implements/syntax/tranp/token.py (TokenDefinition(), TokenTypes, TokenDomains, SpecialSymbols)',
		'          data/syntax/gram_tokenizer.py (gram_tokenizer()._definition)',
		f'  Token.SourceMap purity scan: {pure_methods} methods, no module/class-level mutable state, no global/nonlocal, no caching decorator',
		'-/',
		'import Tranp.Model.Lexer',
		'',
		'namespace Tranp.Generated.TokenDef',
		'open Tranp Tranp.Lexer',
		'',
		'/-- `TokenTypes.__members__` (aliases included). -/',
		'def tokenTypes : List (Str × Nat) := [',
		',\n'.join(f'  ({lstr(n)}, {v})' for n, v in types),
		']',
		'',
		'/-- `TokenDomains.__members__`. -/',
		'def tokenDomains : List (Str × Nat) := [',
		',\n'.join(f'  ({lstr(n)}, {v})' for n, v in doms),
		']',
		'',
		'/-- `SpecialSymbols.__members__`. -/',
		'def specialSymbols : List (Str × Str) := [',
		',\n'.join(f'  ({lstr(n)}, {lstr(v)})' for n, v in specials),
		']',
		'',
		ldef('pyDef', py, type_values, '`TokenDefinition()` — the definition `Tokenizer()` uses for Python sources.'),
		'',
		ldef('gramDef', gram, type_values, '`gram_tokenizer()._definition` — the definition used for grammar files.'),
		'',
		'end Tranp.Generated.TokenDef',
		'',
	]
	entries = len(types) + len(doms) + len(specials) + sum(
		len(d.analyze_order) + len(d.comment) + len(d.quote) + len(d.combined_symbols) + len(d.post_filters) + 4 for d in (py, gram))
	return '\n'.join(parts), entries


def generate() -> list[dict[str, Any]]:
	content, entries = render()
	changed = write_if_changed(OUT, content)
	return [{'file': os.path.relpath(OUT, os.path.dirname(GENERATED_DIR)), 'entries': entries, 'changed': changed,
		'source': ['rogw/tranp/implements/syntax/tranp/token.py', 'data/syntax/gram_tokenizer.py']}]
