"""Translator for property C13: reads the CONTROL FLOW of three functions of rogw/tranp/implements/syntax/tranp/tokenizer.py
from their source text (ast) and writes it as data into `lean/Tranp/Generated/LexerShape.lean`:

  * `Lexer.parse_symbol`           — `for i in range(n)`: per round the window width (`end = begin + ...`), what the guard
                                     "window does not fit" and the guard "not a combined symbol" do (`continue` / `break`);
  * `Tokenizer.handle_white_space` — per emitting branch (EOF / deeper / shallower / same): index advance, assignment to
                                     `context.nest`, returned token list incl. the DEDENT multiplier;
  * `Tokenizer.handle_symbol`      — which token types raise / lower `context.enclosure`.

Everything else in these functions (guards, the order of evaluation, the statements around the extracted parts) is compared
with the exact text the Lean model was written from; a function that does not have the expected shape raises `Unsupported`
(= broken tie, DESIGN.md §2.3) — nothing is skipped. `Props/C13.lean` proves the hand model equal to the table-driven
interpreters of `Model/LexerShape.lean` on the generated tables, so a changed loop exit or multiplier is a failed obligation.
"""
from __future__ import annotations

import ast
import os
from typing import Any

from harness.common import GENERATED_DIR, write_if_changed

OUT = os.path.join(GENERATED_DIR, 'LexerShape.lean')


class Unsupported(Exception):
	pass


def _fn(cls: ast.ClassDef, name: str) -> ast.FunctionDef:
	for n in cls.body:
		if isinstance(n, ast.FunctionDef) and n.name == name:
			return n
	raise Unsupported(f'{cls.name}.{name} not found')


def _body(fn: ast.FunctionDef) -> list[ast.stmt]:
	body = list(fn.body)
	if body and isinstance(body[0], ast.Expr) and isinstance(body[0].value, ast.Constant) and isinstance(body[0].value.value, str):
		body = body[1:]
	return body


def _expect(where: str, node: ast.AST | list[ast.stmt], text: str) -> None:
	got = '\n'.join(ast.unparse(n) for n in node) if isinstance(node, list) else ast.unparse(node)
	if got != text:
		raise Unsupported(f'{where}: expected `{text}`, found `{got}`')


def _exit(where: str, body: list[ast.stmt]) -> str:
	if len(body) == 1 and isinstance(body[0], ast.Continue):
		return '.next'
	if len(body) == 1 and isinstance(body[0], ast.Break):
		return '.stop'
	raise Unsupported(f"{where}: guard body is neither `continue` nor `break`: `{'; '.join(ast.unparse(s) for s in body)}`")


def _linear(where: str, expr: ast.expr, env: dict[str, int]) -> int:
	"""Evaluate an integer expression over + - and the given names."""
	if isinstance(expr, ast.Constant) and isinstance(expr.value, int) and not isinstance(expr.value, bool):
		return expr.value
	if isinstance(expr, ast.Name) and expr.id in env:
		return env[expr.id]
	if isinstance(expr, ast.BinOp) and isinstance(expr.op, (ast.Add, ast.Sub)):
		a, b = _linear(where, expr.left, env), _linear(where, expr.right, env)
		return a + b if isinstance(expr.op, ast.Add) else a - b
	raise Unsupported(f'{where}: window end is not a +/- expression over begin and i: `{ast.unparse(expr)}`')


def parse_symbol_shape(lexer: ast.ClassDef) -> list[tuple[int, str, str]]:
	fn = _fn(lexer, 'parse_symbol')
	_expect('parse_symbol signature', fn.args, 'self, source: str, begin: int')
	body = _body(fn)
	if not body or not isinstance(body[0], ast.For):
		raise Unsupported('parse_symbol: first statement is not the window loop')
	loop = body[0]
	_expect('parse_symbol loop target', loop.target, 'i')
	it = loop.iter
	if not (isinstance(it, ast.Call) and ast.unparse(it.func) == 'range' and len(it.args) == 1 and not it.keywords
			and isinstance(it.args[0], ast.Constant) and isinstance(it.args[0].value, int) and 0 <= it.args[0].value <= 8) or loop.orelse:
		raise Unsupported(f'parse_symbol: loop is not `for i in range(<small constant>)`: `{ast.unparse(it)}`')
	rounds = it.args[0].value
	lb = loop.body
	if len(lb) != 7:
		raise Unsupported(f'parse_symbol: loop body has {len(lb)} statements, expected 7')
	# end = <begin + width(i)>
	if not (isinstance(lb[0], ast.Assign) and len(lb[0].targets) == 1 and ast.unparse(lb[0].targets[0]) == 'end'):
		raise Unsupported(f'parse_symbol: first loop statement is not `end = ...`: `{ast.unparse(lb[0])}`')
	widths = []
	for i in range(rounds):
		w0, w1 = _linear('parse_symbol', lb[0].value, {'begin': 0, 'i': i}), _linear('parse_symbol', lb[0].value, {'begin': 1000, 'i': i})
		if w1 - w0 != 1000 or w0 < 1:
			raise Unsupported(f'parse_symbol: `end` is not begin + a positive width: `{ast.unparse(lb[0].value)}`')
		widths.append(w0)
	# if end - 1 >= len(source): continue|break
	if not (isinstance(lb[1], ast.If) and not lb[1].orelse):
		raise Unsupported('parse_symbol: the fit guard is not a plain `if`')
	_expect('parse_symbol fit guard', lb[1].test, 'end - 1 >= len(source)')
	misfit = _exit('parse_symbol fit guard', lb[1].body)
	_expect('parse_symbol loop', lb[2:4], 'value = source[begin:end]\noffset = index_of(self._definition.combined_symbols, value)')
	if not (isinstance(lb[4], ast.If) and not lb[4].orelse):
		raise Unsupported('parse_symbol: the table guard is not a plain `if`')
	_expect('parse_symbol table guard', lb[4].test, 'offset == -1')
	not_found = _exit('parse_symbol table guard', lb[4].body)
	_expect('parse_symbol loop', lb[5:7], 'token_type = TokenTypes(TokenTypes.BeginCombine.value + offset)\n'
		'return (end, Token(token_type, value, Token.SourceMap.make(source, begin, end)))')
	_expect('parse_symbol after the loop', body[1:], '\n'.join([
		'value = source[begin]',
		'base = TokenDomains.Symbol.value << 4',
		'offset = self._definition.symbol.index(value)',
		'token_type = TokenTypes(base + offset)',
		'end = begin + 1',
		'if token_type == TokenTypes.Minus and end < len(source) and (not self.analyze_white_spece(source, end)):\n'
		'    return (end, Token.op_unary_minus(Token.SourceMap.make(source, begin, end)))',
		'return (end, Token(token_type, value, Token.SourceMap.make(source, begin, end)))',
	]))
	return [(w, misfit, not_found) for w in widths]


COUNTS = {'context.nest': '.nest', 'context.nest - next_nest': '.diff'}
ITEMS = {'token.to_new_line()': '.newLine', 'token.to_indent()': '.indent', 'token.to_dedent()': '.dedent .one'}


def branch_shape(where: str, body: list[ast.stmt]) -> tuple[str, str, list[str]]:
	"""[dedents = [token.to_dedent()] * K]  [context.nest = V]  return begin + A, [items]"""
	stmts = list(body)
	dedents: str | None = None
	if stmts and isinstance(stmts[0], ast.Assign) and ast.unparse(stmts[0].targets[0]) == 'dedents' and len(stmts[0].targets) == 1:
		v = stmts[0].value
		if not (isinstance(v, ast.BinOp) and isinstance(v.op, ast.Mult) and ast.unparse(v.left) == '[token.to_dedent()]' and ast.unparse(v.right) in COUNTS):
			raise Unsupported(f'{where}: `dedents` is not `[token.to_dedent()] * <known count>`: `{ast.unparse(v)}`')
		dedents = f'.dedent {COUNTS[ast.unparse(v.right)]}'
		stmts = stmts[1:]
	set_nest = '.keep'
	if stmts and isinstance(stmts[0], ast.Assign) and len(stmts[0].targets) == 1 and ast.unparse(stmts[0].targets[0]) == 'context.nest':
		v = ast.unparse(stmts[0].value)
		if v not in ('0', 'next_nest'):
			raise Unsupported(f'{where}: context.nest is assigned `{v}`')
		set_nest = '.zero' if v == '0' else '.next'
		stmts = stmts[1:]
	if not (len(stmts) == 1 and isinstance(stmts[0], ast.Return) and isinstance(stmts[0].value, ast.Tuple) and len(stmts[0].value.elts) == 2):
		raise Unsupported(f"{where}: branch does not end in `return <index>, <list>` right after the assignments: `{'; '.join(ast.unparse(s) for s in stmts)}`")
	idx, lst = stmts[0].value.elts
	adv = {'begin + 1': '.one', 'begin + len(token.string)': '.strLen'}.get(ast.unparse(idx))
	if adv is None:
		raise Unsupported(f'{where}: returned index `{ast.unparse(idx)}`')
	if not isinstance(lst, ast.List):
		raise Unsupported(f'{where}: returned tokens are not a list display: `{ast.unparse(lst)}`')
	items = []
	for e in lst.elts:
		text = ast.unparse(e)
		if text in ITEMS:
			items.append(ITEMS[text])
		elif text == '*dedents' and dedents is not None:
			items.append(dedents)
		else:
			raise Unsupported(f'{where}: returned list element `{text}`')
	return adv, set_nest, items


def handle_white_space_shape(tokenizer: ast.ClassDef) -> dict[str, tuple[str, str, list[str]]]:
	fn = _fn(tokenizer, 'handle_white_space')
	_expect('handle_white_space signature', fn.args, 'self, context: Context, tokens: list[Token], begin: int')
	body = _body(fn)
	if len(body) != 6:
		raise Unsupported(f'handle_white_space: {len(body)} statements, expected 6')
	_expect('handle_white_space', body[0], 'token = tokens[begin]')
	first = body[1]
	# if context.enclosure > 0: return begin + 1, []  elif WhiteSpace: same  elif EOF: <branch>
	if not isinstance(first, ast.If):
		raise Unsupported('handle_white_space: second statement is not the if chain')
	_expect('handle_white_space guard 1', first.test, 'context.enclosure > 0')
	_expect('handle_white_space guard 1', first.body, 'return (begin + 1, [])')
	if not (len(first.orelse) == 1 and isinstance(first.orelse[0], ast.If)):
		raise Unsupported('handle_white_space: if chain shape')
	second = first.orelse[0]
	_expect('handle_white_space guard 2', second.test, 'token.type == TokenTypes.WhiteSpace')
	_expect('handle_white_space guard 2', second.body, 'return (begin + 1, [])')
	if not (len(second.orelse) == 1 and isinstance(second.orelse[0], ast.If) and not second.orelse[0].orelse):
		raise Unsupported('handle_white_space: if chain shape (EOF)')
	third = second.orelse[0]
	_expect('handle_white_space guard 3', third.test, 'token.type == TokenTypes.EOF')
	out = {'eof': branch_shape('handle_white_space EOF branch', third.body)}
	_expect('handle_white_space', body[2:5], '\n'.join([
		'assert token.type == TokenTypes.LineBreak, Errors.Never(token.type)',
		"indent = len(token.string.split('\\n')[-1])",
		'next_nest = context.to_nest(indent)',
	]))
	last = body[5]
	if not isinstance(last, ast.If):
		raise Unsupported('handle_white_space: last statement is not the nest comparison')
	_expect('handle_white_space deeper guard', last.test, 'context.nest < next_nest')
	out['deeper'] = branch_shape('handle_white_space deeper branch', last.body)
	if not (len(last.orelse) == 1 and isinstance(last.orelse[0], ast.If)):
		raise Unsupported('handle_white_space: nest comparison shape')
	el = last.orelse[0]
	_expect('handle_white_space shallower guard', el.test, 'context.nest > next_nest')
	out['shallower'] = branch_shape('handle_white_space shallower branch', el.body)
	out['same'] = branch_shape('handle_white_space same branch', el.orelse)
	return out


def handle_symbol_shape(tokenizer: ast.ClassDef, token_types: Any) -> tuple[list[int], list[int]]:
	fn = _fn(tokenizer, 'handle_symbol')
	body = _body(fn)
	if len(body) != 3 or not isinstance(body[1], ast.If):
		raise Unsupported('handle_symbol: expected `token = ...`, one if/elif, `return`')
	_expect('handle_symbol', body[0], 'token = tokens[begin]')
	_expect('handle_symbol', body[2], 'return (begin + 1, [tokens[begin]])')

	def arm(where: str, node: ast.If, effect: str) -> list[int]:
		t = node.test
		if not (isinstance(t, ast.Compare) and ast.unparse(t.left) == 'token.type' and len(t.ops) == 1 and isinstance(t.ops[0], ast.In)
				and isinstance(t.comparators[0], ast.List)):
			raise Unsupported(f'{where}: test is not `token.type in [...]`: `{ast.unparse(t)}`')
		_expect(where, node.body, effect)
		values = []
		for e in t.comparators[0].elts:
			if not (isinstance(e, ast.Attribute) and ast.unparse(e.value) == 'TokenTypes' and e.attr in token_types.__members__):
				raise Unsupported(f'{where}: `{ast.unparse(e)}` is not a TokenTypes member')
			values.append(token_types[e.attr].value)
		return values

	first = body[1]
	opens = arm('handle_symbol openers', first, 'context.enclosure += 1')
	if not (len(first.orelse) == 1 and isinstance(first.orelse[0], ast.If) and not first.orelse[0].orelse):
		raise Unsupported('handle_symbol: expected exactly one `elif` without `else`')
	closes = arm('handle_symbol closers', first.orelse[0], 'context.enclosure -= 1')
	return opens, closes


def render() -> tuple[str, int]:
	from rogw.tranp.implements.syntax.tranp import tokenizer as tokenizer_module
	from rogw.tranp.implements.syntax.tranp.token import TokenTypes
	path = tokenizer_module.__file__
	with open(path, encoding='utf-8') as f:
		tree = ast.parse(f.read())
	classes = {n.name: n for n in tree.body if isinstance(n, ast.ClassDef)}
	for name in ('Lexer', 'Tokenizer'):
		if name not in classes:
			raise Unsupported(f'class {name} not found in tokenizer.py')
	windows = parse_symbol_shape(classes['Lexer'])
	ws = handle_white_space_shape(classes['Tokenizer'])
	opens, closes = handle_symbol_shape(classes['Tokenizer'], TokenTypes)

	def branch(b: tuple[str, str, list[str]]) -> str:
		items = ', '.join(b[2])
		return f'⟨{b[0]}, {b[1]}, [{items}]⟩'

	parts = [
		'/-',
		'  GENERATED by verif/translate/gen_lexer_shape.py — do not edit.',
		'  Source: rogw/tranp/implements/syntax/tranp/tokenizer.py (Lexer.parse_symbol, Tokenizer.handle_white_space,',
		'          Tokenizer.handle_symbol) read as ast; every statement outside the extracted parts is compared with the text',
		'          the model was written from.',
		'-/',
		'import Tranp.Model.LexerShape',
		'',
		'namespace Tranp.Generated.LexerShape',
		'open Tranp Tranp.Lexer',
		'',
		'/-- the rounds of `for i in range(n)` in `parse_symbol`: width, fit guard exit, table guard exit -/',
		'def symbolWindows : List SymWindow := [' + ', '.join(f'⟨{w}, {a}, {b}⟩' for w, a, b in windows) + ']',
		'',
		'/-- the emitting branches of `handle_white_space`: index advance, `context.nest` assignment, returned list -/',
		'def wsShape : WsShape where',
		f"  eof := {branch(ws['eof'])}",
		f"  deeper := {branch(ws['deeper'])}",
		f"  shallower := {branch(ws['shallower'])}",
		f"  same := {branch(ws['same'])}",
		'',
		'/-- `handle_symbol`: the types that raise / lower `context.enclosure` -/',
		'def enclosureOpen : List Nat := [' + ', '.join(str(v) for v in opens) + ']',
		'def enclosureClose : List Nat := [' + ', '.join(str(v) for v in closes) + ']',
		'',
		'end Tranp.Generated.LexerShape',
		'',
	]
	entries = len(windows) + sum(1 + len(b[2]) for b in ws.values()) + len(opens) + len(closes)
	return '\n'.join(parts), entries


def generate() -> list[dict[str, Any]]:
	content, entries = render()
	changed = write_if_changed(OUT, content)
	return [{'file': os.path.relpath(OUT, os.path.dirname(GENERATED_DIR)), 'entries': entries, 'changed': changed,
		'source': ['rogw/tranp/implements/syntax/tranp/tokenizer.py']}]


if __name__ == '__main__':
	print(render()[0])
