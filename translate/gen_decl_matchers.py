"""Translator: `DeclableMatcher` of rogw/tranp/syntax/node/definition/primary.py -> lean/Tranp/Generated/DeclMatchers.lean (C02).

The path patterns by which a `var` / `name` / `getattr` node is recognised as a declaration are string constants inside the
bodies of the `is_decl_*` / `is_param*` / `in_decl_*` class methods. Each method is read with `ast`; its body with the string
constants blanked out must be EXACTLY the skeleton this translator was written against (sha256 of `ast.dump`), otherwise the
logic changed and the hand-modelled predicate of lean/Tranp/Model/Classify.lean no longer describes it: TranslateError
(-> "the tie is broken", never success). The string constants themselves are emitted as Lean data and are what the model's
predicates compare against, so an edited tag name / word changes the model and re-checks the theorems.
"""
from __future__ import annotations

import ast
import hashlib
import os
from typing import Any

from harness.common import GENERATED_DIR, REPO, write_if_changed
from translate.gen_grammar_ladder import chars

SOURCE = os.path.join(REPO, 'rogw', 'tranp', 'syntax', 'node', 'definition', 'primary.py')
OUT = os.path.join(GENERATED_DIR, 'DeclMatchers.lean')


class TranslateError(Exception):
	pass


# method -> sha256 of ast.dump(body without doc string, string constants replaced by '<S>')
SKELETONS = {
	'is_decl_class_var': '1045a91f0288adb6181ef303e594f6b8014de6ef5c6f6f75b088e6aba7a8d05c',
	'is_decl_this_var_forward': '2e68edb564d109e3832e0d1fadd7c8c29cfd036e45fe501dd3fefb53fe85e89a',
	'is_decl_this_var': '76a79ee0fc0eba69a24a40d135c5f255a68a703d2b9452b5a93764d3cb5822de',
	'is_param_class': '6130f4553ad304384d720506f8e7fabbf20b277ecce54ffeb665dda704128f62',
	'is_param_this': 'bf7d8efad0d20873e581e1c7e39a0c55e102ad7c1cc1f9f5fb7a69ee5b1c54b9',
	'is_param': 'dd64203745910a171cab533ecd21315702deb6bf7a32e3e4e341ee8c74f3f641',
	'is_decl_local_var': 'a9df488d77e765a99aa5f58df1acf5b9070ee42747589d5ea900648d15143b06',
	'in_decl_class_type': '02a87a34aa7a1a584f884049acf190d918a1bfd102d99d4742849ddb0b992b22',
	'in_decl_alt_class_type': '1bf1336a07bf9751cd98bb391559419464a9a831ad59e33d6de8d7d0e6f047af',
	'in_decl_import': 'abd80107292db62b2d18d3f65cfc1f434acf8cbfc86802c33a715e0f9babf658',
}


def read_methods(src: str) -> dict[str, tuple[str, list[str]]]:
	tree = ast.parse(src)
	classes = [n for n in tree.body if isinstance(n, ast.ClassDef) and n.name == 'DeclableMatcher']
	if len(classes) != 1:
		raise TranslateError('class DeclableMatcher not found exactly once')
	out: dict[str, tuple[str, list[str]]] = {}
	for fn in classes[0].body:
		if not isinstance(fn, ast.FunctionDef):
			continue
		body = [s for s in fn.body if not (isinstance(s, ast.Expr) and isinstance(s.value, ast.Constant) and isinstance(s.value.value, str))]
		consts: list[str] = []

		class Blank(ast.NodeTransformer):
			def visit_Constant(self, n: ast.Constant) -> ast.AST:  # noqa: N802
				if isinstance(n.value, str):
					consts.append(n.value)
					return ast.Constant(value='<S>')
				return n
		mod = ast.Module(body=[Blank().visit(s) for s in body], type_ignores=[])
		out[fn.name] = (hashlib.sha256(ast.dump(mod).encode()).hexdigest(), consts)
	return out


def recognise(methods: dict[str, tuple[str, list[str]]]) -> dict[str, Any]:
	extra = set(methods) - set(SKELETONS)
	if extra:
		raise TranslateError(f'DeclableMatcher has methods this translator does not know: {sorted(extra)}')
	c: dict[str, list[str]] = {}
	for name, want in SKELETONS.items():
		if name not in methods:
			raise TranslateError(f'DeclableMatcher.{name} missing')
		digest, consts = methods[name]
		if digest != want:
			raise TranslateError(f'DeclableMatcher.{name}: the logic differs from the modelled skeleton (digest {digest[:16]} != {want[:16]})')
		c[name] = consts

	def need(cond: bool, what: str) -> None:
		if not cond:
			raise TranslateError(what)
	t: dict[str, Any] = {}
	t['classVarParents'] = [s.split('.') for s in c['is_decl_class_var']]
	need(all(len(p) == 2 for p in t['classVarParents']), 'is_decl_class_var: suffixes are not two dotted tags')
	f = c['is_decl_this_var_forward']
	need(len(f) == 4 and f[0] == f[1], 'is_decl_this_var_forward: constants')
	t['forwardScope'], t['forwardAssign'], t['forwardNamelist'] = f[0], f[2], f[3]
	v = c['is_decl_this_var']
	need(len(v) == 7, 'is_decl_this_var: constants')
	t['thisScope'], t['thisNamePath'], t['ctorName'], t['thisAssigns'], t['thisNamelist'], t['selfWord'] = v[0], v[1].split('.'), v[2], v[3:5], v[5], v[6]
	pc, pt, pp = c['is_param_class'], c['is_param_this'], c['is_param']
	need(len(pc) == 2 and len(pt) == 2 and len(pp) == 3 and pc[0] == pt[0] == pp[0] and pp[1:] == [pc[1], pt[1]], 'is_param*: constants disagree')
	t['paramParent'], t['clsWord'], t['selfParamWord'] = pc[0], pc[1], pt[1]
	lv = c['is_decl_local_var']
	need(len(lv) == 12 and lv[7] == '' and lv[8] == '', 'is_decl_local_var: constants')
	t['nameOnlyParents'], t['nameTag'], t['localExcluded'], t['localAssigns'], t['localNamelist'] = lv[0:4], lv[4], lv[5:7], lv[9:11], lv[11]
	t['classTypeParents'] = c['in_decl_class_type']
	a = c['in_decl_alt_class_type']
	need(len(a) == 3, 'in_decl_alt_class_type: constants')
	t['altNamelist'], t['altAssigns'] = a[0], a[1:]
	need(len(c['in_decl_import']) == 1, 'in_decl_import: constants')
	t['importParent'] = c['in_decl_import'][0]
	return t


def render(t: dict[str, Any], sha: str) -> str:
	def lst(xs: list[str]) -> str:
		return '[' + ', '.join(chars(x) for x in xs) + ']'
	out = [
		'/-',
		'  GENERATED by verif/translate/gen_decl_matchers.py from rogw/tranp/syntax/node/definition/primary.py (DeclableMatcher) — do not edit.',
		f'  source sha256 = {sha}',
		'-/',
		'import Tranp.Str',
		'',
		'namespace Tranp.Generated.DeclMatchers',
		'open Tranp',
		'',
		'/-- `is_decl_class_var`: the last two tags of the parent path -/',
		'def classVarParents : List (List Str) := [' + ', '.join(lst(p) for p in t['classVarParents']) + ']',
		'/-- `is_decl_this_var_forward`: scope tag five up, statement tag three up, name list two up -/',
		f"def forwardScope : Str := {chars(t['forwardScope'])}",
		f"def forwardAssign : Str := {chars(t['forwardAssign'])}",
		f"def forwardNamelist : Str := {chars(t['forwardNamelist'])}",
		'/-- `is_decl_this_var` -/',
		f"def thisScope : Str := {chars(t['thisScope'])}",
		f"def thisNamePath : List Str := {lst(t['thisNamePath'])}",
		f"def ctorName : Str := {chars(t['ctorName'])}",
		f"def thisAssigns : List Str := {lst(t['thisAssigns'])}",
		f"def thisNamelist : Str := {chars(t['thisNamelist'])}",
		f"def selfWord : Str := {chars(t['selfWord'])}",
		'/-- `is_param_class` / `is_param_this` / `is_param` -/',
		f"def paramParent : Str := {chars(t['paramParent'])}",
		f"def clsWord : Str := {chars(t['clsWord'])}",
		f"def selfParamWord : Str := {chars(t['selfParamWord'])}",
		'/-- `is_decl_local_var` -/',
		f"def nameOnlyParents : List Str := {lst(t['nameOnlyParents'])}",
		f"def nameTag : Str := {chars(t['nameTag'])}",
		f"def localExcluded : List Str := {lst(t['localExcluded'])}",
		f"def localAssigns : List Str := {lst(t['localAssigns'])}",
		f"def localNamelist : Str := {chars(t['localNamelist'])}",
		'/-- `in_decl_class_type`, `in_decl_alt_class_type`, `in_decl_import` -/',
		f"def classTypeParents : List Str := {lst(t['classTypeParents'])}",
		f"def altNamelist : Str := {chars(t['altNamelist'])}",
		f"def altAssigns : List Str := {lst(t['altAssigns'])}",
		f"def importParent : Str := {chars(t['importParent'])}",
		'',
		'end Tranp.Generated.DeclMatchers',
		'',
	]
	return '\n'.join(out)


def generate() -> list[dict[str, Any]]:
	with open(SOURCE, encoding='utf-8') as f:
		src = f.read()
	t = recognise(read_methods(src))
	sha = hashlib.sha256(src.encode('utf-8')).hexdigest()
	changed = write_if_changed(OUT, render(t, sha))
	return [{'file': os.path.relpath(OUT, os.path.dirname(GENERATED_DIR)), 'source': 'rogw/tranp/syntax/node/definition/primary.py (DeclableMatcher)',
		'sha256': sha, 'entries': 10, 'changed': changed}]


if __name__ == '__main__':
	for rec in generate():
		print(rec)
