"""Translator for property C14: the STATE of SymbolDB and ReflectionSerializer, read from the source.

The Lean model of export / import is a function of `Table = (items, completed)` and of the rows. That is only the truth about the
code if the two classes have no other state — no memo, no cache, no counter. This generator reads the AST of
rogw/tranp/semantics/reflection/db.py and serializer.py (never imports them) and writes `lean/Tranp/Generated/SymbolDbState.lean`:

* `dbFields` / `serializerFields`       — the instance attributes assigned in `__init__`
* `dbMutators` / `serializerMutators`   — per method, the fields it writes (item store / delete, mutating call, `self[...] = …`) and the
                                          arguments it changes in place (`arg:<name>`)

Props/C14.lean states what the model relies on (`state_is_modelled`): exactly the three fields, `__paths` and `__items` written by
the same methods, the export side (`to_json`, `_order_keys`, `_order_keys_recursive`, `serialize`, …) writes nothing.

Anything that could hold state elsewhere is an error (the tie is broken): an attribute of `self` assigned outside `__init__`,
module- or class-level variables, `global` / `nonlocal`, mutable default arguments, caching decorators, a second class.
"""
from __future__ import annotations

import ast
import os
from typing import Any

from harness.common import GENERATED_DIR, REPO, write_if_changed

OUT = os.path.join(GENERATED_DIR, 'SymbolDbState.lean')
MUTATING_CALLS = {'append', 'remove', 'pop', 'clear', 'update', 'add', 'insert', 'extend', 'setdefault', 'popitem', 'discard', 'sort', 'reverse', '__setitem__', '__delitem__'}


class TranslateError(Exception):
	pass


def lean_chars(s: str) -> str:
	if not all(32 <= ord(c) < 127 and c not in "'\\" for c in s):
		raise TranslateError(f'unexpected character in {s!r}')
	return '[' + ', '.join(f"'{c}'" for c in s) + ']'


def self_attr(node: ast.AST) -> str | None:
	"""`self.<attr>` → attr"""
	if isinstance(node, ast.Attribute) and isinstance(node.value, ast.Name) and node.value.id == 'self':
		return node.attr
	return None


def scan_class(path: str, cls_name: str) -> tuple[list[str], list[tuple[str, list[str]]]]:
	with open(os.path.join(REPO, path), encoding='utf-8') as f:
		tree = ast.parse(f.read())
	classes = []
	for n in tree.body:
		if isinstance(n, (ast.Import, ast.ImportFrom)):
			continue
		if isinstance(n, ast.Expr) and isinstance(n.value, ast.Constant):
			continue
		if isinstance(n, ast.ClassDef):
			classes.append(n)
			continue
		raise TranslateError(f'{path}:{n.lineno}: module-level statement {type(n).__name__} (possible module state)')
	if [c.name for c in classes] != [cls_name]:
		raise TranslateError(f'{path}: expected exactly the class {cls_name}, found {[c.name for c in classes]}')
	cls = classes[0]
	fields: list[str] = []
	mutators: list[tuple[str, list[str]]] = []
	for m in cls.body:
		if isinstance(m, ast.Expr) and isinstance(m.value, ast.Constant):
			continue
		if not isinstance(m, ast.FunctionDef):
			raise TranslateError(f'{path}:{m.lineno}: class-level statement {type(m).__name__} (possible class state)')
		for d in m.decorator_list:
			text = ast.unparse(d).lower()
			if 'cache' in text or 'lru' in text or 'memo' in text:
				raise TranslateError(f'{path}:{m.lineno}: caching decorator {ast.unparse(d)} on {m.name}')
		for default in [*m.args.defaults, *m.args.kw_defaults]:
			if default is not None and not isinstance(default, ast.Constant):
				raise TranslateError(f'{path}:{m.lineno}: non-constant default argument of {m.name} (shared between calls)')
		written: list[str] = []
		params = {a.arg for a in [*m.args.posonlyargs, *m.args.args, *m.args.kwonlyargs] if a.arg != 'self'}

		def write(field: str) -> None:
			if field not in written:
				written.append(field)
		for n in ast.walk(m):
			if isinstance(n, (ast.Global, ast.Nonlocal)):
				raise TranslateError(f'{path}:{n.lineno}: {type(n).__name__.lower()} in {m.name}')
			targets: list[ast.AST] = []
			if isinstance(n, ast.Assign):
				targets = list(n.targets)
			elif isinstance(n, (ast.AugAssign, ast.AnnAssign)):
				targets = [n.target]
			elif isinstance(n, ast.Delete):
				targets = list(n.targets)
			for t in targets:
				for tt in (t.elts if isinstance(t, (ast.Tuple, ast.List)) else [t]):
					a = self_attr(tt)
					if a is not None:
						if m.name != '__init__':
							raise TranslateError(f'{path}:{n.lineno}: {m.name} assigns self.{a} (state outside __init__)')
						if isinstance(n, ast.Delete):
							raise TranslateError(f'{path}:{n.lineno}: __init__ deletes self.{a}')
						fields.append(a)
					elif isinstance(tt, ast.Subscript):
						base = tt.value
						fa = self_attr(base)
						if fa is not None:
							write(fa)
						elif isinstance(base, ast.Name) and base.id == 'self':
							write('self[]')
						elif isinstance(base, ast.Name) and base.id in params:
							write(f'arg:{base.id}')
					elif isinstance(tt, ast.Attribute) and self_attr(tt.value) is not None:
						raise TranslateError(f'{path}:{n.lineno}: {m.name} assigns an attribute of self.{self_attr(tt.value)}')
			if isinstance(n, ast.Call) and isinstance(n.func, ast.Attribute) and n.func.attr in MUTATING_CALLS:
				fa = self_attr(n.func.value)
				if fa is not None:
					write(fa)
				elif isinstance(n.func.value, ast.Name) and n.func.value.id in params:
					# an argument object changed in place: the caller sees it (out-parameters of the order walk; an import that
					# consumed its rows would show up here)
					write(f'arg:{n.func.value.id}')
		if m.name == '__init__':
			if written:
				raise TranslateError(f'{path}: __init__ mutates {written}')
			continue
		unknown = [w for w in written if w != 'self[]' and not w.startswith('arg:') and w not in fields and w.lstrip('_') not in [f.lstrip('_') for f in fields]]
		if unknown:
			raise TranslateError(f'{path}: {m.name} writes {unknown}, not assigned in __init__')
		if written:
			mutators.append((m.name, written))
	if not fields:
		raise TranslateError(f'{path}: {cls_name}.__init__ assigns no attribute')
	return fields, mutators


def generate() -> list[dict[str, Any]]:
	db_fields, db_mut = scan_class('rogw/tranp/semantics/reflection/db.py', 'SymbolDB')
	se_fields, se_mut = scan_class('rogw/tranp/semantics/reflection/serializer.py', 'ReflectionSerializer')

	def names(xs: list[str]) -> str:
		return '[' + ', '.join(lean_chars(x) for x in xs) + ']'

	def muts(ms: list[tuple[str, list[str]]]) -> str:
		return '[' + ', '.join(f'({lean_chars(m)}, {names(ws)})' for m, ws in ms) + ']'
	text = '\n'.join([
		'/-',
		'  GENERATED by translate/gen_symbol_state.py from the AST of reflection/db.py and reflection/serializer.py — do not edit.',
		'  Instance attributes assigned in __init__, and per method the fields it writes (`self[]` = `self[key] = …`).',
		'-/',
		'import Tranp.Str',
		'',
		'namespace Tranp.Generated.SymbolDbState',
		'open Tranp',
		'',
		f'def dbFields : List Str := {names(db_fields)}',
		f'def dbMutators : List (Str × List Str) := {muts(db_mut)}',
		f'def serializerFields : List Str := {names(se_fields)}',
		f'def serializerMutators : List (Str × List Str) := {muts(se_mut)}',
		'',
		'end Tranp.Generated.SymbolDbState',
		'',
	])
	changed = write_if_changed(OUT, text)
	return [{'file': os.path.relpath(OUT, os.path.dirname(GENERATED_DIR)), 'entries': len(db_fields) + len(se_fields) + len(db_mut) + len(se_mut),
		'dbFields': db_fields, 'dbMutators': db_mut, 'serializerFields': se_fields, 'serializerMutators': se_mut, 'changed': changed}]
