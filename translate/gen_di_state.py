"""Translator for property C19: the STATE of DI / LazyDI and who writes it, read from the source.

The Lean model of the container (Model/DI.lean) is a record of four dictionaries per container with value semantics. That is
only the truth about rogw/tranp/lang/di.py if
  * the two classes have no other state (no further attribute, no class- or module-level variable, no caching decorator),
  * a method writes no dictionary the model does not write for that operation (directly or through the methods it calls,
    with virtual dispatch: `DI.rebind` on a LazyDI runs `LazyDI.unbind` / `LazyDI.bind`),
  * a container made by `_clone` / `combine` / `instantiate` gets dictionaries of its own (every value assigned to a
    dictionary attribute of the new object is a dict display, a dict comprehension or a `.copy()`), no method hands a
    dictionary object out (return value, argument, plain assignment), and nothing is written to the `other` operand.
This generator parses di.py with `ast` (never imports it) and writes `lean/Tranp/Generated/DIState.lean`:
  * `Meth`          — one constructor per method of the two classes
  * `fields`        — the dictionary attributes declared in the two `__init__`
  * `recs`          — per method: dictionaries written on `self` / on `other`, dictionary attributes assigned on a new container
                      (with: is the value a fresh dict?), dictionaries that escape, and the methods called on `self`
                      (incl. `super()`, `cls`), on `other`, on a new container — each callee resolved for both dynamic classes
  * `genCloneDI` / `genCloneLazy` / `genCombineDI` / `genCombineLazy` — the bodies of `_clone` and `combine` translated statement by
                      statement into Lean terms over the model's `Cont` / `Dict` (`{**a, **b}` = `Dict.merge`, a filtering dict
                      comprehension = `Dict.filterKeys`, `.copy()` = the same items; later statements see earlier assignments)
and `lean/Tranp/Generated/DIMethods.lean` (translate/di_methods.py): the bodies of the registry methods and of `resolve` as `do`
blocks, proved equal to the model functions (`methods_generated`).
Props/C19.lean computes the transitive write sets from `recs` (kernel) and proves that the model writes nothing else
(`code_effects`, `model_effects`, `state_fields`, `containers_own_their_dicts`).

Anything this reader does not understand raises TranslateError (the tie is broken, never silently passed).
"""
from __future__ import annotations

import ast
import hashlib
import os
from typing import Any

from harness.common import GENERATED_DIR, REPO, write_if_changed
from translate import di_methods

SOURCE = 'rogw/tranp/lang/di.py'
TARGET = os.path.join(GENERATED_DIR, 'DIState.lean')
TARGET_METHODS = os.path.join(GENERATED_DIR, 'DIMethods.lean')
FIELDS = {'__instances': 'instances', '__injectors': 'injectors', '__invocations': 'invocations', '__definitions': 'definitions'}
CLASSES = ['DI', 'LazyDI']
READ_METHODS = {'copy', 'items', 'values', 'keys', 'get'}
MUTATING_METHODS = {'pop', 'update', 'setdefault', 'clear', 'popitem', '__setitem__', '__delitem__'}
DECORATORS = {'override', 'classmethod', 'duck_typed(Locator)'}
# free functions that may receive a container as an argument (they do not touch it)
PURE_WITH_CONTAINER = {'isinstance'}


class TranslateError(Exception):
	pass


def _read() -> str:
	with open(os.path.join(REPO, SOURCE), encoding='utf-8') as f:
		return f.read()


def _is_doc(n: ast.stmt) -> bool:
	return isinstance(n, ast.Expr) and isinstance(n.value, ast.Constant) and isinstance(n.value.value, str)


def lean_name(cls: str, meth: str) -> str:
	return f'{cls}_{meth}'


def _parents(root: ast.AST) -> dict[ast.AST, ast.AST]:
	out: dict[ast.AST, ast.AST] = {}
	for p in ast.walk(root):
		for c in ast.iter_child_nodes(p):
			out[c] = p
	return out


def _fresh(value: ast.expr, roles: dict[str, str]) -> bool:
	"""the expression evaluates to a dict object nobody else holds"""
	if isinstance(value, (ast.Dict, ast.DictComp)):
		return True
	if isinstance(value, ast.Call) and isinstance(value.func, ast.Attribute) and value.func.attr == 'copy' and not value.args and not value.keywords:
		inner = value.func.value
		return isinstance(inner, ast.Attribute) and inner.attr in FIELDS and isinstance(inner.value, ast.Name) and inner.value.id in roles
	if isinstance(value, ast.IfExp):
		return _fresh(value.body, roles) and _fresh(value.orelse, roles)
	return False


def scan_method(cls: str, fn: ast.FunctionDef, methods: dict[str, set[str]]) -> dict[str, Any]:
	where = f'{SOURCE}:{fn.lineno} {cls}.{fn.name}'
	decos = [ast.unparse(d) for d in fn.decorator_list]
	for d in decos:
		if d not in DECORATORS:
			raise TranslateError(f'{where}: decorator {d} (could hold state)')
	params = [a.arg for a in [*fn.args.posonlyargs, *fn.args.args, *fn.args.kwonlyargs]]
	for default in [*fn.args.defaults, *fn.args.kw_defaults]:
		if default is not None and not isinstance(default, ast.Constant):
			raise TranslateError(f'{where}: non-constant default argument (shared between calls)')
	is_cm = 'classmethod' in decos
	if not params or params[0] != ('cls' if is_cm else 'self'):
		raise TranslateError(f'{where}: first parameter is {params[:1]}')
	roles: dict[str, str] = {params[0]: 'cls' if is_cm else 'self'}
	parents = _parents(fn)

	for n in ast.walk(fn):
		if isinstance(n, (ast.Global, ast.Nonlocal)):
			raise TranslateError(f'{where}: global / nonlocal')
		if isinstance(n, (ast.FunctionDef, ast.AsyncFunctionDef, ast.ClassDef, ast.Lambda)) and n is not fn:
			raise TranslateError(f'{where}: nested definition {type(n).__name__}')

	local_names = set(params)
	for n in ast.walk(fn):
		if isinstance(n, ast.Name) and isinstance(n.ctx, ast.Store):
			local_names.add(n.id)
	for n in ast.walk(fn):
		# state outside the four dictionaries: class objects used as values, stores into anything that is not a local or a container
		if isinstance(n, ast.Name) and n.id in CLASSES:
			raise TranslateError(f'{where}:{n.lineno}: class object {n.id} used inside a method (possible class-level state)')
		if isinstance(n, (ast.Subscript, ast.Attribute)) and isinstance(n.ctx, (ast.Store, ast.Del)):
			root: ast.AST = n
			while isinstance(root, (ast.Subscript, ast.Attribute)):
				root = root.value
			if not (isinstance(root, ast.Name) and root.id in local_names):
				raise TranslateError(f'{where}:{n.lineno}: store into `{ast.unparse(n)}` (state outside the method)')
		if isinstance(n, (ast.Import, ast.ImportFrom)):
			raise TranslateError(f'{where}:{n.lineno}: import inside a method')

	def container_call(call: ast.AST) -> tuple[str, str] | None:
		"""(receiver role, method) of a call on a container, `cls()` / `self.__class__()` = ('new', '__init__')"""
		if not isinstance(call, ast.Call):
			return None
		f = call.func
		if isinstance(f, ast.Name) and roles.get(f.id) == 'cls':
			return ('new', '__init__')
		if isinstance(f, ast.Attribute) and f.attr == '__class__' and isinstance(f.value, ast.Name) and roles.get(f.value.id) == 'self':
			return ('new', '__init__')
		if isinstance(f, ast.Attribute):
			recv = f.value
			if isinstance(recv, ast.Name) and recv.id in roles:
				return (roles[recv.id], f.attr)
			if isinstance(recv, ast.Call) and isinstance(recv.func, ast.Name) and recv.func.id == 'super' and not recv.args:
				return ('super', f.attr)
		return None

	# names that hold a new container: assigned once from a call that creates one
	creators = {'__init__', '_clone', 'combine'}
	for n in ast.walk(fn):
		if isinstance(n, ast.Assign) and len(n.targets) == 1 and isinstance(n.targets[0], ast.Name):
			cc = container_call(n.value)
			if cc is not None and cc[1] in creators and cc[0] in ('self', 'super', 'new'):
				name = n.targets[0].id
				if roles.get(name, 'new') != 'new':
					raise TranslateError(f'{where}: {name} re-assigned')
				roles[name] = 'new'
	# a parameter whose dictionaries are touched is the `other` operand
	for a in [*fn.args.posonlyargs, *fn.args.args, *fn.args.kwonlyargs][1:]:
		if a.annotation is not None and ast.unparse(a.annotation) in ('Self', 'DI', 'LazyDI', "'DI'", "'LazyDI'"):
			roles[a.arg] = 'other'
	for n in ast.walk(fn):
		if isinstance(n, ast.Attribute) and isinstance(n.value, ast.Name) and n.value.id in params[1:] and n.attr in FIELDS:
			roles[n.value.id] = 'other'

	rec: dict[str, Any] = {'selfWrites': [], 'otherWrites': [], 'newAssigns': [], 'escapes': [], 'selfCalls': [], 'otherCalls': [], 'newCalls': [], 'declares': []}

	def add(key: str, item: Any) -> None:
		if item not in rec[key]:
			rec[key].append(item)

	def write(role: str, field: str) -> None:
		if role in ('self', 'cls'):
			add('selfWrites', field)
		elif role == 'other':
			add('otherWrites', field)
		# an item written on a new container is nobody else's business

	for n in ast.walk(fn):
		# calls on containers
		cc = container_call(n)
		if cc is not None:
			role, name = cc
			known = name in methods['DI'] or name in methods['LazyDI']
			if not known:
				if name.startswith('__') and not name.endswith('__') or role in ('self', 'super', 'new', 'other') and not name.startswith('__'):
					raise TranslateError(f'{where}: call of unknown method {name} on a container')
				continue
			add({'self': 'selfCalls', 'cls': 'selfCalls', 'super': 'selfCalls', 'other': 'otherCalls', 'new': 'newCalls'}[role], ('super' if role == 'super' else 'virt', name))
			continue
		if isinstance(n, ast.Attribute) and isinstance(n.value, ast.Name) and n.value.id in roles:
			role = roles[n.value.id]
			p = parents[n]
			if n.attr in FIELDS:
				field = FIELDS[n.attr]
				if isinstance(n.ctx, ast.Store):
					if not (isinstance(p, (ast.Assign, ast.AnnAssign)) and p.value is not None):
						raise TranslateError(f'{where}:{n.lineno}: dictionary attribute stored in {type(p).__name__}')
					fresh = _fresh(p.value, roles)
					if role == 'self' and fn.name == '__init__':
						if not (isinstance(p.value, ast.Dict) and not p.value.keys):
							raise TranslateError(f'{where}:{n.lineno}: {n.attr} is not initialised with an empty dict')
						add('declares', field)
					elif role == 'new':
						add('newAssigns', (field, fresh))
					else:
						write(role, field)
						if not fresh:
							add('escapes', field)
				elif isinstance(n.ctx, ast.Del):
					raise TranslateError(f'{where}:{n.lineno}: del of a dictionary attribute')
				elif isinstance(p, ast.Subscript) and p.value is n:
					if isinstance(p.ctx, (ast.Store, ast.Del)):
						write(role, field)
				elif isinstance(p, ast.Compare) and n in p.comparators and all(isinstance(o, (ast.In, ast.NotIn)) for o in p.ops):
					pass
				elif isinstance(p, ast.Attribute) and p.value is n and isinstance(parents.get(p), ast.Call) and parents[p].func is p:
					if p.attr in MUTATING_METHODS:
						write(role, field)
					elif p.attr not in READ_METHODS:
						raise TranslateError(f'{where}:{n.lineno}: {n.attr}.{p.attr}(...)')
				elif isinstance(p, ast.Dict) and any(k is None and v is n for k, v in zip(p.keys, p.values)):
					pass
				elif isinstance(p, (ast.If, ast.IfExp, ast.While)) and p.test is n or isinstance(p, ast.BoolOp) or isinstance(p, ast.UnaryOp) and isinstance(p.op, ast.Not):
					pass
				else:
					add('escapes', field)
			elif n.attr == '__class__':
				# only `self.__class__()`, `isinstance(x, other.__class__)` and the text of an error message
				if not (isinstance(p, ast.FormattedValue) or isinstance(p, ast.Call) and (p.func is n or isinstance(p.func, ast.Name) and p.func.id in PURE_WITH_CONTAINER and n in p.args)):
					raise TranslateError(f'{where}:{n.lineno}: `{ast.unparse(p)}` (class object of a container used as a value)')
			elif n.attr.startswith('__') and n.attr.endswith('__') and n.attr not in methods['DI'] | methods['LazyDI']:
				raise TranslateError(f'{where}:{n.lineno}: special attribute {n.attr} of a container')
			elif n.attr.startswith('__') and not n.attr.endswith('__') and n.attr not in methods['DI'] | methods['LazyDI']:
				raise TranslateError(f'{where}:{n.lineno}: unknown private attribute {n.attr} (state the model does not have)')
			elif not n.attr.startswith('__') and n.attr not in methods['DI'] | methods['LazyDI'] and isinstance(n.ctx, (ast.Store, ast.Del)):
				raise TranslateError(f'{where}:{n.lineno}: attribute {n.attr} assigned (state the model does not have)')
		# a container passed around as a value
		if isinstance(n, ast.Name) and isinstance(n.ctx, ast.Load) and n.id in roles:
			p = parents[n]
			role = roles[n.id]
			if isinstance(p, ast.Attribute) and p.value is n:
				continue
			if isinstance(p, ast.Call) and p.func is n and role == 'cls':
				continue
			if isinstance(p, ast.Return) and role == 'new':
				continue
			if isinstance(p, ast.Call) and n in p.args and isinstance(p.func, ast.Name) and p.func.id in PURE_WITH_CONTAINER:
				continue
			if isinstance(p, ast.Call) and n in p.args and container_call(p) is not None:
				continue  # `self.combine(other)`-like: the callee is analysed itself
			raise TranslateError(f'{where}:{n.lineno}: container `{n.id}` used as a value in {type(p).__name__}')
	return rec


# ---------------------------------------------------------------------------------------------
# the dictionary-building methods `_clone` / `combine`, translated statement by statement into Lean terms


def _field_of(e: ast.expr, env: dict[str, str]) -> str | None:
	"""`<container>.__field` → Lean `<var>.<field>`"""
	if isinstance(e, ast.Attribute) and e.attr in FIELDS and isinstance(e.value, ast.Name) and e.value.id in env:
		return f'{env[e.value.id]}.{FIELDS[e.attr]}'
	return None


def _cond(c: ast.expr, k: str, env: dict[str, str], where: str) -> str:
	if isinstance(c, ast.UnaryOp) and isinstance(c.op, ast.Not):
		return f'!({_cond(c.operand, k, env, where)})'
	if isinstance(c, ast.BoolOp):
		return '(' + (' && ' if isinstance(c.op, ast.And) else ' || ').join(_cond(v, k, env, where) for v in c.values) + ')'
	if (isinstance(c, ast.Call) and isinstance(c.func, ast.Attribute) and c.func.attr == '_binded' and isinstance(c.func.value, ast.Name)
			and c.func.value.id in env and len(c.args) == 1 and isinstance(c.args[0], ast.Name) and c.args[0].id == k and not c.keywords):
		return f'{env[c.func.value.id]}.binded {k}'
	if isinstance(c, ast.Compare) and len(c.ops) == 1 and isinstance(c.left, ast.Name) and c.left.id == k:
		f = _field_of(c.comparators[0], env)
		if f is not None and isinstance(c.ops[0], ast.In):
			return f'({f}).contains {k}'
		if f is not None and isinstance(c.ops[0], ast.NotIn):
			return f'!(({f}).contains {k})'
	raise TranslateError(f'{where}: filter condition `{ast.unparse(c)}`')


def _dict_expr(e: ast.expr, env: dict[str, str], where: str) -> str:
	f = _field_of(e, env)
	if f is not None:
		return f
	if isinstance(e, ast.Call) and isinstance(e.func, ast.Attribute) and e.func.attr == 'copy' and not e.args and not e.keywords:
		f = _field_of(e.func.value, env)
		if f is not None:
			return f  # a copy has the same items (that it is a new object is `containers_own_their_dicts`)
	if isinstance(e, ast.Dict) and e.keys and all(k is None for k in e.keys):
		parts = [_dict_expr(v, env, where) for v in e.values]
		out = parts[0]
		for nxt in parts[1:]:
			out = f'Dict.merge ({out}) ({nxt})'
		return out
	if isinstance(e, ast.Dict) and not e.keys:
		return '{}'
	if isinstance(e, ast.DictComp) and len(e.generators) == 1:
		g = e.generators[0]
		if (not g.is_async and isinstance(g.target, ast.Tuple) and len(g.target.elts) == 2 and all(isinstance(x, ast.Name) for x in g.target.elts)
				and isinstance(e.key, ast.Name) and isinstance(e.value, ast.Name) and e.key.id == g.target.elts[0].id and e.value.id == g.target.elts[1].id
				and isinstance(g.iter, ast.Call) and isinstance(g.iter.func, ast.Attribute) and g.iter.func.attr == 'items' and not g.iter.args):
			src = _dict_expr(g.iter.func.value, env, where)
			k = g.target.elts[0].id
			if not k.isidentifier() or k in env.values():
				raise TranslateError(f'{where}: loop variable {k}')
			cond = ' && '.join(f'({_cond(c, k, env, where)})' for c in g.ifs) or 'true'
			return f'Dict.filterKeys ({src}) (fun {k} => {cond})'
	raise TranslateError(f'{where}: dictionary expression `{ast.unparse(e)}`')


def _builder(cls: str, fn: ast.FunctionDef, methods: dict[str, set[str]]) -> list[str]:
	"""Lean `let` chain for a method of the shape: [guard]; di = <create>; di.__f = <dict expr>; …; return di"""
	where = f'{SOURCE}:{fn.lineno} {cls}.{fn.name}'
	body = [st for st in fn.body if not _is_doc(st)]
	params = [a.arg for a in fn.args.args]
	env = {'self': 'slf'}
	if fn.name == 'combine':
		if params != ['self', 'other']:
			raise TranslateError(f'{where}: parameters {params}')
		env['other'] = 'other'
		if cls == 'DI':
			g = body[0] if body else None
			if not (isinstance(g, ast.If) and not g.orelse and ast.unparse(g.test) == 'not isinstance(self, other.__class__)'
					and len(g.body) == 1 and isinstance(g.body[0], ast.Raise) and isinstance(g.body[0].exc, ast.Call)
					and ast.unparse(g.body[0].exc.func) == 'TypeError'):
				raise TranslateError(f'{where}: first statement is not the class guard raising TypeError')
			body = body[1:]
	elif params != ['self']:
		raise TranslateError(f'{where}: parameters {params}')
	if len(body) < 2 or not (isinstance(body[-1], ast.Return) and isinstance(body[-1].value, ast.Name)):
		raise TranslateError(f'{where}: does not end with `return <name>`')
	new = body[-1].value.id
	first = body[0]
	if not (isinstance(first, ast.Assign) and len(first.targets) == 1 and isinstance(first.targets[0], ast.Name) and first.targets[0].id == new):
		raise TranslateError(f'{where}: first statement does not create `{new}`')
	create = ast.unparse(first.value)
	created = {
		('DI', '_clone', 'self.__class__()'): '({ lazy := slf.lazy } : Cont)',
		('LazyDI', '_clone', 'super()._clone()'): 'genCloneDI slf',
		('DI', 'combine', 'self._clone()'): 'clone slf',
		('LazyDI', 'combine', 'super().combine(other)'): 'genCombineDI genCloneLazy slf other',
	}.get((cls, fn.name, create))
	if created is None:
		raise TranslateError(f'{where}: `{new} = {create}`')
	if cls == 'LazyDI' and '_clone' not in methods['LazyDI']:
		raise TranslateError(f'{where}: LazyDI._clone is not defined (dispatch of self._clone() changed)')
	env[new] = 'di'
	lines = [f'  let di : Cont := {created}']
	for st in body[1:-1]:
		if not (isinstance(st, ast.Assign) and len(st.targets) == 1):
			raise TranslateError(f'{where}:{st.lineno}: statement {type(st).__name__}')
		t = st.targets[0]
		if not (isinstance(t, ast.Attribute) and t.attr in FIELDS and isinstance(t.value, ast.Name) and t.value.id == new):
			raise TranslateError(f'{where}:{st.lineno}: assignment target `{ast.unparse(t)}`')
		lines.append(f'  let di : Cont := {{ di with {FIELDS[t.attr]} := {_dict_expr(st.value, env, f"{where}:{st.lineno}")} }}')
	lines.append('  di')
	return lines


def builders(fns: dict[str, list[ast.FunctionDef]], methods: dict[str, set[str]]) -> list[str]:
	def get(cls: str, name: str) -> ast.FunctionDef:
		for fn in fns[cls]:
			if fn.name == name:
				return fn
		raise TranslateError(f'{cls}.{name} is not defined')
	out: list[str] = []
	for cls, name, head, doc in [
		('DI', '_clone', 'def genCloneDI (slf : Cont) : Cont :=', '`DI._clone`'),
		('LazyDI', '_clone', 'def genCloneLazy (slf : Cont) : Cont :=', '`LazyDI._clone`'),
		('DI', 'combine', 'def genCombineDI (clone : Cont → Cont) (slf other : Cont) : Cont :=', '`DI.combine` after its class guard; `clone` is what `self._clone()` dispatches to'),
		('LazyDI', 'combine', 'def genCombineLazy (slf other : Cont) : Cont :=', '`LazyDI.combine` (`super().combine(other)` runs `DI.combine` on a LazyDI: `self._clone()` is `LazyDI._clone`)'),
	]:
		fn = get(cls, name)
		out += [f'/-- {doc} ({SOURCE}:{fn.lineno}), statement by statement -/', head, *_builder(cls, fn, methods), '']
	return out


def load() -> dict[str, Any]:
	text = _read()
	tree = ast.parse(text)
	classes: list[ast.ClassDef] = []
	for n in tree.body:
		if isinstance(n, (ast.Import, ast.ImportFrom)) or _is_doc(n):
			continue
		if isinstance(n, ast.AnnAssign) and ast.unparse(n.annotation) == 'TypeAlias':
			continue
		if isinstance(n, ast.ClassDef):
			classes.append(n)
			continue
		raise TranslateError(f'{SOURCE}:{n.lineno}: module-level statement {type(n).__name__} (possible module state)')
	if [c.name for c in classes] != CLASSES:
		raise TranslateError(f'{SOURCE}: expected the classes {CLASSES}, found {[c.name for c in classes]}')
	bases = [[ast.unparse(b) for b in c.bases] for c in classes]
	if bases != [[], ['DI']] or any(c.keywords or c.decorator_list for c in classes):
		raise TranslateError(f'{SOURCE}: class headers {bases}')
	methods: dict[str, set[str]] = {}
	fns: dict[str, list[ast.FunctionDef]] = {}
	for c in classes:
		fns[c.name] = []
		for m in c.body:
			if _is_doc(m):
				continue
			if not isinstance(m, ast.FunctionDef):
				raise TranslateError(f'{SOURCE}:{m.lineno}: class-level statement {type(m).__name__} in {c.name} (possible class state)')
			fns[c.name].append(m)
		names = [m.name for m in fns[c.name]]
		if len(set(names)) != len(names):
			raise TranslateError(f'{SOURCE}: {c.name} defines a method twice')
		methods[c.name] = set(names)

	def resolve(owner: str, kind: str, name: str, dyn: str) -> str:
		"""the method that runs for `self.<name>` written in class `owner` (or `super().<name>`) when the object is a `dyn`"""
		if kind == 'super':
			if owner != 'LazyDI' or name not in methods['DI']:
				raise TranslateError(f'super().{name} in {owner}')
			return lean_name('DI', name)
		if name.startswith('__') and not name.endswith('__'):
			if name not in methods[owner]:
				raise TranslateError(f'private method {name} is not defined in {owner}')
			return lean_name(owner, name)
		start = 'LazyDI' if (dyn == 'LazyDI' or owner == 'LazyDI') else 'DI'
		for c in (['LazyDI', 'DI'] if start == 'LazyDI' else ['DI']):
			if name in methods[c]:
				return lean_name(c, name)
		raise TranslateError(f'method {name} not found for a {dyn} (called in {owner})')

	recs = []
	fields: list[tuple[str, str]] = []
	for c in classes:
		for fn in fns[c.name]:
			r = scan_method(c.name, fn, methods)
			for f in r.pop('declares'):
				fields.append((c.name, f))
			for key in ('selfCalls', 'otherCalls', 'newCalls'):
				r[key] = [(resolve(c.name, kind, name, 'DI'), resolve(c.name, kind, name, 'LazyDI')) for kind, name in r[key]]
			recs.append({'cls': c.name, 'name': fn.name, 'line': fn.lineno, **r})
	try:
		method_defs = di_methods.translate(SOURCE, fns)
	except di_methods.TranslateError as e:
		raise TranslateError(str(e)) from e
	return {'sha': hashlib.sha256(text.encode()).hexdigest(), 'fields': fields, 'recs': recs, 'builders': builders(fns, methods), 'methods': method_defs}


def _fl(fs: list[str]) -> str:
	return '[' + ', '.join(f'.{f}' for f in fs) + ']'


def _cl(cs: list[tuple[str, str]]) -> str:
	return '[' + ', '.join(f'(.{a}, .{b})' for a, b in cs) + ']'


def render(t: dict[str, Any]) -> str:
	meths = [lean_name(r['cls'], r['name']) for r in t['recs']]
	out = [
		'/-',
		f'  GENERATED by verif/translate/gen_di_state.py from {SOURCE} — do not edit.',
		f"  source sha256 = {t['sha']}",
		'-/',
		'import Tranp.Model.DIState',
		'',
		'namespace Tranp.Generated.DIState',
		'open Tranp.DI',
		'',
		'/-- the methods of `DI` and `LazyDI` (class_method) -/',
		'inductive Meth where',
		*[f'  | {m}' for m in meths],
		'deriving DecidableEq, Repr',
		'',
		'/-- dictionary attributes declared (`= {}`) in `__init__`: (declared by LazyDI?, field) -/',
		'def fields : List (Bool × Field) := [' + ', '.join(f"({'true' if c == 'LazyDI' else 'false'}, .{f})" for c, f in t['fields']) + ']',
		'',
		'/-- what each method does to dictionaries and which container methods it calls -/',
		'def recs : List (MRec Meth) := [',
	]
	rows = []
	for r in t['recs']:
		rows.append(
			f"  -- {SOURCE}:{r['line']} {r['cls']}.{r['name']}\n"
			f"  {{ meth := .{lean_name(r['cls'], r['name'])}, lazyOwner := {'true' if r['cls'] == 'LazyDI' else 'false'},\n"
			f"    selfWrites := {_fl(r['selfWrites'])}, otherWrites := {_fl(r['otherWrites'])},\n"
			f"    newAssigns := [{', '.join(f'(.{f}, {str(fr).lower()})' for f, fr in r['newAssigns'])}], escapes := {_fl(r['escapes'])},\n"
			f"    selfCalls := {_cl(r['selfCalls'])}, otherCalls := {_cl(r['otherCalls'])}, newCalls := {_cl(r['newCalls'])} }}")
	out.append(',\n'.join(rows))
	out += [']', '', *t['builders'], 'end Tranp.Generated.DIState', '']
	return '\n'.join(out)


def render_methods(t: dict[str, Any]) -> str:
	return '\n'.join([
		'/-',
		f'  GENERATED by verif/translate/gen_di_state.py (translate/di_methods.py) from {SOURCE} — do not edit.',
		f"  source sha256 = {t['sha']}",
		'',
		'  The registry methods of DI / LazyDI and `resolve`, statement by statement, in the monad `PyM` of Model/DIPy.lean.',
		"  `lazy'` = the receiver is a LazyDI (virtual `self.` calls dispatch on it); `invoke'` = `self.invoke`.",
		'-/',
		'import Tranp.Model.DIPy',
		'',
		'set_option linter.unusedVariables false',
		'',
		'namespace Tranp.Generated.DIMethods',
		'open Tranp.DI',
		'',
		*t['methods'],
		'end Tranp.Generated.DIMethods',
		'',
	])


def generate() -> list[dict[str, Any]]:
	t = load()
	changed = write_if_changed(TARGET, render(t))
	changed_m = write_if_changed(TARGET_METHODS, render_methods(t))
	rel = os.path.dirname(GENERATED_DIR)
	return [{'file': os.path.relpath(TARGET, rel), 'source': SOURCE, 'sha256': t['sha'], 'entries': len(t['recs']), 'changed': changed},
		{'file': os.path.relpath(TARGET_METHODS, rel), 'source': SOURCE, 'sha256': t['sha'], 'entries': sum(1 for ln in t['methods'] if ln.startswith('def ')), 'changed': changed_m}]


if __name__ == '__main__':
	for rec in generate():
		print(rec)
