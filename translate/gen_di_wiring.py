"""Translator for property C19: how tranp wires its dependency containers.

Reads the working tree of /repo twice:
  * imports `rogw.tranp.app.config` and dumps the evaluated `default_definitions()` and `module_dependency_provider()()`
    (symbol path -> factory path), loads every factory with `load_module_path` exactly like `LazyDI.__bind_proxy` does and
    reads its positional parameters and annotations (what `DI.invoke` will curry);
  * parses with `ast`
      - `providers/app.py: di_container` — must be `di = LazyDI.instantiate(definitions)`, `di.bind(<sym>, lambda: di)`,
        `di.bind(<sym>, lambda: di.invoke)`, `return di`;
      - `providers/syntax/entrypoints.py: entrypoint_loader.handler` — must be `shared_di = as_a(LazyDI, locator)`, any number of
        `shared_di.resolve(<sym>)`, `dependency_di = LazyDI.instantiate(dependencies())`, `new_di = shared_di.combine(dependency_di)`,
        `new_di.rebind(<sym>, lambda: new_di)`, `new_di.rebind(<sym>, lambda: new_di.invoke)`, `new_di.bind(<sym>, lambda: module_path)`,
        `return new_di.resolve(<sym>)`.
    Anything else raises TranslateError (the tie is then broken, never silently passed).

Output: lean/Tranp/Generated/DIWiring.lean — symbol numbering, the two definition tables with each factory's parameters, the op
lists of the two functions, and a rank certificate (longest dependency chain) that Lean re-checks.
"""
from __future__ import annotations

import ast
import hashlib
import inspect
import os
from typing import Any

from harness.common import GENERATED_DIR, REPO, write_if_changed

CONFIG = 'rogw/tranp/app/config.py'
APP = 'rogw/tranp/providers/app.py'
ENTRYPOINTS = 'rogw/tranp/providers/syntax/entrypoints.py'
TARGET = os.path.join(GENERATED_DIR, 'DIWiring.lean')
NESTED_FROM = 500


class TranslateError(Exception):
	pass


def _read(rel: str) -> str:
	with open(os.path.join(REPO, rel), encoding='utf-8') as f:
		return f.read()


def _func(tree: ast.AST, name: str) -> ast.FunctionDef:
	for node in ast.walk(tree):
		if isinstance(node, ast.FunctionDef) and node.name == name:
			return node
	raise TranslateError(f'function {name} not found')


def _body(fn: ast.FunctionDef) -> list[ast.stmt]:
	body = list(fn.body)
	if body and isinstance(body[0], ast.Expr) and isinstance(body[0].value, ast.Constant) and isinstance(body[0].value.value, str):
		body = body[1:]
	return [s for s in body if not (isinstance(s, ast.Expr) and isinstance(s.value, ast.Constant))]


def _call(node: ast.AST, recv: str, method: str, nargs: int) -> list[ast.expr]:
	if not (isinstance(node, ast.Call) and isinstance(node.func, ast.Attribute) and isinstance(node.func.value, ast.Name)
			and node.func.value.id == recv and node.func.attr == method and len(node.args) == nargs and not node.keywords):
		raise TranslateError(f'expected {recv}.{method}(<{nargs} args>), found {ast.unparse(node)}')
	return list(node.args)


def _lambda_of(node: ast.expr, expect: str) -> None:
	if not (isinstance(node, ast.Lambda) and not node.args.args and not node.args.vararg and not node.args.kwarg and ast.unparse(node.body) == expect):
		raise TranslateError(f'expected `lambda: {expect}`, found {ast.unparse(node)}')


def _sym_expr(node: ast.expr) -> str:
	if isinstance(node, ast.Name):
		return node.id
	if isinstance(node, ast.Attribute) and isinstance(node.value, ast.Name):
		return f'{node.value.id}.{node.attr}'
	raise TranslateError(f'symbol expression {ast.unparse(node)}')


def parse_di_container() -> dict[str, str]:
	body = _body(_func(ast.parse(_read(APP)), 'di_container'))
	if len(body) != 4:
		raise TranslateError(f'di_container has {len(body)} statements, expected 4')
	s0, s1, s2, s3 = body
	if not (isinstance(s0, ast.Assign) and ast.unparse(s0) == 'di = LazyDI.instantiate(definitions)'):
		raise TranslateError(f'di_container: {ast.unparse(s0)}')
	a = _call(s1.value if isinstance(s1, ast.Expr) else s1, 'di', 'bind', 2)
	_lambda_of(a[1], 'di')
	b = _call(s2.value if isinstance(s2, ast.Expr) else s2, 'di', 'bind', 2)
	_lambda_of(b[1], 'di.invoke')
	if not (isinstance(s3, ast.Return) and ast.unparse(s3) == 'return di'):
		raise TranslateError(f'di_container: {ast.unparse(s3)}')
	return {'locator': _sym_expr(a[0]), 'invoker': _sym_expr(b[0])}


def parse_handler() -> dict[str, Any]:
	loader = _func(ast.parse(_read(ENTRYPOINTS)), 'entrypoint_loader')
	body = _body(_func(loader, 'handler'))
	if not body or ast.unparse(body[0]) != 'shared_di = as_a(LazyDI, locator)':
		raise TranslateError(f'handler: first statement {ast.unparse(body[0]) if body else None}')
	i = 1
	pre: list[str] = []
	while i < len(body) and isinstance(body[i], ast.Expr):
		pre.append(_sym_expr(_call(body[i].value, 'shared_di', 'resolve', 1)[0]))  # type: ignore[attr-defined]
		i += 1
	rest = body[i:]
	if len(rest) != 6:
		raise TranslateError(f'handler: {len(rest)} statements after the pre-resolves, expected 6')
	if ast.unparse(rest[0]) != 'dependency_di = LazyDI.instantiate(dependencies())':
		raise TranslateError(f'handler: {ast.unparse(rest[0])}')
	if ast.unparse(rest[1]) != 'new_di = shared_di.combine(dependency_di)':
		raise TranslateError(f'handler: {ast.unparse(rest[1])}')
	r1 = _call(rest[2].value, 'new_di', 'rebind', 2)  # type: ignore[attr-defined]
	_lambda_of(r1[1], 'new_di')
	r2 = _call(rest[3].value, 'new_di', 'rebind', 2)  # type: ignore[attr-defined]
	_lambda_of(r2[1], 'new_di.invoke')
	b = _call(rest[4].value, 'new_di', 'bind', 2)  # type: ignore[attr-defined]
	_lambda_of(b[1], 'module_path')
	if not isinstance(rest[5], ast.Return) or rest[5].value is None:
		raise TranslateError(f'handler: {ast.unparse(rest[5])}')
	final = _call(rest[5].value, 'new_di', 'resolve', 1)
	return {'pre': pre, 'locator': _sym_expr(r1[0]), 'invoker': _sym_expr(r2[0]), 'modulePath': _sym_expr(b[0]), 'entrypoint': _sym_expr(final[0])}


def _eval_sym(module: Any, expr: str) -> Any:
	obj = module
	for part in expr.split('.'):
		obj = getattr(obj, part)
	return obj


def load() -> dict[str, Any]:
	import importlib

	from rogw.tranp.lang.module import load_module_path, to_fullyname

	config = importlib.import_module('rogw.tranp.app.config')
	defs: dict[str, Any] = config.default_definitions()
	deps: dict[str, Any] = config.module_dependency_provider()()
	app_mod = importlib.import_module('rogw.tranp.providers.app')
	ep_mod = importlib.import_module('rogw.tranp.providers.syntax.entrypoints')
	dc = parse_di_container()
	hd = parse_handler()

	syms: dict[str, int] = {}

	def sym_of(cls: Any) -> int:
		origin = getattr(cls, '__origin__', cls)
		qual = getattr(origin, '__qualname__', None)
		if qual is None or '.' in qual:
			raise TranslateError(f'symbol {origin!r} is not a module-level class')
		path = to_fullyname(origin)
		if path not in syms:
			if len(syms) >= NESTED_FROM:
				raise TranslateError('more symbols than the model reserves for importable classes')
			syms[path] = len(syms)
		return syms[path]

	def key_sym(path: str) -> int:
		cls = load_module_path(path)
		k = sym_of(cls)
		if to_fullyname(cls) != path:
			raise TranslateError(f'definition key {path} names {to_fullyname(cls)}')
		return k

	for path in [*defs, *deps]:
		key_sym(path)
	roles = {
		'locator': sym_of(_eval_sym(app_mod, dc['locator'])),
		'invoker': sym_of(_eval_sym(app_mod, dc['invoker'])),
		'modulePath': sym_of(_eval_sym(ep_mod, hd['modulePath'])),
		'entrypoint': sym_of(_eval_sym(ep_mod, hd['entrypoint'])),
		'pre': [sym_of(_eval_sym(ep_mod, p)) for p in hd['pre']],
	}
	if sym_of(_eval_sym(ep_mod, hd['locator'])) != roles['locator'] or sym_of(_eval_sym(ep_mod, hd['invoker'])) != roles['invoker']:
		raise TranslateError('handler re-binds other symbols than di_container binds')

	facs: dict[int, int] = {}
	aids: dict[Any, int] = {}
	keep: list[Any] = []

	def factory(f: Any) -> tuple[int, int, list[tuple[int, bool] | None]]:
		from types import FunctionType, MethodType
		keep.append(f)
		fid = facs.setdefault(id(f), len(facs))
		if isinstance(f, (FunctionType, MethodType)):
			annotated = f
		elif not isinstance(f, type) and hasattr(f, '__call__'):
			annotated = f.__call__
		else:
			annotated = f.__init__
		aid = aids.setdefault(annotated, len(aids))
		params: list[tuple[int, bool] | None] = []
		for p in inspect.signature(f).parameters.values():
			if p.kind != p.POSITIONAL_OR_KEYWORD or p.default is not p.empty:
				raise TranslateError(f'factory {f!r}: parameter {p} is not a plain positional parameter')
			if p.annotation is p.empty:
				params.append(None)
			elif isinstance(p.annotation, str):
				raise TranslateError(f'factory {f!r}: string annotation {p.annotation!r}')
			else:
				params.append((sym_of(p.annotation), getattr(p.annotation, '__origin__', None) is not None))
		return fid, aid, params

	def table(d: dict[str, Any]) -> list[tuple[int, str, Any]]:
		rows = []
		names: dict[str, int] = {}
		for path, inj in d.items():
			if isinstance(inj, str):
				rows.append((syms[path], 'named', (names.setdefault(inj, len(names)), inj, factory(load_module_path(inj)))))
			elif callable(inj):
				rows.append((syms[path], 'direct', (None, repr(inj), factory(inj))))
			else:
				raise TranslateError(f'definition {path}: {inj!r}')
		return rows

	t_defs = table(defs)
	t_deps = table(deps)

	# rank certificate: longest chain of annotated parameters below a symbol (0 for symbols nobody binds)
	binding: dict[int, list[int]] = {}
	for k, _, (_, _, (_, _, params)) in [*t_defs, *t_deps]:
		binding.setdefault(k, [])
		binding[k] = sorted(set(binding[k]) | {p[0] for p in params if p is not None})
	for k in (roles['locator'], roles['invoker'], roles['modulePath']):
		binding.setdefault(k, [])
	rank: dict[int, int] = {}

	def rk(k: int, stack: tuple[int, ...]) -> int:
		if k in rank:
			return rank[k]
		if k in stack or k not in binding:
			return 0
		r = 1 + max([rk(p, (*stack, k)) for p in binding[k]], default=0)
		rank[k] = r
		return r

	for k in binding:
		rk(k, ())
	sha = hashlib.sha256('\n'.join(_read(p) for p in (CONFIG, APP, ENTRYPOINTS)).encode('utf-8')).hexdigest()
	return {'syms': syms, 'defs': t_defs, 'deps': t_deps, 'roles': roles, 'rank': rank, 'sha': sha}


def _fac(f: tuple[int, int, list[tuple[int, bool] | None]]) -> str:
	fid, aid, params = f
	ps = ', '.join('none' if p is None else f"some ⟨{p[0]}, {'true' if p[1] else 'false'}⟩" for p in params)
	return f'⟨{fid}, {aid}, [{ps}], false⟩'


def _rows(rows: list[tuple[int, str, Any]]) -> str:
	out = []
	for k, kind, (name, text, fac) in rows:
		if kind == 'named':
			out.append(f'  ({k}, .named {name} {_fac(fac)})  -- {text}')
		else:
			out.append(f'  ({k}, .direct {_fac(fac)})')
	# the comma goes before the comment
	fixed = []
	for i, line in enumerate(out):
		if i < len(out) - 1:
			line = line.replace(')  -- ', '),  -- ', 1) if ')  -- ' in line else line + ','
		fixed.append(line)
	return '\n'.join(fixed)


def render(t: dict[str, Any]) -> str:
	r = t['roles']
	syms = sorted(t['syms'].items(), key=lambda kv: kv[1])
	out = [
		'/-',
		f'  GENERATED by verif/translate/gen_di_wiring.py from {CONFIG}, {APP}, {ENTRYPOINTS} — do not edit.',
		f"  source sha256 = {t['sha']}",
		'',
		'  symbol ids:',
		*[f'    {k:3d}  {path}' for path, k in syms],
		'-/',
		'import Tranp.Model.DI',
		'',
		'namespace Tranp.Generated.DIWiring',
		'open Tranp.DI',
		'',
		f'def symCount : Nat := {len(syms)}',
		'',
		'/-- `default_definitions()` (app/config.py): symbol ↦ by-name factory with the parameters `DI.invoke` curries -/',
		'def prodDefs : List (Nat × Injector) := [',
		_rows(t['defs']),
		']',
		'',
		'/-- `module_dependency_provider()()` (app/config.py): the per-module definitions -/',
		'def prodDeps : List (Nat × Injector) := [',
		_rows(t['deps']),
		']',
		'',
		'/-- the symbols `di_container` binds and `handler` pre-resolves / re-binds / binds / finally resolves -/',
		f"def prodRoles : Roles := ⟨{r['locator']}, {r['invoker']}, {r['modulePath']}, {r['entrypoint']}, {r['pre']}⟩",
		'',
		'/-- `di_container(definitions)` (providers/app.py) statement by statement, on a heap of `n` containers -/',
		'def diContainerGen (n : Nat) (defs : List (Nat × Injector)) : List Op := [',
		'  .newLazy defs,',
		f"  .on n (.bind ⟨{r['locator']}, false⟩ (locatorFactory n)),",
		f"  .on n (.bind ⟨{r['invoker']}, false⟩ (invokerFactory n))",
		']',
		'',
		'/-- `handler(module_path)` (providers/syntax/entrypoints.py) statement by statement: shared container `s`, heap of `n` -/',
		'def handlerGen (s n : Nat) (deps : List (Nat × Injector)) (mp : Factory) : List Op := [',
		*[f'  .on s (.resolve ⟨{p}, false⟩),' for p in r['pre']],
		'  .newLazy deps,',
		'  .combine s n,',
		f"  .on (n + 1) (.rebind ⟨{r['locator']}, false⟩ (locatorFactory (n + 1))),",
		f"  .on (n + 1) (.rebind ⟨{r['invoker']}, false⟩ (invokerFactory (n + 1))),",
		f"  .on (n + 1) (.bind ⟨{r['modulePath']}, false⟩ mp),",
		f"  .on (n + 1) (.resolve ⟨{r['entrypoint']}, false⟩)",
		']',
		'',
		'/-- rank certificate (length of the longest chain of annotated parameters below a symbol); re-checked in Props/C19 -/',
		'def rankTable : List (Nat × Nat) := [' + ', '.join(f'({k}, {v})' for k, v in sorted(t['rank'].items())) + ']',
		'',
		'def prodRank (s : Nat) : Nat := (rankTable.lookup s).getD 0',
		'',
		f"def maxRank : Nat := {max(t['rank'].values(), default=0)}",
		'',
		'end Tranp.Generated.DIWiring',
		'',
	]
	return '\n'.join(out)


def generate() -> list[dict[str, Any]]:
	t = load()
	changed = write_if_changed(TARGET, render(t))
	return [{'file': os.path.relpath(TARGET, os.path.dirname(GENERATED_DIR)), 'source': f'{CONFIG}, {APP}, {ENTRYPOINTS}', 'sha256': t['sha'],
		'entries': len(t['defs']) + len(t['deps']), 'changed': changed}]


if __name__ == '__main__':
	for rec in generate():
		print(rec)
