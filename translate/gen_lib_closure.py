"""Translator for property C04: the library closure — the modules every session loads before anything else — and its import edges.

Reads the AST of the sources (never imports them) and writes `lean/Tranp/Generated/LibClosure.lean`:

* `libs`     — the module paths `library_paths()` returns (rogw/tranp/providers/module.py), in order
* `modules`  — the closure of `libs` under top-level imports that resolve to a file, in discovery order (breadth first), each with
               its import edges in source order (one per import statement, as `Entrypoint.imports` gives them)

A module path is resolved like `SourceEnvPath` does (rogw/tranp/app/env.py: the working directory = repository root, the tranp
directory, the library stub directory), first hit wins.

Recognised shapes (anything else is a TranslateError — the tie is broken, never a silent default):
  library_paths   `return ModulePaths([ModulePath('<path>', language='py'), ...])` as the only return statement
  default dirs    `default_dirs = [os.getcwd(), tranp_dir(), os.path.join(tranp_dir(), '<relative dir>')]`
  imports         top-level `from <module> import ...` / `import <module>` (no relative imports) in the closure modules

`Tranp.C04.lib_closure_*` are proved about the generated table (reachability from the libraries = `BaseWorld.reach`, closedness =
`World.base_closed` / `libs_base` for the shipped closure, and the bounded instance of `BaseWorld.load`); harness/c04.py compares
the table with what the real `Entrypoint.imports` of the loaded library modules says (search `imports-ast`).
"""
from __future__ import annotations

import ast
import os
import sys
from typing import Any

from harness.common import GENERATED_DIR, REPO, write_if_changed

OUT = os.path.join(GENERATED_DIR, 'LibClosure.lean')
PROVIDER = 'rogw/tranp/providers/module.py'
ENV = 'rogw/tranp/app/env.py'


class TranslateError(Exception):
	pass


def _parse(rel: str) -> ast.Module:
	with open(os.path.join(REPO, rel), encoding='utf-8') as f:
		return ast.parse(f.read())


def library_paths() -> list[str]:
	fns = [n for n in _parse(PROVIDER).body if isinstance(n, ast.FunctionDef) and n.name == 'library_paths']
	if len(fns) != 1:
		raise TranslateError(f'{PROVIDER}: expected exactly one function library_paths')
	rets = [n for n in ast.walk(fns[0]) if isinstance(n, ast.Return)]
	if len(rets) != 1:
		raise TranslateError(f'{PROVIDER}: library_paths has {len(rets)} return statements')
	v = rets[0].value
	if not (isinstance(v, ast.Call) and isinstance(v.func, ast.Name) and v.func.id == 'ModulePaths' and len(v.args) == 1 and isinstance(v.args[0], ast.List)):
		raise TranslateError(f'{PROVIDER}: library_paths returns {ast.unparse(v) if v else None}')
	out = []
	for e in v.args[0].elts:
		ok = isinstance(e, ast.Call) and isinstance(e.func, ast.Name) and e.func.id == 'ModulePath' and len(e.args) == 1 \
			and isinstance(e.args[0], ast.Constant) and isinstance(e.args[0].value, str) \
			and [(k.arg, getattr(k.value, 'value', None)) for k in e.keywords] in ([], [('language', 'py')])
		if not ok:
			raise TranslateError(f'{PROVIDER}: library path of unknown shape: {ast.unparse(e)}')
		out.append(e.args[0].value)  # type: ignore[union-attr]
	return out


def search_dirs() -> list[str]:
	hits = [n for n in ast.walk(_parse(ENV)) if isinstance(n, ast.Assign) and any(isinstance(t, ast.Name) and t.id == 'default_dirs' for t in n.targets)]
	if len(hits) != 1 or not isinstance(hits[0].value, ast.List):
		raise TranslateError(f'{ENV}: expected exactly one list assignment to default_dirs')
	dirs: list[str] = []
	for e in hits[0].value.elts:
		s = ast.unparse(e)
		if s in ('os.getcwd()', 'tranp_dir()'):
			d = ''
		elif isinstance(e, ast.Call) and ast.unparse(e.func) == 'os.path.join' and len(e.args) == 2 and ast.unparse(e.args[0]) == 'tranp_dir()' \
				and isinstance(e.args[1], ast.Constant) and isinstance(e.args[1].value, str):
			d = e.args[1].value
		else:
			raise TranslateError(f'{ENV}: default directory of unknown shape: {s}')
		if d not in dirs:
			dirs.append(d)
	return dirs


def resolve(path: str, dirs: list[str]) -> str | None:
	for d in dirs:
		rel = os.path.join(d, path.replace('.', '/') + '.py')
		if os.path.isfile(os.path.join(REPO, rel)):
			return rel
	return None


def imports_of(rel: str) -> list[str]:
	out: list[str] = []
	for st in _parse(rel).body:
		if isinstance(st, ast.ImportFrom):
			if st.level or not st.module:
				raise TranslateError(f'{rel}:{st.lineno}: relative import in a library closure module')
			out.append(st.module)
		elif isinstance(st, ast.Import):
			out.extend(a.name for a in st.names)
	return out


def closure() -> tuple[list[str], list[tuple[str, str, list[str]]]]:
	libs = library_paths()
	dirs = search_dirs()
	mods: list[tuple[str, str, list[str]]] = []
	seen: list[str] = []
	todo = list(libs)
	while todo:
		p = todo.pop(0)
		if p in seen:
			continue
		rel = resolve(p, dirs)
		if rel is None:
			if p in libs:
				raise TranslateError(f'library module {p} has no file')
			continue
		seen.append(p)
		imps = imports_of(rel)
		mods.append((p, rel, imps))
		todo.extend(imps)
	for _p, rel, imps in mods:
		for i in imps:
			if i not in seen:
				raise TranslateError(f'{rel}: import {i} does not resolve to a file (the real loader would raise for it)')
	return libs, mods


def chars(s: str) -> str:
	return '[' + ', '.join("'\\''" if c == "'" else f"'{c}'" for c in s) + ']'


def render(libs: list[str], mods: list[tuple[str, str, list[str]]]) -> str:
	lines = ['/-', f'  GENERATED by translate/gen_lib_closure.py from {PROVIDER}, {ENV} and the library stub files — do not edit.',
		'  The modules every session loads first (`library_paths()`), their closure under top-level imports that resolve to files',
		'  (breadth first), and the import edges of each in source order.', '-/', 'import Tranp.Str', '', 'namespace Tranp.Generated.LibClosure', '',
		'/-- `library_paths()` -/', 'def libs : List (List Char) :=', '  [ ' + ',\n    '.join(chars(x) for x in libs) + ' ]', '',
		'/-- module path ↦ import edges (source order, one per import statement) -/', 'def modules : List (List Char × List (List Char)) :=']
	rows = [f"    -- {p}  ({rel})\n    ({chars(p)}, [{', '.join(chars(i) for i in imps)}])" for p, rel, imps in mods]
	lines.append('  [\n' + ',\n'.join(rows) + ' ]')
	lines += ['', 'end Tranp.Generated.LibClosure', '']
	return '\n'.join(lines)


def generate() -> list[dict[str, Any]]:
	libs, mods = closure()
	changed = write_if_changed(OUT, render(libs, mods))
	return [{'file': os.path.relpath(OUT, os.path.dirname(GENERATED_DIR)), 'source': f'{PROVIDER}, {ENV}, library stubs', 'entries': len(mods), 'changed': changed,
		'libs': libs, 'modules': {p: imps for p, _rel, imps in mods}}]


if __name__ == '__main__':
	for rec in generate():
		print(rec)
	sys.exit(0)
