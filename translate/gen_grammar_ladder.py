"""Translator: data/grammar.lark -> lean/Tranp/Generated/GrammarLadder.lean (property C02, also read by C01).

Reads the expression ladder `expression -> or_test -> ... -> factor -> primary -> atom` of the grammar and emits it as a
Lean table: one entry per rule with {rule, alias, inlined ('?'), fixity, operator spellings}, the alternatives of `comp_op`,
and the shapes of `ternary_test`, `lambdadef`, `primary`, `atom`, `group_expr`. Every rule is matched against the exact
shape this translator understands; anything else raises (-> "the tie is broken", never success).
"""
from __future__ import annotations

import hashlib
import os
import re
from typing import Any

from harness.common import GENERATED_DIR, REPO, write_if_changed

GRAMMAR = os.path.join(REPO, 'data', 'grammar.lark')
OUT = os.path.join(GENERATED_DIR, 'GrammarLadder.lean')



class GrammarShapeError(Exception):
	pass


def read_rules(text: str) -> dict[str, dict[str, Any]]:
	"""rule name -> {'mods': '?'/'!'/'', 'alts': [(body, alias|None)], 'params': str}. Comments are removed, continuation lines joined."""
	lines: list[str] = []
	for raw in text.splitlines():
		line = strip_comment(raw).rstrip()
		if not line.strip():
			continue
		if (raw[:1] in ' \t') and lines:
			lines[-1] += ' ' + line.strip()
		else:
			lines.append(line.strip())
	rules: dict[str, dict[str, Any]] = {}
	for line in lines:
		m = re.match(r'^([?!]*)([a-z_][a-z_0-9]*)(\{[^}]*\})?\s*:\s*(.*)$', line)
		if not m:
			continue  # terminals, %import, %ignore, %declare
		mods, name, params, body = m.group(1), m.group(2), m.group(3) or '', m.group(4)
		if name in rules:
			raise GrammarShapeError(f'rule {name} defined twice')
		rules[name] = {'mods': mods, 'alts': [split_alias(a) for a in split_top(body, '|')], 'params': params}
	return rules


def strip_comment(line: str) -> str:
	out = []
	in_str = False
	in_re = False
	i = 0
	while i < len(line):
		c = line[i]
		if in_str:
			out.append(c)
			if c == '\\' and i + 1 < len(line):
				out.append(line[i + 1])
				i += 1
			elif c == '"':
				in_str = False
		elif in_re:
			out.append(c)
			if c == '\\' and i + 1 < len(line):
				out.append(line[i + 1])
				i += 1
			elif c == '/':
				in_re = False
		elif c == '"':
			in_str = True
			out.append(c)
		elif c == '/' and line[i:i + 2] == '//':
			break
		elif c == '/' and (not out or out[-1] in ' (|:'):
			in_re = True
			out.append(c)
		else:
			out.append(c)
		i += 1
	return ''.join(out)


def split_top(body: str, sep: str) -> list[str]:
	parts, depth, cur, in_str = [], 0, [], False
	for c in body:
		if in_str:
			cur.append(c)
			if c == '"':
				in_str = False
			continue
		if c == '"':
			in_str = True
			cur.append(c)
		elif c in '([{':
			depth += 1
			cur.append(c)
		elif c in ')]}':
			depth -= 1
			cur.append(c)
		elif c == sep and depth == 0:
			parts.append(''.join(cur).strip())
			cur = []
		else:
			cur.append(c)
	parts.append(''.join(cur).strip())
	return parts


def split_alias(alt: str) -> tuple[str, str | None]:
	m = re.match(r'^(.*?)\s*->\s*([a-z_][a-z_0-9]*)$', alt)
	if m:
		return norm(m.group(1)), m.group(2)
	return norm(alt), None


def norm(s: str) -> str:
	return re.sub(r'\s+', ' ', s).strip()


def literals_of(rules: dict[str, dict[str, Any]], name: str) -> list[list[str]]:
	"""Alternatives of an operator rule such as `!_add_op: "+" | "-"`: each alternative a sequence of string literals."""
	r = rules.get(name)
	if r is None:
		raise GrammarShapeError(f'operator rule {name} missing')
	if '!' not in r['mods']:
		raise GrammarShapeError(f'operator rule {name} does not keep its tokens (no "!")')
	out = []
	for body, alias in r['alts']:
		toks = re.findall(r'"([^"]+)"', body)
		if not toks or norm(' '.join(f'"{t}"' for t in toks)) != body:
			raise GrammarShapeError(f'operator rule {name}: alternative {body!r} is not a sequence of literals')
		out.append((toks, alias))
	return out


def recognise(rules: dict[str, dict[str, Any]]) -> dict[str, Any]:
	"""Follows the ladder from `expression` downwards: the next rule is read off each rule's own body (not assumed), so a
	reordered ladder is emitted as it is and the Lean side (`C02.ladder_eq_python`) decides whether it still is CPython's."""
	levels: list[dict[str, Any]] = []
	comp_ops: list[dict[str, Any]] = []
	shapes: dict[str, Any] = {}
	name = 'expression'
	ident = r'[a-z_][a-z_0-9]*'
	while True:
		if len(levels) > 40 or any(lv['rule'] == name for lv in levels):
			raise GrammarShapeError(f'ladder does not reach `atom` (cycle or too long at {name})')
		r = rules.get(name)
		if r is None:
			raise GrammarShapeError(f'ladder rule {name} missing')
		inlined = '?' in r['mods']
		alts = r['alts']
		if name == 'expression':
			nxt = alts[0][0] if alts and re.fullmatch(ident, alts[0][0]) else None
			want = [(nxt, None), (f'{nxt} "if" {nxt} "else" expression', 'ternary_test'), ('lambdadef', None)]
			if nxt is None or alts != want:
				raise GrammarShapeError(f'expression: unexpected shape {alts}')
			lam = rules.get('lambdadef')
			if lam is None or lam['alts'] != [('"lambda" [lambdaparams] ":" expression', None)]:
				raise GrammarShapeError(f'lambdadef: unexpected shape {lam}')
			levels.append({'rule': name, 'alias': 'ternary_test', 'inlined': inlined, 'fixity': 'ternary', 'ops': ['if', 'else']})
			shapes['ternary'] = {'alias': 'ternary_test', 'body': nxt, 'test': nxt, 'orelse': 'expression', 'kw': ['if', 'else']}
			shapes['lambda'] = {'rule': 'lambdadef', 'params': 'lambdaparams', 'body': 'expression'}
			name = nxt
			continue
		if name == 'primary':
			want = [('primary "." name', 'getattr'), ('primary "(" [arguments] ")"', 'funccall'), ('primary "[" slices "]"', 'getitem'), ('atom', None)]
			if alts != want:
				raise GrammarShapeError(f'primary: unexpected shape {alts}')
			levels.append({'rule': name, 'alias': None, 'inlined': inlined, 'fixity': 'postfix', 'ops': ['.', '(', '[']})
			shapes['primary'] = [a for _, a in alts if a]
			name = 'atom'
			continue
		if name == 'atom':
			if ('group_expr', None) not in alts or rules.get('group_expr', {}).get('alts') != [('"(" expression ")"', None)]:
				raise GrammarShapeError('atom/group_expr: parenthesised expression is not `group_expr: "(" expression ")"`')
			if rules['group_expr']['mods'] != '':
				raise GrammarShapeError('group_expr must be a plain (kept) rule')
			levels.append({'rule': name, 'alias': None, 'inlined': inlined, 'fixity': 'atom', 'ops': []})
			shapes['atom'] = [a or b for b, a in alts]
			break
		# single alternative `next`
		if len(alts) == 1 and alts[0][1] is None and re.fullmatch(ident, alts[0][0]):
			levels.append({'rule': name, 'alias': None, 'inlined': inlined, 'fixity': 'pass', 'ops': []})
			name = alts[0][0]
			continue
		# `next (oprule next)*`
		if len(alts) == 1 and alts[0][1] is None:
			m = re.fullmatch(rf'({ident}) \(({ident}) \1\)\*', alts[0][0])
			if m:
				nxt, oprule = m.group(1), m.group(2)
				lits = literals_of(rules, oprule)
				if oprule.startswith('_'):
					if any(len(t) != 1 or a for t, a in lits):
						raise GrammarShapeError(f'{oprule}: inlined operator rule with multi-token or aliased alternative')
					levels.append({'rule': name, 'alias': None, 'inlined': inlined, 'fixity': 'infixl', 'ops': [t[0] for t, _ in lits]})
				else:
					# a kept rule (comp_op): every operator occurrence is a subtree named by the rule or the alternative's alias
					for toks, alias in lits:
						comp_ops.append({'tokens': toks, 'tree': alias or oprule})
					levels.append({'rule': name, 'alias': None, 'inlined': inlined, 'fixity': 'chain', 'ops': [' '.join(t) for t, _ in lits], 'oprule': oprule})
				name = nxt
				continue
		# prefix: `oprule self [-> alias] | next`
		if len(alts) == 2 and alts[1][1] is None and re.fullmatch(ident, alts[1][0]):
			m = re.fullmatch(rf'(_{ident}) {name}', alts[0][0])
			if m:
				lits = literals_of(rules, m.group(1))
				if any(len(t) != 1 or a for t, a in lits):
					raise GrammarShapeError(f'{m.group(1)}: prefix operator rule with multi-token or aliased alternative')
				levels.append({'rule': name, 'alias': alts[0][1], 'inlined': inlined, 'fixity': 'prefix', 'ops': [t[0] for t, _ in lits]})
				name = alts[1][0]
				continue
		raise GrammarShapeError(f'ladder rule {name}: shape not recognised: {alts}')
	return {'levels': levels, 'comp_ops': comp_ops, 'shapes': shapes}


def lexer_facts(text: str) -> dict[str, Any]:
	"""What the reference lexer must know about lark's contextual lexer, read off the LALR table lark builds for grammar.lark
	(same construction as rogw/tranp/implements/syntax/lark/parser.py:55-61):
	* `reserved`: every word-shaped anonymous string terminal of the grammar (the keywords; where the parser state accepts one of
	  them it wins over NAME, elsewhere the word is a NAME — grammar.lark reserves nothing globally);
	* `statement_start`: the words that are keyword terminals at the start of a statement but cannot start an expression
	  (`if`, `while`, `return`, …): a text beginning with one of them is not an expression statement;
	* `soft_names`: alternatives of the rule `name` that are string terminals (`match`, `case`) with their terminal names."""
	import lark
	from lark.indenter import PythonIndenter
	lk = lark.Lark(text, start='file_input', parser='lalr', postlex=PythonIndenter(), propagate_positions=True)
	table = lk.parser.parser._parse_table
	terms = {t.name: t for t in lk.terminals}

	def words(state: int) -> set[str]:
		out = set()
		for name in table.states[state].keys():
			t = terms.get(name)
			if t is not None and type(t.pattern).__name__ == 'PatternStr' and t.pattern.value.isidentifier():
				out.add(t.pattern.value)
		return out
	st0 = table.start_states['file_input']
	action = table.states[st0].get('LPAR')
	if action is None or str(action[0]) != 'Shift':
		raise GrammarShapeError('start state does not shift "(": cannot tell expression starts from statement starts')
	reserved = sorted(t.pattern.value for t in lk.terminals if type(t.pattern).__name__ == 'PatternStr' and t.pattern.value.isidentifier())
	soft = []
	for r in lk.rules:
		if r.origin.name == 'name' and len(r.expansion) == 1 and r.expansion[0].is_term:
			t = terms[r.expansion[0].name]
			if type(t.pattern).__name__ == 'PatternStr':
				soft.append((t.pattern.value, t.name))
	if 'NAME' not in terms:
		raise GrammarShapeError('terminal NAME missing')
	return {'reserved': reserved, 'statement_start': sorted(words(st0) - words(action[1])), 'soft_names': sorted(soft)}


def chars(s: str) -> str:
	"""Lean `List Char` literal (kernel-reducible, unlike `"..." .toList`)."""
	def one(c: str) -> str:
		if c == "'":
			return "'\\''"
		if c == '\\':
			return "'\\\\'"
		return f"'{c}'"
	return '[' + ', '.join(one(c) for c in s) + ']'


def opt(s: str | None) -> str:
	return 'none' if s is None else f'some {chars(s)}'


def render(table: dict[str, Any], sha: str) -> str:
	out = [
		'/-',
		'  GENERATED by verif/translate/gen_grammar_ladder.py from data/grammar.lark — do not edit.',
		f'  grammar sha256 = {sha}',
		'-/',
		'import Tranp.Model.Ladder',
		'',
		'namespace Tranp.Generated.GrammarLadder',
		'open Tranp.Ladder',
		'',
		'/-- the expression ladder, loosest rule first -/',
		'def ladder : List Rule := [',
	]
	rows = []
	for lv in table['levels']:
		ops = '[' + ', '.join(chars(o) for o in lv['ops']) + ']'
		rows.append(f"  ⟨{chars(lv['rule'])}, {opt(lv['alias'])}, {'true' if lv['inlined'] else 'false'}, Fix.{lv['fixity']}, {ops}⟩")
	out.append(',\n'.join(rows))
	out.append(']')
	out.append('')
	out.append('/-- alternatives of `comp_op`: token sequence and the name of the subtree lark builds for it -/')
	out.append('def compOps : List CompOp := [')
	out.append(',\n'.join('  ⟨[' + ', '.join(chars(t) for t in c['tokens']) + f"], {chars(c['tree'])}⟩" for c in table['comp_ops']))
	out.append(']')
	out.append('')
	sh = table['shapes']
	t = sh['ternary']
	out.append('/-- `body "if" test "else" orelse -> alias` -/')
	out.append(f"def ternary : TernaryShape := ⟨{chars(t['alias'])}, {chars(t['body'])}, {chars(t['test'])}, {chars(t['orelse'])}, {chars(t['kw'][0])}, {chars(t['kw'][1])}⟩")
	lam = sh['lambda']
	out.append(f"def lambdaShape : LambdaShape := ⟨{chars(lam['rule'])}, {chars(lam['params'])}, {chars(lam['body'])}⟩")
	lf = table['lexer']
	out.append('/-- word-shaped anonymous string terminals of grammar.lark (keywords; contextual, not globally reserved) -/')
	out.append('def reservedWords : List Tranp.Str := [' + ', '.join(chars(w) for w in lf['reserved']) + ']')
	out.append('/-- keyword terminals acceptable at the start of a statement that cannot start an expression -/')
	out.append('def statementStartWords : List Tranp.Str := [' + ', '.join(chars(w) for w in lf['statement_start']) + ']')
	out.append('/-- string alternatives of the rule `name` (soft keywords) with the name of their terminal -/')
	out.append('def softNameWords : List (Tranp.Str × Tranp.Str) := [' + ', '.join(f'({chars(w)}, {chars(t)})' for w, t in lf['soft_names']) + ']')
	out.append('def primaryAliases : List Tranp.Str := [' + ', '.join(chars(a) for a in sh['primary']) + ']')
	out.append('def atomAlternatives : List Tranp.Str := [' + ', '.join(chars(a) for a in sh['atom']) + ']')
	out.append('')
	out.append('end Tranp.Generated.GrammarLadder')
	out.append('')
	return '\n'.join(out)


def generate() -> list[dict[str, Any]]:
	with open(GRAMMAR, encoding='utf-8') as f:
		text = f.read()
	sha = hashlib.sha256(text.encode('utf-8')).hexdigest()
	table = recognise(read_rules(text))
	table['lexer'] = lexer_facts(text)
	changed = write_if_changed(OUT, render(table, sha))
	return [{'file': os.path.relpath(OUT, os.path.dirname(GENERATED_DIR)), 'source': 'data/grammar.lark', 'sha256': sha,
		'entries': len(table['levels']) + len(table['comp_ops']), 'changed': changed, 'lexer': table['lexer']}]


if __name__ == '__main__':
	for rec in generate():
		print(rec)
