"""Translator for property C03: the typed stub library -> lean/Tranp/Generated/Dunder.lean.

Reads (with `ast`, nothing is imported from the stub files):
  rogw/tranp/compatible/libralies/classes.py            every class (under its `@__actual__` name) with its methods,
                                                         every module-level function, constructors as functions
  rogw/tranp/compatible/libralies/collections/abc.py    Iterator / ItemsView / Pair (needed by `for … in`)
and the evaluated operator table `PythonClassOperations.__operators` (syntax/node/definition/accessible.py:57-83).

A row is `(class, method, declared self, parameter types, return type)`; annotations are rendered into the `Ty`
language of Tranp/Model/Ty.lean: names bound by `class C[T]` / `def f[T]` and `Self` become template variables.
An annotation the translator does not recognise is an error (the tie is broken), never a silent default.
"""
from __future__ import annotations

import ast
import os
from typing import Any

from harness.common import GENERATED_DIR, REPO, write_if_changed

SOURCES = [
	'rogw/tranp/compatible/libralies/classes.py',
	'rogw/tranp/compatible/libralies/collections/abc.py',
]
SCALARS = {'int': '.int', 'float': '.float', 'bool': '.bool', 'str': '.str'}


class TranslateError(Exception):
	pass


def lstr(s: str) -> str:
	"""A Python str as a kernel-reducible Lean `List Char` literal."""
	def ch(c: str) -> str:
		if c == "'":
			return "'\\''"
		if c == '\\':
			return "'\\\\'"
		if not (32 <= ord(c) < 127):
			raise TranslateError(f'non-ASCII name character {c!r}')
		return f"'{c}'"
	return '[' + ', '.join(ch(c) for c in s) + ']'


def tys(items: list[str]) -> str:
	out = '.nil'
	for it in reversed(items):
		out = f'(.cons {it} {out})'
	return out


class Annot:
	"""annotation AST -> Ty term"""

	def __init__(self, templates: set[str], actual_names: dict[str, str]) -> None:
		self.templates = templates
		self.actual = actual_names

	def ty(self, node: ast.expr | None) -> str:
		if node is None:
			raise TranslateError('missing annotation')
		if isinstance(node, ast.Constant):
			if node.value is None:
				return '.none'
			if isinstance(node.value, str):
				return self.ty(ast.parse(node.value, mode='eval').body)
			raise TranslateError(f'constant annotation {node.value!r}')
		if isinstance(node, ast.Name):
			return self.name(node.id, [])
		if isinstance(node, ast.BinOp) and isinstance(node.op, ast.BitOr):
			return f'(.union {tys(self.flat_or(node))})'
		if isinstance(node, ast.Subscript):
			if not isinstance(node.value, ast.Name):
				raise TranslateError(f'subscript of {ast.dump(node.value)}')
			sl = node.slice
			args = list(sl.elts) if isinstance(sl, ast.Tuple) else [sl]
			flat: list[str] = []
			for a in args:
				if isinstance(a, ast.List):
					# Callable[[A, B], R]: parameters then the return type (on_callable_type, reflections.py:514)
					flat.extend(self.ty(x) for x in a.elts)
				else:
					flat.append(self.ty(a))
			return self.name(node.value.id, flat)
		raise TranslateError(f'annotation {ast.dump(node)}')

	def flat_or(self, node: ast.expr) -> list[str]:
		if isinstance(node, ast.BinOp) and isinstance(node.op, ast.BitOr):
			return self.flat_or(node.left) + self.flat_or(node.right)
		return [self.ty(node)]

	def name(self, n: str, args: list[str]) -> str:
		if n in self.templates:
			if args:
				raise TranslateError(f'template {n} with arguments')
			return f'(.tvar {lstr(n)})'
		n = self.actual.get(n, n)
		if n in SCALARS and not args:
			return SCALARS[n]
		if n == 'None' and not args:
			return '.none'
		if n == 'Unknown' and not args:
			return '.unknown'
		if n == 'list' and len(args) == 1:
			return f'(.list {args[0]})'
		if n == 'dict' and len(args) == 2:
			return f'(.dict {args[0]} {args[1]})'
		if n == 'tuple':
			return f'(.tuple {tys(args)})'
		if n == 'Union':
			return f'(.union {tys(args)})'
		return f'(.cls {lstr(n)} {tys(args)})'


def actual_name(cls: ast.ClassDef | ast.FunctionDef) -> str:
	for d in cls.decorator_list:
		if isinstance(d, ast.Call) and isinstance(d.func, ast.Name) and d.func.id == '__actual__':
			arg = d.args[0]
			if not (isinstance(arg, ast.Constant) and isinstance(arg.value, str)):
				raise TranslateError(f'__actual__ argument of {cls.name}')
			return arg.value
	return cls.name


def type_params(node: Any) -> list[str]:
	out = []
	for tp in getattr(node, 'type_params', []) or []:
		if not isinstance(tp, ast.TypeVar):
			raise TranslateError(f'type parameter kind {type(tp).__name__} of {node.name}')
		out.append(tp.name)
	return out


def fn_params(fn: ast.FunctionDef, an: Annot, skip_first: bool) -> list[str]:
	a = fn.args
	if a.kwonlyargs or a.kwarg:
		raise TranslateError(f'keyword-only parameters in {fn.name}')
	ps = [*a.posonlyargs, *a.args]
	if skip_first:
		ps = ps[1:]
	out = [an.ty(p.annotation) for p in ps]
	if a.vararg:
		out.append(an.ty(a.vararg.annotation))
	return out


def collect() -> dict[str, Any]:
	methods: list[tuple[str, str, str, list[str], str]] = []
	funcs: list[tuple[str, bool, list[str], str]] = []
	classes: list[tuple[str, list[str]]] = []
	trees: list[ast.Module] = []
	actual: dict[str, str] = {}
	for rel in SOURCES:
		with open(os.path.join(REPO, rel), encoding='utf-8') as f:
			tree = ast.parse(f.read(), rel)
		trees.append(tree)
		for node in tree.body:
			if isinstance(node, ast.ClassDef):
				actual[node.name] = actual_name(node)
	for tree in trees:
		for node in tree.body:
			if isinstance(node, ast.ClassDef):
				cname = actual_name(node)
				ctemps = type_params(node)
				classes.append((cname, ctemps))
				an0 = Annot(set(ctemps), actual)
				self_ty = an0.name(cname, [f'(.tvar {lstr(t)})' for t in ctemps])
				for m in node.body:
					if not isinstance(m, ast.FunctionDef):
						continue
					if any(isinstance(d, ast.Name) and d.id in ('classmethod', 'staticmethod') for d in m.decorator_list):
						raise TranslateError(f'class/static method {cname}.{m.name} is not modelled')
					temps = set(ctemps) | set(type_params(m)) | {'Self'}
					an = Annot(temps, actual)
					ps = [*m.args.posonlyargs, *m.args.args]
					if not ps:
						raise TranslateError(f'method without self: {cname}.{m.name}')
					recv = an.ty(ps[0].annotation) if ps[0].annotation is not None else self_ty
					params = fn_params(m, an, True)
					ret = an.ty(m.returns)
					if m.name == '__init__':
						# FunctionTrait._build_schema (reflection/traits.py:463-465): a constructor returns its class
						funcs.append((cname, True, params, self_ty))
					else:
						methods.append((cname, m.name, recv, params, ret))
			elif isinstance(node, ast.FunctionDef):
				if node.name == '__actual__':
					continue
				an = Annot(set(type_params(node)), actual)
				funcs.append((actual_name(node), False, fn_params(node, an, False), an.ty(node.returns)))
	from rogw.tranp.syntax.node.definition.accessible import PythonClassOperations as Ops
	operators = dict(getattr(Ops, '_PythonClassOperations__operators'))
	if not operators or not all(isinstance(k, str) and isinstance(v, str) for k, v in operators.items()):
		raise TranslateError('operator table not recognised')
	return {'methods': methods, 'funcs': funcs, 'classes': classes, 'operators': operators, 'iterator': Ops.iterator, 'iterable': Ops.iterable}


def render(t: dict[str, Any]) -> str:
	out = [
		'/-',
		'  GENERATED by verif/translate/gen_dunder.py from',
		*[f'    <repo>/{s}' for s in SOURCES],
		'    PythonClassOperations.__operators (rogw/tranp/syntax/node/definition/accessible.py)',
		'  Do not edit; rewritten on every run of ./check C03.',
		'-/',
		'import Tranp.Model.Ty',
		'',
		'namespace Tranp.Generated.Dunder',
		'open Tranp.Infer',
		'',
		'/-- (class, method, declared self, parameter types, return type) -/',
		'def methods : List Method := [',
	]
	rows = [f'  ⟨{lstr(c)}, {lstr(m)}, {recv}, {tys(ps)}, {ret}⟩' for c, m, recv, ps, ret in t['methods']]
	out.append(',\n'.join(rows))
	out += [']', '', '/-- module-level stub functions; a class constructor appears under the class name and returns the class -/', 'def funcs : List Func := [']
	out.append(',\n'.join(f"  ⟨{lstr(n)}, {'true' if ctor else 'false'}, {tys(ps)}, {ret}⟩" for n, ctor, ps, ret in t['funcs']))
	out += [']', '', '/-- operator token -> special method name -/', 'def operators : List (Tranp.Str × Tranp.Str) := [']
	out.append(',\n'.join(f'  ({lstr(k)}, {lstr(v)})' for k, v in t['operators'].items()))
	out += [']', '', f"def iteratorName : Tranp.Str := {lstr(t['iterator'])}", f"def iterableName : Tranp.Str := {lstr(t['iterable'])}", '', 'end Tranp.Generated.Dunder', '']
	return '\n'.join(out)


def generate() -> list[dict[str, Any]]:
	t = collect()
	for need in [('int', '__add__'), ('float', '__truediv__'), ('bool', '__and__'), ('str', '__mul__'), ('list', 'pop'), ('dict', 'get'), ('str', 'split'), ('list', '__iter__'), ('Iterator', '__next__')]:
		if not any((c, m) == need for c, m, *_ in t['methods']):
			raise TranslateError(f'expected stub method {need[0]}.{need[1]} not found')
	path = os.path.join(GENERATED_DIR, 'Dunder.lean')
	changed = write_if_changed(path, render(t))
	return [{
		'file': 'lean/Tranp/Generated/Dunder.lean',
		'source': SOURCES + ['rogw/tranp/syntax/node/definition/accessible.py: PythonClassOperations.__operators'],
		'entries': len(t['methods']) + len(t['funcs']) + len(t['operators']),
		'methods': len(t['methods']), 'funcs': len(t['funcs']), 'operators': len(t['operators']),
		'classes': [c for c, _ in t['classes']],
		'changed': changed,
	}]
