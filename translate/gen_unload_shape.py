"""Translator for property C04: what `unload` removes, statement by statement.

Reads the AST of the four `unload` methods (never imports them) and writes `lean/Tranp/Generated/UnloadShape.lean`: each method as a
list of statements of a small removal language, in source order

    rogw/tranp/module/modules.py          Modules.unload        (guard `if module_path in self.__modules:` around the whole body)
    rogw/tranp/providers/module.py        ModuleLoader.unload
    rogw/tranp/syntax/ast/entrypoints.py  Entrypoints.unload
    rogw/tranp/semantics/reflection/db.py SymbolDB.unload

Recognised statements (p = the parameter of the method; anything else — an early return, a new condition, another call, an else
branch — is a TranslateError: the tie is broken, never a silent default):

    if p in self.T: del self.T[p]                       delKeyIfPresent T
    if p in self.T: self.T.remove(p)                    removeIfPresent T
    del self.T[p]                                       delKey T
    ks = [k for k in self.A.keys() if self.B[k][0] == p]
    for k in ks: del self.B[k]; del self.A[k]           delKeysOfModule [B, A]      (two statements, read together)
    self.C.unload(p.path) / self.C.unload(p)            callUnload C                (C: an attribute whose class is read from the
    x = self.T[p] ; self.C.unload(x.module_path)        callUnload C                 constructor's annotations)
    for d in self.__dependent_paths(p): self.unload(d)  cascade

`Tranp.C04.unload_generated` proves that running these lists (Lemmas/UnloadShape.lean) IS the model's `unload` with its cascade,
`unload_one_generated` that the statements before the cascade are the model's removal of one module.
"""
from __future__ import annotations

import ast
import os
import sys
from typing import Any

from harness.common import GENERATED_DIR, REPO, write_if_changed

OUT = os.path.join(GENERATED_DIR, 'UnloadShape.lean')

METHODS = [
	# (lean name, file, class, needs a guard around the whole body)
	('modulesUnload', 'rogw/tranp/module/modules.py', 'Modules'),
	('loaderUnload', 'rogw/tranp/providers/module.py', 'ModuleLoader'),
	('entrypointsUnload', 'rogw/tranp/syntax/ast/entrypoints.py', 'Entrypoints'),
	('symbolDbUnload', 'rogw/tranp/semantics/reflection/db.py', 'SymbolDB'),
]
TABLES = {'__modules': 'modules', '__entrypoints': 'entrypoints', '__completed': 'completed', '__items': 'items', '__paths': 'paths'}
# attribute that holds a collaborator -> (lean name, class the constructor must annotate it with)
COMPONENTS = {'__loader': ('loader', 'IModuleLoader'), 'entrypoints': ('entrypoints', 'Entrypoints'), 'db': ('db', 'SymbolDB')}


class TranslateError(Exception):
	pass


def _class(rel: str, name: str) -> ast.ClassDef:
	with open(os.path.join(REPO, rel), encoding='utf-8') as f:
		tree = ast.parse(f.read())
	hits = [n for n in tree.body if isinstance(n, ast.ClassDef) and n.name == name]
	if len(hits) != 1:
		raise TranslateError(f'{rel}: expected exactly one class {name}')
	return hits[0]


def _method(cls: ast.ClassDef, rel: str, name: str) -> ast.FunctionDef:
	hits = [n for n in cls.body if isinstance(n, ast.FunctionDef) and n.name == name]
	if len(hits) != 1:
		raise TranslateError(f'{rel}: expected exactly one method {cls.name}.{name}')
	return hits[0]


def _body(fn: ast.FunctionDef) -> list[ast.stmt]:
	body = list(fn.body)
	if body and isinstance(body[0], ast.Expr) and isinstance(body[0].value, ast.Constant) and isinstance(body[0].value.value, str):
		body = body[1:]
	return body


def _self_attr(e: ast.AST) -> str | None:
	return e.attr if isinstance(e, ast.Attribute) and isinstance(e.value, ast.Name) and e.value.id == 'self' else None


def _is_name(e: ast.AST, name: str) -> bool:
	return isinstance(e, ast.Name) and e.id == name


def _table(e: ast.AST, where: str) -> str:
	a = _self_attr(e)
	if a is None or a not in TABLES:
		raise TranslateError(f'{where}: not a known table: {ast.unparse(e)}')
	return TABLES[a]


def _del_of(st: ast.stmt, key: str) -> ast.AST | None:
	"""`del self.T[key]` -> the expression self.T"""
	if isinstance(st, ast.Delete) and len(st.targets) == 1 and isinstance(st.targets[0], ast.Subscript) and _is_name(st.targets[0].slice, key):
		return st.targets[0].value
	return None


def _in_test(test: ast.AST, p: str) -> ast.AST | None:
	"""`p in self.T` -> self.T"""
	if isinstance(test, ast.Compare) and _is_name(test.left, p) and len(test.ops) == 1 and isinstance(test.ops[0], ast.In) and len(test.comparators) == 1:
		return test.comparators[0]
	return None


def statements(body: list[ast.stmt], p: str, where: str, ctor: dict[str, str]) -> list[str]:
	out: list[str] = []
	aliases: dict[str, str] = {}  # local name -> table it was read from with key p
	i = 0
	while i < len(body):
		st = body[i]
		at = f'{where}:{st.lineno}'
		src = ast.unparse(st).splitlines()[0]
		# if p in self.T: del self.T[p]  /  self.T.remove(p)
		if isinstance(st, ast.If):
			tab = _in_test(st.test, p)
			if tab is None or st.orelse or len(st.body) != 1:
				raise TranslateError(f'{at}: conditional of unknown shape (the model removes unconditionally): {src}')
			inner = st.body[0]
			d = _del_of(inner, p)
			if d is not None and ast.dump(d) == ast.dump(tab):
				out.append(f'.delKeyIfPresent .{_table(tab, at)}')
			elif isinstance(inner, ast.Expr) and isinstance(inner.value, ast.Call) and isinstance(inner.value.func, ast.Attribute) and inner.value.func.attr == 'remove' \
					and ast.dump(inner.value.func.value) == ast.dump(tab) and len(inner.value.args) == 1 and _is_name(inner.value.args[0], p) and not inner.value.keywords:
				out.append(f'.removeIfPresent .{_table(tab, at)}')
			else:
				raise TranslateError(f'{at}: conditional of unknown shape: {src}')
		# del self.T[p]
		elif _del_of(st, p) is not None:
			out.append(f'.delKey .{_table(_del_of(st, p), at)}')  # type: ignore[arg-type]
		# x = self.T[p]
		elif isinstance(st, ast.Assign) and len(st.targets) == 1 and isinstance(st.targets[0], ast.Name) and isinstance(st.value, ast.Subscript) \
				and _self_attr(st.value.value) in TABLES and _is_name(st.value.slice, p):
			aliases[st.targets[0].id] = TABLES[_self_attr(st.value.value)]  # type: ignore[index]
		# ks = [k for k in self.A.keys() if self.B[k][0] == p] ; for k in ks: del self.B[k]; del self.A[k]
		elif isinstance(st, ast.Assign) and isinstance(st.value, ast.ListComp):
			lc = st.value
			nxt = body[i + 1] if i + 1 < len(body) else None
			ok = len(st.targets) == 1 and isinstance(st.targets[0], ast.Name) and len(lc.generators) == 1 and isinstance(lc.elt, ast.Name)
			if ok:
				g = lc.generators[0]
				k = lc.elt.id
				ok = _is_name(g.target, k) and not g.is_async and isinstance(g.iter, ast.Call) and isinstance(g.iter.func, ast.Attribute) and g.iter.func.attr == 'keys' \
					and not g.iter.args and len(g.ifs) == 1
			if ok:
				a_tab = _table(g.iter.func.value, at)
				c = g.ifs[0]
				ok = isinstance(c, ast.Compare) and len(c.ops) == 1 and isinstance(c.ops[0], ast.Eq) and _is_name(c.comparators[0], p) and isinstance(c.left, ast.Subscript) \
					and isinstance(c.left.slice, ast.Constant) and c.left.slice.value == 0 and isinstance(c.left.value, ast.Subscript) and _is_name(c.left.value.slice, k)
			if ok:
				b_tab = _table(c.left.value.value, at)
				ok = isinstance(nxt, ast.For) and not nxt.orelse and isinstance(nxt.target, ast.Name) and _is_name(nxt.iter, st.targets[0].id)
			if ok:
				dels = [_del_of(x, nxt.target.id) for x in nxt.body]
				ok = all(d is not None for d in dels)
			if not ok:
				raise TranslateError(f'{at}: key removal of unknown shape: {src}')
			tabs = [_table(d, at) for d in dels]  # type: ignore[arg-type]
			if sorted(tabs) != sorted({a_tab, b_tab}) or len(tabs) != 2:
				raise TranslateError(f'{at}: the keys are selected from {a_tab} / {b_tab} but deleted from {tabs}')
			out.append(f"(.delKeysOfModule [{', '.join('.' + t for t in tabs)}])")
			i += 1
		# self.C.unload(..)
		elif isinstance(st, ast.Expr) and isinstance(st.value, ast.Call) and isinstance(st.value.func, ast.Attribute) and st.value.func.attr == 'unload' \
				and _self_attr(st.value.func.value) in COMPONENTS and len(st.value.args) == 1 and not st.value.keywords:
			comp, want = COMPONENTS[_self_attr(st.value.func.value)]  # type: ignore[index]
			if ctor.get(_self_attr(st.value.func.value) or '') != want:
				raise TranslateError(f"{at}: self.{_self_attr(st.value.func.value)} is not annotated {want} by the constructor (found {ctor.get(_self_attr(st.value.func.value) or '')})")
			arg = st.value.args[0]
			arg_ok = _is_name(arg, p) or (isinstance(arg, ast.Attribute) and arg.attr == 'path' and _is_name(arg.value, p)) \
				or (isinstance(arg, ast.Attribute) and arg.attr == 'module_path' and isinstance(arg.value, ast.Name) and aliases.get(arg.value.id) == 'modules')
			if not arg_ok:
				raise TranslateError(f'{at}: unload of something else than the module being unloaded: {src}')
			out.append(f'.callUnload .{comp}')
		# for d in self.__dependent_paths(p): self.unload(d)
		elif isinstance(st, ast.For) and not st.orelse and isinstance(st.target, ast.Name) and isinstance(st.iter, ast.Call) and _self_attr(st.iter.func) == '__dependent_paths' \
				and len(st.iter.args) == 1 and _is_name(st.iter.args[0], p) and len(st.body) == 1 and isinstance(st.body[0], ast.Expr) \
				and isinstance(st.body[0].value, ast.Call) and _self_attr(st.body[0].value.func) == 'unload' and len(st.body[0].value.args) == 1 \
				and _is_name(st.body[0].value.args[0], st.target.id):
			out.append('.cascade')
		else:
			raise TranslateError(f'{at}: statement of unknown shape in an unload method (the model removes unconditionally, in this order): {src}')
		i += 1
	return out


def ctor_annotations(cls: ast.ClassDef, rel: str) -> dict[str, str]:
	"""attribute -> annotation of the constructor parameter it is assigned from (`self.x = x` / `self.__x = x`)"""
	inits = [n for n in cls.body if isinstance(n, ast.FunctionDef) and n.name == '__init__']
	if not inits:
		return {}
	ann = {a.arg: ast.unparse(a.annotation) for a in inits[0].args.args if a.annotation is not None}
	out: dict[str, str] = {}
	for st in ast.walk(inits[0]):
		if isinstance(st, ast.Assign) and len(st.targets) == 1 and _self_attr(st.targets[0]) and isinstance(st.value, ast.Name) and st.value.id in ann:
			out[_self_attr(st.targets[0])] = ann[st.value.id]  # type: ignore[index]
	return out


def read() -> dict[str, dict[str, Any]]:
	out: dict[str, dict[str, Any]] = {}
	for lean, rel, cname in METHODS:
		cls = _class(rel, cname)
		fn = _method(cls, rel, 'unload')
		params = [a.arg for a in fn.args.args]
		if len(params) != 2 or params[0] != 'self' or fn.args.vararg or fn.args.kwarg or fn.args.kwonlyargs or fn.args.defaults:
			raise TranslateError(f'{rel}:{fn.lineno}: {cname}.unload takes {params}')
		p = params[1]
		body = _body(fn)
		guarded = False
		if lean == 'modulesUnload':
			# the registry guards its whole body: unload of an unregistered module does nothing
			if len(body) != 1 or not isinstance(body[0], ast.If) or body[0].orelse or _in_test(body[0].test, p) is None \
					or _table(_in_test(body[0].test, p), f'{rel}:{body[0].lineno}') != 'modules':  # type: ignore[arg-type]
				raise TranslateError(f'{rel}:{fn.lineno}: Modules.unload is not `if {p} in self.__modules: ...` around its whole body')
			body = list(body[0].body)
			guarded = True
		out[lean] = {'file': rel, 'line': fn.lineno, 'class': cname, 'guarded': guarded, 'stmts': statements(body, p, rel, ctor_annotations(cls, rel))}
	return out


def render(tab: dict[str, dict[str, Any]]) -> str:
	lines = ['/-', '  GENERATED by translate/gen_unload_shape.py from the four `unload` methods — do not edit.',
		'  Each method as the list of its statements (removal language below), in source order.', '-/', '', 'namespace Tranp.Generated.UnloadShape', '',
		'/-- the tables the statements touch (`self.__modules`, `self.__entrypoints`, `self.__completed`, `self.__items`, `self.__paths`) -/',
		'inductive Table where', '  | modules | entrypoints | completed | items | paths', 'deriving DecidableEq, Repr', '',
		'/-- collaborators whose `unload` is called (`self.__loader`, `self.entrypoints`, `self.db`) -/',
		'inductive Component where', '  | loader | entrypoints | db', 'deriving DecidableEq, Repr', '',
		'inductive Stmt where', '  /-- `if p in self.T: del self.T[p]` -/', '  | delKeyIfPresent (t : Table)', '  /-- `if p in self.T: self.T.remove(p)` -/',
		'  | removeIfPresent (t : Table)', '  /-- `del self.T[p]` -/', '  | delKey (t : Table)',
		'  /-- `ks = [k for k in self.A.keys() if self.B[k][0] == p]; for k in ks: del ..[k]; del ..[k]` (tables in deletion order) -/',
		'  | delKeysOfModule (ts : List Table)', '  /-- `self.C.unload(<the module being unloaded>)` -/', '  | callUnload (c : Component)',
		'  /-- `for d in self.__dependent_paths(p): self.unload(d)` -/', '  | cascade', 'deriving DecidableEq, Repr', '']
	for lean, rec in tab.items():
		lines.append(f"/-- `{rec['class']}.unload` ({rec['file']}:{rec['line']}){' — inside `if p in self.__modules:`' if rec['guarded'] else ''} -/")
		lines.append(f"def {lean} : List Stmt := [{', '.join(rec['stmts'])}]")
		lines.append('')
	lines += ['end Tranp.Generated.UnloadShape', '']
	return '\n'.join(lines)


def generate() -> list[dict[str, Any]]:
	tab = read()
	changed = write_if_changed(OUT, render(tab))
	return [{'file': os.path.relpath(OUT, os.path.dirname(GENERATED_DIR)), 'source': ', '.join(r['file'] for r in tab.values()), 'entries': sum(len(r['stmts']) for r in tab.values()),
		'changed': changed, 'methods': {k: r['stmts'] for k, r in tab.items()}}]


if __name__ == '__main__':
	for rec in generate():
		print(rec)
	sys.exit(0)
