"""Statement-by-statement translation of the registry methods of rogw/tranp/lang/di.py into Lean `do` blocks (property C19).

Used by translate/gen_di_state.py, which writes the result to lean/Tranp/Generated/DIMethods.lean. The target language is the
monad `PyM` of lean/Tranp/Model/DIPy.lean (receiver + instance counter, value or exception). Props/C19.lean proves the generated
bodies equal to the hand-written model functions, so the theorems about the model are theorems about these statements.

Translated: every method of DI and LazyDI except `invoke` and its three introspection helpers (`__to_annotated`,
`__pluck_annotations`, `__assert_invoke`: Python-level inspection of the factory object, tied by the correspondence stream),
the constructors, `instantiate`, and `_clone` / `combine` (translated as terms by gen_di_state.builders).
`self.invoke(...)` inside `resolve` is a parameter of the generated code.

Anything outside the small statement / expression language below raises TranslateError (= broken tie).
"""
from __future__ import annotations

import ast
from typing import Any

FIELDS = {'__instances': 'instances', '__injectors': 'injectors', '__invocations': 'invocations', '__definitions': 'definitions'}
SKIP = {'__init__', 'invoke', '__to_annotated', '__pluck_annotations', '__assert_invoke', 'instantiate', '_clone', 'combine'}
PARAM_TYPES = {'type': 'SymRef', 'type[T_Inst]': 'SymRef', 'type[Any]': 'SymRef', 'Injector[T_Inst]': 'Factory', 'str | Injector[Any]': 'Injector', 'str': 'Nat'}
RETURN_TYPES = {'bool': 'Bool', 'None': 'Unit', 'type[T_Inst]': 'SymRef', 'type[T_Inst] | None': 'Option SymRef', 'T_Inst': 'Obj', 'str': 'Nat'}
ERRORS = {'ValueError': '.valueError', 'TypeError': '.typeError', 'KeyError': '.keyError', 'AttributeError': '.attributeError', 'IndexError': '.indexError'}
LEAN_RESERVED = {'from', 'at', 'end', 'fun', 'do', 'then', 'else', 'if', 'let', 'match', 'with', 'in', 'have', 'show', 'by', 'where', 'open', 'def', 'theorem', 'instance', 'class', 'structure', 'return', 'lazy', 'invoke', 'self'}


class TranslateError(Exception):
	pass


def _is_doc(n: ast.stmt) -> bool:
	return isinstance(n, ast.Expr) and isinstance(n.value, ast.Constant) and isinstance(n.value.value, str)


def lean_def(cls: str, meth: str) -> str:
	return f'gen_{cls}_{meth}'


class Unit:
	"""one class pair; `methods[cls]` = names defined in cls"""

	def __init__(self, source: str, fns: dict[str, list[ast.FunctionDef]]) -> None:
		self.source = source
		self.fns = {c: {f.name: f for f in fl} for c, fl in fns.items()}
		self.targets = [(c, f.name) for c in ('DI', 'LazyDI') for f in fns[c] if f.name not in SKIP]
		self.calls: dict[tuple[str, str], list[tuple[str, str]]] = {}
		self.uses_invoke: dict[tuple[str, str], bool] = {}

	# --- dispatch

	def owner_of(self, cls: str, kind: str, name: str) -> list[str]:
		"""classes whose definition can run for the call (one entry = static, two = by dynamic class [DI, LazyDI])"""
		if kind == 'super':
			if cls != 'LazyDI' or name not in self.fns['DI']:
				raise TranslateError(f'super().{name} in {cls}')
			return ['DI']
		if name.startswith('__') and not name.endswith('__'):
			if name not in self.fns[cls]:
				raise TranslateError(f'private method {name} is not defined in {cls}')
			return [cls]
		if cls == 'LazyDI':
			return ['LazyDI' if name in self.fns['LazyDI'] else 'DI']
		if name not in self.fns['DI']:
			raise TranslateError(f'method {name} is not defined in DI')
		return ['DI', 'LazyDI'] if name in self.fns['LazyDI'] else ['DI']


class Method:
	def __init__(self, unit: Unit, cls: str, fn: ast.FunctionDef) -> None:
		self.u = unit
		self.cls = cls
		self.fn = fn
		self.where = f'{unit.source}:{fn.lineno} {cls}.{fn.name}'
		self.callees: list[tuple[str, str]] = []
		self.invokes = False
		args = fn.args
		if args.posonlyargs or args.kwonlyargs or args.vararg or args.kwarg or args.defaults:
			raise TranslateError(f'{self.where}: parameter list')
		if not args.args or args.args[0].arg != 'self':
			raise TranslateError(f'{self.where}: first parameter')
		self.params: list[tuple[str, str]] = []
		for a in args.args[1:]:
			t = ast.unparse(a.annotation) if a.annotation is not None else '?'
			if t not in PARAM_TYPES:
				raise TranslateError(f'{self.where}: parameter {a.arg}: {t}')
			self.params.append((self.local(a.arg), PARAM_TYPES[t]))
		r = ast.unparse(fn.returns) if fn.returns is not None else '?'
		if r not in RETURN_TYPES:
			raise TranslateError(f'{self.where}: return type {r}')
		self.ret = RETURN_TYPES[r]

	def err(self, node: ast.AST, what: str) -> TranslateError:
		return TranslateError(f'{self.where}:{getattr(node, "lineno", "?")}: {what} `{ast.unparse(node)[:80]}`')

	def local(self, name: str) -> str:
		if not name.isidentifier() or not name.isascii():
			raise TranslateError(f'{self.where}: name {name}')
		return name + "'" if name in LEAN_RESERVED else name

	# --- expressions

	def field(self, e: ast.expr) -> str | None:
		if isinstance(e, ast.Attribute) and e.attr in FIELDS and isinstance(e.value, ast.Name) and e.value.id == 'self':
			return FIELDS[e.attr]
		return None

	def call_raw(self, e: ast.Call) -> str | None:
		"""the action term of a call on the receiver, None if `e` is not one"""
		f = e.func
		if not isinstance(f, ast.Attribute) or e.keywords:
			return None
		if isinstance(f.value, ast.Name) and f.value.id == 'self':
			kind = 'virt'
		elif isinstance(f.value, ast.Call) and isinstance(f.value.func, ast.Name) and f.value.func.id == 'super' and not f.value.args:
			kind = 'super'
		else:
			return None
		args = ' '.join(f'({self.ex(a)})' for a in e.args)
		if f.attr == 'invoke' and kind == 'virt':
			self.invokes = True
			return f"invoke' {args}"
		if f.attr in SKIP:
			raise self.err(e, 'call of a method that is not translated')
		owners = self.u.owner_of(self.cls, kind, f.attr)
		for o in owners:
			self.callees.append((o, f.attr))

		def one(o: str) -> str:
			return f'{lean_def(o, f.attr)} lazy\' «INV:{o}.{f.attr}» {args}'.rstrip()
		if len(owners) == 1:
			return one(owners[0])
		return f'(if lazy\' then {one("LazyDI")} else {one("DI")})'

	def ex(self, e: ast.expr) -> str:
		if isinstance(e, ast.Name):
			return self.local(e.id)
		if isinstance(e, ast.Constant) and e.value is None:
			return 'none'
		if isinstance(e, ast.Call):
			raw = self.call_raw(e)
			if raw is not None:
				return f'(← {raw})'
			if isinstance(e.func, ast.Name) and not e.keywords:
				fn, args = e.func.id, e.args
				if fn == 'getattr' and len(args) == 3 and isinstance(args[1], ast.Constant) and args[1].value == '__origin__' and ast.dump(args[0]) == ast.dump(args[2]):
					return f'({self.ex(args[0])}).originRef'
				if fn == 'to_fullyname' and len(args) == 1:
					return f'({self.ex(args[0])}).path'
				if fn == 'load_module_path' and len(args) == 1:
					return f'(← PyM.liftE (loadSymbol ({self.ex(args[0])})))'
			raise self.err(e, 'call')
		if isinstance(e, ast.Compare) and len(e.ops) == 1:
			op, left, right = e.ops[0], e.left, e.comparators[0]
			if isinstance(op, (ast.Is, ast.IsNot)) and isinstance(right, ast.Constant) and right.value is None:
				return f"({self.ex(left)}).{'isNone' if isinstance(op, ast.Is) else 'isSome'}"
			fld = self.field(right)
			if fld is not None and isinstance(op, (ast.In, ast.NotIn)):
				t = f'(← PyM.self).{fld}.contains (PyKey.key ({self.ex(left)}))'
				return t if isinstance(op, ast.In) else f'!({t})'
			raise self.err(e, 'comparison')
		if isinstance(e, ast.UnaryOp) and isinstance(e.op, ast.Not):
			return f'!({self.ex(e.operand)})'
		if isinstance(e, ast.BoolOp):
			return '(' + (' && ' if isinstance(e.op, ast.And) else ' || ').join(f'({self.ex(v)})' for v in e.values) + ')'
		if isinstance(e, ast.IfExp):
			if isinstance(e.orelse, ast.Constant) and e.orelse.value is None:
				return f'(if {self.ex(e.test)} then some ({self.ex(e.body)}) else none)'
			# `injector if callable(injector) else load_module_path(injector)`
			if (isinstance(e.test, ast.Call) and isinstance(e.test.func, ast.Name) and e.test.func.id == 'callable' and len(e.test.args) == 1
					and isinstance(e.body, ast.Name) and ast.dump(e.test.args[0]) == ast.dump(e.body)
					and isinstance(e.orelse, ast.Call) and isinstance(e.orelse.func, ast.Name) and e.orelse.func.id == 'load_module_path'
					and len(e.orelse.args) == 1 and ast.dump(e.orelse.args[0]) == ast.dump(e.body)):
				return f'(← PyM.liftE (Injector.load ({self.ex(e.body)})))'
			raise self.err(e, 'conditional expression')
		if isinstance(e, ast.Subscript) and isinstance(e.ctx, ast.Load):
			fld = self.field(e.value)
			if fld is not None:
				return f'(← PyM.getItem (← PyM.self).{fld} (PyKey.key ({self.ex(e.slice)})))'
		raise self.err(e, 'expression')

	# --- statements

	def block(self, stmts: list[ast.stmt], ind: str) -> list[str]:
		out: list[str] = []
		for st in stmts:
			if _is_doc(st):
				continue
			out += self.stmt(st, ind)
		if not out:
			out.append(f'{ind}pure ()')
		return out

	def stmt(self, st: ast.stmt, ind: str) -> list[str]:
		if isinstance(st, ast.Assign) and len(st.targets) == 1:
			t = st.targets[0]
			if isinstance(t, ast.Name):
				return [f'{ind}let {self.local(t.id)} := {self.ex(st.value)}']
			if isinstance(t, ast.Subscript):
				fld = self.field(t.value)
				if fld is not None:
					return [f'{ind}let k\' := PyKey.key ({self.ex(t.slice)})', f'{ind}let v\' := {self.ex(st.value)}',
						f'{ind}PyM.modify (fun c\' => {{ c\' with {fld} := c\'.{fld}.set k\' v\' }})']
			raise self.err(st, 'assignment')
		if isinstance(st, ast.Delete) and len(st.targets) == 1 and isinstance(st.targets[0], ast.Subscript):
			fld = self.field(st.targets[0].value)
			if fld is not None:
				return [f'{ind}let k\' := PyKey.key ({self.ex(st.targets[0].slice)})', f'{ind}PyM.checkDel (← PyM.self).{fld} k\'',
					f'{ind}PyM.modify (fun c\' => {{ c\' with {fld} := c\'.{fld}.del k\' }})']
			raise self.err(st, 'del')
		if isinstance(st, ast.Raise) and isinstance(st.exc, ast.Call) and isinstance(st.exc.func, ast.Name) and st.exc.func.id in ERRORS and st.cause is None:
			return [f'{ind}PyM.raise {ERRORS[st.exc.func.id]}']
		if isinstance(st, ast.Return):
			if st.value is None:
				return [f'{ind}return ()']
			if self.ret == 'Unit':
				# `return super().bind(...)` of a method that returns None
				if isinstance(st.value, ast.Call) and self.call_raw(st.value) is not None:
					return [f'{ind}{self.call_raw(st.value)}']
				raise self.err(st, 'return of a value from a method declared `-> None`')
			return [f'{ind}return {self.ex(st.value)}']
		if isinstance(st, ast.Expr) and isinstance(st.value, ast.Call):
			raw = self.call_raw(st.value)
			if raw is not None:
				return [f'{ind}let _ ← {raw}']
			raise self.err(st, 'expression statement')
		if isinstance(st, ast.If):
			if st.orelse:
				raise self.err(st, 'if with else')
			t = st.test
			if isinstance(t, ast.Compare) and len(t.ops) == 1 and isinstance(t.left, ast.Name) and isinstance(t.comparators[0], ast.Constant) and t.comparators[0].value is None:
				x = self.local(t.left.id)
				if isinstance(t.ops[0], ast.Is):
					body = [b for b in st.body if not _is_doc(b)]
					if len(body) == 1 and isinstance(body[0], ast.Raise):
						return [f'{ind}let some {x} := {x} | {self.stmt(body[0], "")[0]}']
					raise self.err(st, '`is None` guard that does not raise')
				if isinstance(t.ops[0], ast.IsNot):
					return [f'{ind}if let some {x} := {x} then', *self.block(st.body, ind + '  ')]
			return [f'{ind}if {self.ex(t)} then', *self.block(st.body, ind + '  ')]
		raise self.err(st, f'statement {type(st).__name__}')

	def render(self) -> tuple[str, list[str]]:
		body = self.block(list(self.fn.body), '  ')
		last = [s for s in self.fn.body if not _is_doc(s)][-1]
		if self.ret == 'Unit' and not isinstance(last, ast.Return):
			body.append('  pure ()')
		elif self.ret != 'Unit' and not isinstance(last, ast.Return):
			raise TranslateError(f'{self.where}: a method that returns a value does not end with return')
		return '', body


def translate(source: str, fns: dict[str, list[ast.FunctionDef]]) -> list[str]:
	"""Lean text: one `def gen_<Class>_<method>` per translated method, callees first"""
	u = Unit(source, fns)
	ms: dict[tuple[str, str], Method] = {}
	bodies: dict[tuple[str, str], list[str]] = {}
	for cls, name in u.targets:
		m = Method(u, cls, u.fns[cls][name])
		ms[(cls, name)] = m
		bodies[(cls, name)] = m.render()[1]
	for key, m in ms.items():
		for c in m.callees:
			if c not in ms:
				raise TranslateError(f'{m.where}: calls {c[0]}.{c[1]}, which is not translated')
	# which methods need the `invoke` parameter (transitively)
	need = {k: m.invokes for k, m in ms.items()}
	changed = True
	while changed:
		changed = False
		for k, m in ms.items():
			if not need[k] and any(need[c] for c in m.callees):
				need[k] = True
				changed = True
	# callees first
	order: list[tuple[str, str]] = []
	state: dict[tuple[str, str], int] = {}

	def visit(k: tuple[str, str]) -> None:
		if state.get(k) == 2:
			return
		if state.get(k) == 1:
			raise TranslateError(f'recursion among the translated methods at {k[0]}.{k[1]}')
		state[k] = 1
		for c in ms[k].callees:
			visit(c)
		state[k] = 2
		order.append(k)
	for k in ms:
		visit(k)
	out: list[str] = []
	for k in order:
		m = ms[k]
		inv = " (invoke' : Factory → PyM Obj)" if need[k] else ''
		params = ''.join(f' ({n} : {t})' for n, t in m.params)
		lines = []
		for ln in bodies[k]:
			while '«INV:' in ln:
				i = ln.index('«INV:')
				j = ln.index('»', i)
				c, n = ln[i + 5:j].split('.', 1)
				ln = ln[:i] + ("invoke'" if need[(c, n)] else '') + ln[j + 1:]
			lines.append(ln.replace("lazy'  ", "lazy' "))
		out += [f'/-- `{k[0]}.{k[1]}` ({source}:{m.fn.lineno}), statement by statement -/',
			f"def {lean_def(*k)} (lazy' : Bool){inv}{params} : PyM ({m.ret}) := do", *lines, '']
	return out
