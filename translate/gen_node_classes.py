"""Translator for property C09: the node-class table of `rogw/tranp/syntax/node/definition/*.py` as a Lean value.

Reads the AST of the definition package, `node.py`, `behavior.py` and `interface.py` (never imports them) and writes
`lean/Tranp/Generated/NodeClasses.lean`:

* `table : PropKeys.Table` — `Node` (id 0) and every subclass of `Node` defined in the package: `__name__`, metadata path
  `module.Name`, the MRO restricted to `Node` and its subclasses (C3 linearisation over the declared bases, computed here),
  and per class path the methods decorated `@Meta.embed(Node, expandable)` in definition order.
* `terminals` — ids of the classes with `ITerminal` in their MRO; `listProps` — (class path, key) whose getter is annotated `list[...]`.

`Tranp.C09.shipped_*` are proved about this value by `decide +kernel`, so an edit of the definitions changes the proof
obligations on the next run. The harness compares the table with the imported classes (`__mro__`, `prop_keys` metadata).

TranslateError (broken tie): a base class that cannot be resolved, an inconsistent hierarchy, a duplicate class name, an
`expandable` decorator in an unknown spelling / on something that is not a property getter, a getter without return annotation.
"""
from __future__ import annotations

import ast
import glob
import os
from typing import Any

from harness.common import GENERATED_DIR, REPO, write_if_changed

OUT = os.path.join(GENERATED_DIR, 'NodeClasses.lean')
PKG = 'rogw/tranp/syntax/node/definition'
EXTRA = ['rogw/tranp/syntax/node/node.py', 'rogw/tranp/syntax/node/behavior.py', 'rogw/tranp/syntax/node/interface.py']
EXPANDABLE = 'Meta.embed(Node, expandable)'
EXTERNAL_BASES = {'Protocol', 'NamedTuple', 'Generic', 'object', 'Enum'}


class TranslateError(Exception):
	pass


def _module_of(rel: str) -> str:
	return rel[:-3].replace('/', '.').removesuffix('.__init__')


def collect() -> dict[str, dict[str, Any]]:
	"""class name → {module, bases, keys: [(name, annList)], line}"""
	files = sorted(glob.glob(os.path.join(REPO, PKG, '*.py'))) + [os.path.join(REPO, f) for f in EXTRA]
	classes: dict[str, dict[str, Any]] = {}
	for path in files:
		rel = os.path.relpath(path, REPO)
		with open(path, encoding='utf-8') as f:
			tree = ast.parse(f.read())
		for n in tree.body:
			if not isinstance(n, ast.ClassDef):
				continue
			if n.name in classes:
				raise TranslateError(f'{rel}:{n.lineno}: class name {n.name} is defined twice ({classes[n.name]["module"]})')
			bases = []
			for b in n.bases:
				if isinstance(b, ast.Name):
					bases.append(b.id)
				elif isinstance(b, ast.Subscript) and isinstance(b.value, ast.Name):
					bases.append(b.value.id)
				else:
					raise TranslateError(f'{rel}:{n.lineno}: base class of {n.name} in an unknown spelling: {ast.unparse(b)}')
			keys: list[tuple[str, bool]] = []
			for m in n.body:
				if not isinstance(m, ast.FunctionDef):
					continue
				decos = [ast.unparse(d) for d in m.decorator_list]
				marks = [d for d in decos if 'expandable' in d]
				if not marks:
					continue
				if marks != [EXPANDABLE]:
					raise TranslateError(f'{rel}:{m.lineno}: {n.name}.{m.name} is marked expandable in an unknown spelling: {marks}')
				if 'property' not in decos:
					raise TranslateError(f'{rel}:{m.lineno}: {n.name}.{m.name} is expandable but not a property')
				if m.returns is None:
					raise TranslateError(f'{rel}:{m.lineno}: {n.name}.{m.name} has no return annotation (procedure.py:209 reads it)')
				ann = ast.unparse(m.returns)
				if any(k == m.name for k, _ in keys):
					raise TranslateError(f'{rel}:{m.lineno}: {n.name}.{m.name} is declared expandable twice in one class')
				keys.append((m.name, ann.startswith('list[')))
			classes[n.name] = {'module': _module_of(rel), 'bases': bases, 'keys': keys, 'line': n.lineno, 'file': rel}
	return classes


def c3(name: str, classes: dict[str, dict[str, Any]], memo: dict[str, list[str]]) -> list[str]:
	if name in memo:
		return memo[name]
	if name not in classes and name in EXTERNAL_BASES:
		memo[name] = [name]
		return memo[name]
	if name not in classes:
		raise TranslateError(f'base class {name} cannot be resolved inside the node package')
	bases = classes[name]['bases']
	seqs = [list(c3(b, classes, memo)) for b in bases] + [list(bases)]
	out = [name]
	while any(seqs):
		for s in seqs:
			if not s:
				continue
			cand = s[0]
			if not any(cand in t[1:] for t in seqs):
				break
		else:
			raise TranslateError(f'inconsistent hierarchy (no C3 linearisation) for {name}')
		out.append(cand)
		for s in seqs:
			if s and s[0] == cand:
				del s[0]
	memo[name] = out
	return out


def class_table() -> dict[str, Any]:
	classes = collect()
	if 'Node' not in classes:
		raise TranslateError('class Node not found')
	memo: dict[str, list[str]] = {}
	mros = {n: c3(n, classes, memo) for n in classes}
	nodes = ['Node'] + [n for n in classes if n != 'Node' and 'Node' in mros[n]]
	ids = {n: i for i, n in enumerate(nodes)}
	rows = []
	for n in nodes:
		rows.append({'name': n, 'path': f"{classes[n]['module']}.{n}", 'mro': [ids[b] for b in mros[n] if b in ids], 'mro_names': [b for b in mros[n] if b in ids],
			'keys': classes[n]['keys'], 'terminal': 'ITerminal' in mros[n]})
	if classes['Node']['keys']:
		raise TranslateError('Node itself declares expandable properties')
	return {'rows': rows}


def _chars(s: str) -> str:
	return '[' + ', '.join("'" + c + "'" for c in s) + ']'


PREFIX = 'rogw.tranp.syntax.node.'


def _path(p: str) -> str:
	if not p.startswith(PREFIX):
		raise TranslateError(f'class path {p} outside {PREFIX}')
	return f'pre ++ {_chars(p[len(PREFIX):])}'


def render(tab: dict[str, Any]) -> str:
	rows = tab['rows']
	cls_lines = ',\n    '.join(f"⟨{_chars(r['name'])}, {_path(r['path'])}, [{', '.join(map(str, r['mro']))}]⟩" for r in rows)
	metas = ',\n    '.join(f"({_path(r['path'])}, [{', '.join(_chars(k) for k, _ in r['keys'])}])" for r in rows if r['keys'])
	lists = ',\n    '.join(f"({_path(r['path'])}, {_chars(k)})" for r in rows for k, a in r['keys'] if a)
	terms = ', '.join(str(i) for i, r in enumerate(rows) if r['terminal'])
	return '\n'.join([
		'/-',
		f'  GENERATED by translate/gen_node_classes.py from {PKG}/*.py — do not edit.',
		f'  {len(rows)} classes (Node + its subclasses), {sum(len(r["keys"]) for r in rows)} expandable property declarations.',
		'-/',
		'import Tranp.Model.PropKeys',
		'',
		'set_option maxRecDepth 100000',
		'',
		'namespace Tranp.Generated.NodeClasses',
		'open Tranp.PropKeys',
		'',
		f'/-- common prefix of the metadata paths -/',
		f'def pre : List Char := {_chars(PREFIX)}',
		'',
		'/-- `Node` (id 0) and its subclasses: name, metadata path, MRO (class first, restricted to the table); expandable method names per path -/',
		'def table : Table :=',
		'  { classes := [',
		f'    {cls_lines} ],',
		'    nodeId := 0,',
		'    metas := [',
		f'    {metas} ] }}',
		'',
		'/-- ids of the classes with `ITerminal` in their MRO (`can_expand` is False, node.py:154-156) -/',
		f'def terminals : List Nat := [{terms}]',
		'',
		'/-- (class path, key) of the expandable getters annotated `list[...]` -/',
		'def listProps : List (List Char × List Char) := [',
		f'    {lists} ]',
		'',
		'end Tranp.Generated.NodeClasses',
		'',
	])


def generate() -> list[dict[str, Any]]:
	tab = class_table()
	changed = write_if_changed(OUT, render(tab))
	return [{'file': os.path.relpath(OUT, os.path.dirname(GENERATED_DIR)), 'source': f'{PKG}/*.py', 'entries': len(tab['rows']), 'changed': changed,
		'expandable_declarations': sum(len(r['keys']) for r in tab['rows'])}]


if __name__ == '__main__':
	print(generate())
