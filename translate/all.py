"""Runs every table translator (DESIGN.md §2.3). Each generator module exposes `generate() -> list[dict]`."""
from __future__ import annotations

import importlib
import os
import pkgutil
import sys
import traceback


def main() -> int:
	os.chdir(os.environ.get('VERIF_REPO', '/repo'))
	here = os.path.dirname(os.path.abspath(__file__))
	rc = 0
	for m in sorted(pkgutil.iter_modules([here]), key=lambda m: m.name):
		if not m.name.startswith('gen_'):
			continue
		try:
			mod = importlib.import_module(f'translate.{m.name}')
			for rec in mod.generate():
				print(f"translate: {rec.get('file')} entries={rec.get('entries')} changed={rec.get('changed')}")
		except Exception:  # noqa: BLE001
			traceback.print_exc()
			rc = 1
	return rc


if __name__ == '__main__':
	sys.exit(main())
