"""Translator for C18: every production call site of the BlockParser helpers -> lean/Tranp/Generated/BlockCallSites.lean.

Sources (read from the working tree of REPO on every run):
  * rogw/tranp/**/*.py except view/helper/block.py itself: calls `BlockParser.<helper>(text, [literal])`, found with `ast`;
    an omitted brackets/delimiter argument takes the default of the real function signature (imported module);
  * data/**/*.j2: calls `break_last_block(expr, '<lit>')` / `break_separator(expr, '<lit>')` of the template helper functions
    (rogw/tranp/view/helper/helper.py hands the two BlockParser methods to the templates under these names).
A call whose brackets/delimiter argument is not a string literal, a helper name the translator does not know, or a template
call it cannot parse raises TranslateError (the tie is broken, the check reports it) — nothing is skipped silently.

The generated table lets Props/C18.lean prove, by `decide` over the whole table, that every call site passes one of the four
bracket pairs of `_all_pair` (two characters: the termination theorems and `last_block`/`bracket_spec` apply) and a
one-character delimiter that is no bracket or quote (`sep_spec` applies).
"""
from __future__ import annotations

import ast
import hashlib
import inspect
import os
import re

from harness.common import GENERATED_DIR, REPO, write_if_changed

TARGET = os.path.join(GENERATED_DIR, 'BlockCallSites.lean')

# helper name -> (kind of its second argument, parameter name)
HELPERS = {
	'break_last_block': ('brackets', 'brackets'),
	'break_separator': ('delimiter', 'delimiter'),
	'parse_bracket': ('brackets', 'brackets'),
	'parse_pair': ('pair', 'brackets'),
	'parse': ('pair', 'brackets'),
	'parse_to_formatter': ('pair', 'brackets'),
}
TEMPLATE_FUNCS = {'break_last_block': 'brackets', 'break_separator': 'delimiter'}


class TranslateError(Exception):
	pass


def lean_char(c: str) -> str:
	if c == "'":
		return "'\\''"
	if c == '\\':
		return "'\\\\'"
	if 32 <= ord(c) < 127:
		return f"'{c}'"
	return f'(Char.ofNat {ord(c)})'


def lean_str(s: str) -> str:
	return '[' + ', '.join(lean_char(c) for c in s) + ']'


def python_sites() -> list[tuple[str, str, str, str]]:
	"""→ [(site label, helper, kind, literal)]"""
	from rogw.tranp.view.helper.block import BlockParser
	out: list[tuple[str, str, str, str]] = []
	root = os.path.join(REPO, 'rogw')
	for dirpath, _, files in sorted(os.walk(root)):
		for fn in sorted(files):
			if not fn.endswith('.py'):
				continue
			path = os.path.join(dirpath, fn)
			rel = os.path.relpath(path, REPO)
			if rel == os.path.join('rogw', 'tranp', 'view', 'helper', 'block.py'):
				continue
			with open(path, encoding='utf-8') as f:
				src = f.read()
			if 'BlockParser' not in src:
				continue
			for node in ast.walk(ast.parse(src)):
				if not (isinstance(node, ast.Call) and isinstance(node.func, ast.Attribute) and isinstance(node.func.value, ast.Name) and node.func.value.id == 'BlockParser'):
					continue
				helper = node.func.attr
				label = f'{rel}:{node.lineno}'
				if helper.startswith('_'):
					continue  # private helpers are reached through the public ones only
				if helper not in HELPERS:
					raise TranslateError(f'{label}: unknown BlockParser helper {helper!r}')
				kind, param = HELPERS[helper]
				sig = inspect.signature(getattr(BlockParser, helper))
				try:
					bound = sig.bind(*[ast.unparse(a) for a in node.args], **{kw.arg: ast.unparse(kw.value) for kw in node.keywords if kw.arg})
				except TypeError as e:
					raise TranslateError(f'{label}: cannot bind the arguments of {helper}: {e}') from e
				names = [param] + (['delimiter'] if kind == 'pair' else [])
				lits = []
				for name in names:
					if name in bound.arguments:
						try:
							value = ast.literal_eval(bound.arguments[name])
						except (ValueError, SyntaxError) as e:
							raise TranslateError(f'{label}: the {name} argument of {helper} is not a literal: {bound.arguments[name]}') from e
					else:
						value = sig.parameters[name].default
					if not isinstance(value, str):
						raise TranslateError(f'{label}: the {name} argument of {helper} is not a string: {value!r}')
					lits.append(value)
				out.append((label, helper, 'brackets', lits[0]) if kind != 'delimiter' else (label, helper, 'delimiter', lits[0]))
				if kind == 'pair':
					out.append((label, helper, 'delimiter-set', lits[1]))
	return out


def python_site_functions() -> set[tuple[str, str]]:
	"""→ {(name of the enclosing function, helper)} for every `BlockParser.<helper>(…)` call in rogw/tranp/**/*.py (block.py itself
	excluded): the stable key of a production call site - line numbers move, function names do not. The harness asks this set
	whether a caller it drives (on_throw, on_dict_comp, is_initializer_call, the PatternParser helpers) still goes through the helper."""
	out: set[tuple[str, str]] = set()
	root = os.path.join(REPO, 'rogw')
	for dirpath, _, files in sorted(os.walk(root)):
		for fn in sorted(files):
			if not fn.endswith('.py'):
				continue
			path = os.path.join(dirpath, fn)
			if os.path.relpath(path, REPO) == os.path.join('rogw', 'tranp', 'view', 'helper', 'block.py'):
				continue
			with open(path, encoding='utf-8') as f:
				src = f.read()
			if 'BlockParser' not in src:
				continue
			for func in ast.walk(ast.parse(src)):
				if not isinstance(func, (ast.FunctionDef, ast.AsyncFunctionDef)):
					continue
				for node in ast.walk(func):
					if isinstance(node, ast.Call) and isinstance(node.func, ast.Attribute) and isinstance(node.func.value, ast.Name) and node.func.value.id == 'BlockParser':
						out.add((func.name, node.func.attr))
	return out


CALL_RE = re.compile(r"\b(break_last_block|break_separator|parse_bracket|parse_pair|parse_to_formatter)\s*\(")
FULL_RE = re.compile(r"\b(break_last_block|break_separator)\s*\(\s*([A-Za-z_][\w.\[\]]*)\s*,\s*'([^'\\]*)'\s*\)")


def template_sites() -> list[tuple[str, str, str, str]]:
	out: list[tuple[str, str, str, str]] = []
	root = os.path.join(REPO, 'data')
	for dirpath, _, files in sorted(os.walk(root)):
		for fn in sorted(files):
			if not fn.endswith('.j2'):
				continue
			path = os.path.join(dirpath, fn)
			rel = os.path.relpath(path, REPO)
			with open(path, encoding='utf-8') as f:
				for lineno, line in enumerate(f, 1):
					calls = list(CALL_RE.finditer(line))
					full = list(FULL_RE.finditer(line))
					if len(calls) != len(full):
						raise TranslateError(f'{rel}:{lineno}: a helper call the translator cannot read: {line.strip()!r}')
					for m in full:
						out.append((f'{rel}:{lineno}', m.group(1), TEMPLATE_FUNCS[m.group(1)], m.group(3)))
	return out


def render(sites: list[tuple[str, str, str, str]]) -> str:
	def table(kind: str) -> str:
		rows = [f'  ("{label} {helper}", {lean_str(lit)})' for label, helper, k, lit in sites if k == kind]
		return '[\n' + ',\n'.join(rows) + '\n]' if rows else '[]'
	return (
		'/-\n'
		'  GENERATED by translate/gen_block_callsites.py from the production call sites of the BlockParser helpers\n'
		'  (rogw/tranp/**/*.py via ast, data/**/*.j2 via the template function names) - do not edit; rewritten on every run of ./check C18.\n'
		'-/\n'
		'namespace Tranp.Generated.BlockCallSites\n'
		'\n'
		'/-- (site, the `brackets` literal it passes) for break_last_block / parse_bracket / parse_pair / parse / parse_to_formatter -/\n'
		f'def bracketSites : List (String × List Char) := {table("brackets")}\n'
		'\n'
		'/-- (site, the `delimiter` literal it passes) for break_separator -/\n'
		f'def delimiterSites : List (String × List Char) := {table("delimiter")}\n'
		'\n'
		'/-- (site, the delimiter character set it passes) for parse_pair / parse / parse_to_formatter -/\n'
		f'def delimiterSetSites : List (String × List Char) := {table("delimiter-set")}\n'
		'\n'
		'end Tranp.Generated.BlockCallSites\n'
	)


def generate() -> list[dict]:
	sites = sorted(python_sites(), key=lambda t: (t[0].rsplit(':', 1)[0], int(t[0].rsplit(':', 1)[1]))) + template_sites()
	if not any(k == 'brackets' for _, _, k, _ in sites) or not any(k == 'delimiter' for _, _, k, _ in sites):
		raise TranslateError('no call site of break_last_block / break_separator found: the scan no longer recognises the sources')
	content = render(sites)
	changed = write_if_changed(TARGET, content)
	return [{
		'file': 'lean/' + os.path.relpath(TARGET, os.path.dirname(os.path.dirname(GENERATED_DIR))),
		'source': 'call sites of BlockParser helpers in rogw/tranp/**/*.py and data/**/*.j2',
		'entries': len(sites),
		'changed': changed,
		'sha256': hashlib.sha256(content.encode('utf-8')).hexdigest(),
	}]
