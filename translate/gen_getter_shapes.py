"""Translator for property C09: the run-time SHAPE (one node / a list of nodes) of every expandable getter, read from its body.

`Procedure.__make_event` (procedure.py:198-201) decides between popping one result and popping `len(getattr(node, key))`
results by the RETURN ANNOTATION of `getattr(node.__class__, key).fget`, while `Node.__prop_expand` (node.py:256-262)
flattens by `isinstance(value, list)` of the value the getter actually returns. WF clause 4 (annotation says list exactly
when the value is a list) is the obligation that the two agree. This translator derives, for every node class `c` of the
generated class table and every key of `prop_keys(c)`:

* the definition `D.key` that `getattr(c, key)` resolves to (first class of the MRO of `c` whose body defines `key`),
* `annList` = its return annotation is spelled `list[...]` (a quoted annotation is a `str` at run time: not a list annotation),
* `bodyList` = every `return` of its body yields a list — by a small shape inference over the AST (below),

and writes `lean/Tranp/Generated/GetterShapes.lean`; `Tranp.C09.shipped_annotation_matches_body` (`decide +kernel`) states
`annList = bodyList` for every entry, `shipped_getters_cover` that the entries are exactly `prop_keys()` of every class.

Shape inference (sound for what it accepts, TranslateError for anything else — never a default):
  list display / list comprehension / `list(...)`                       → list
  call of a method: shape of the return annotation of the method found on the static class of the receiver
      (`self` / `super()`: MRO of the class; another node expression: its annotated class, else `Node`)
  `self.x` / `super().x` / `<expr>.x`: shape of the return annotation of that property, same lookup
  `xs[i]` on a list → one node, `xs[a:b]` → list;  `a if c else b` → both branches must agree
  names: parameters / annotated locals by annotation, plain locals by the assigned expression, loop and comprehension
      variables as elements of the iterated list, nested `def`s by their return annotation
The helpers' annotations (`_children -> list[Node]`, `_at -> Node`, …) are read from node.py on every run. That the inferred
shape is the run-time shape is checked by the harness on every exported node (`shape` column of the export).
"""
from __future__ import annotations

import ast
import glob
import os
from typing import Any

from harness.common import GENERATED_DIR, REPO, write_if_changed
from translate.gen_node_classes import EXTRA, PKG, TranslateError, _chars, c3, class_table, collect

OUT = os.path.join(GENERATED_DIR, 'GetterShapes.lean')

Ty = tuple[str, str]  # ('list', element annotation) | ('one', annotation)


def _unquote(ann: str) -> str:
	ann = ann.strip()
	while len(ann) >= 2 and ann[0] == ann[-1] and ann[0] in '\'"':
		ann = ann[1:-1].strip()
	return ann


def ty_of_annotation(node: ast.expr | None, where: str) -> Ty:
	"""value shape promised by an annotation (quotes are irrelevant for the VALUE; they matter only for procedure.py:209)"""
	if node is None:
		raise TranslateError(f'{where}: no annotation to read the shape from')
	ann = _unquote(ast.unparse(node))
	if ann.startswith(('list[', 'List[')):
		inner = _unquote(ann[5:-1])
		return ('list', inner)
	if ann.startswith(('dict[', 'tuple[', 'set[', 'Iterator[', 'Iterable[', 'Sequence[')) or ann in ('None', 'bool', 'int', 'str'):
		raise TranslateError(f'{where}: annotation {ann} is neither a node nor a list of nodes')
	return ('one', ann)


class Defs:
	"""method / property definitions of every class of the node package, with MROs"""

	def __init__(self) -> None:
		self.classes = collect()
		self.memo: dict[str, list[str]] = {}
		self.members: dict[str, dict[str, ast.FunctionDef]] = {}
		self.other: dict[str, set[str]] = {}
		files = sorted(glob.glob(os.path.join(REPO, PKG, '*.py'))) + [os.path.join(REPO, f) for f in EXTRA]
		for path in files:
			with open(path, encoding='utf-8') as f:
				tree = ast.parse(f.read())
			for n in tree.body:
				if isinstance(n, ast.ClassDef):
					self.members[n.name] = {m.name: m for m in n.body if isinstance(m, ast.FunctionDef)}
					# anything else that binds a name in a class body could shadow a getter for getattr(): refuse to guess
					for m in n.body:
						bound = [t.id for t in m.targets if isinstance(t, ast.Name)] if isinstance(m, ast.Assign) else \
							[m.target.id] if isinstance(m, ast.AnnAssign) and isinstance(m.target, ast.Name) and m.value is not None else \
							[m.name] if isinstance(m, (ast.ClassDef, ast.AsyncFunctionDef)) else []
						for b in bound:
							self.other.setdefault(n.name, set()).add(b)

	def mro(self, cls: str) -> list[str]:
		return [c for c in c3(cls, self.classes, self.memo) if c in self.members]

	def resolve(self, cls: str, name: str, skip_self: bool = False) -> tuple[str, ast.FunctionDef]:
		if name.startswith('__') and not name.endswith('__'):
			# name mangling: `self.__x` inside class C is C._C__x — only C's own body can define it
			m = self.members.get(cls, {}).get(name)
			if m is None:
				raise TranslateError(f'{cls}.{name}: private member not defined in the class body')
			return cls, m
		for c in self.mro(cls)[1 if skip_self else 0:]:
			if name in self.other.get(c, ()):
				raise TranslateError(f'{cls}.{name}: bound in the body of {c} by something that is not a def')
			if name in self.members[c]:
				return c, self.members[c][name]
		raise TranslateError(f'{cls}.{name}: no definition on the MRO')


class Infer:
	def __init__(self, defs: Defs, cls: str, fn: ast.FunctionDef) -> None:
		self.defs = defs
		self.cls = cls
		self.fn = fn
		self.where = f'{cls}.{fn.name}'
		self.env: dict[str, Ty] = {}
		self.local_defs: dict[str, ast.FunctionDef] = {}

	def static_class(self, ann: str) -> str:
		"""class to look members up on, for a value annotated `ann`"""
		ann = _unquote(ann)
		if ann in self.defs.members:
			return ann
		parts = [_unquote(p) for p in ann.split('|')]
		known = [p for p in parts if p in self.defs.members and p != 'Empty']
		if len(known) == 1 and all(p in self.defs.members for p in parts):
			return known[0]
		return 'Node'

	def member(self, recv: ast.expr, name: str) -> Ty:
		if isinstance(recv, ast.Name) and recv.id == 'self':
			owner, m = self.defs.resolve(self.cls, name)
		elif isinstance(recv, ast.Call) and isinstance(recv.func, ast.Name) and recv.func.id == 'super' and not recv.args:
			owner, m = self.defs.resolve(self.cls, name, skip_self=True)
		else:
			t = self.expr(recv)
			if t[0] != 'one':
				raise TranslateError(f'{self.where}: member {name} of a list value `{ast.unparse(recv)}`')
			owner, m = self.defs.resolve(self.static_class(t[1]), name)
		return ty_of_annotation(m.returns, f'{self.where}: {owner}.{name}')

	def expr(self, e: ast.expr) -> Ty:
		if isinstance(e, (ast.List, ast.ListComp)):
			return ('list', 'Node')
		if isinstance(e, ast.Call):
			if isinstance(e.func, ast.Name) and e.func.id == 'list':
				return ('list', 'Node')
			if isinstance(e.func, ast.Name) and e.func.id in self.local_defs:
				return ty_of_annotation(self.local_defs[e.func.id].returns, f'{self.where}: local def {e.func.id}')
			if isinstance(e.func, ast.Attribute):
				t = self.member(e.func.value, e.func.attr)
				if e.func.attr in ('as_a', 'one_of', 'dirty_child') and e.args:
					# `T_Node` return: the class is the (first) argument — only needed for further member lookups
					a0 = ast.unparse(e.args[0])
					return (t[0], a0 if a0 in self.defs.members and len(e.args) == 1 else 'Node')
				return t
			raise TranslateError(f'{self.where}: call in an unknown form `{ast.unparse(e)}`')
		if isinstance(e, ast.Attribute):
			return self.member(e.value, e.attr)
		if isinstance(e, ast.Subscript):
			t = self.expr(e.value)
			if t[0] != 'list':
				raise TranslateError(f'{self.where}: subscript of a non-list `{ast.unparse(e)}`')
			return t if isinstance(e.slice, ast.Slice) else ('one', t[1])
		if isinstance(e, ast.IfExp):
			a, b = self.expr(e.body), self.expr(e.orelse)
			if a[0] != b[0]:
				raise TranslateError(f'{self.where}: branches of `{ast.unparse(e)}` differ in shape')
			return a if a == b else (a[0], 'Node')
		if isinstance(e, ast.Name):
			if e.id in self.env:
				return self.env[e.id]
			raise TranslateError(f'{self.where}: name {e.id} of unknown shape')
		raise TranslateError(f'{self.where}: expression in an unknown form `{ast.unparse(e)}`')

	def bind_target(self, target: ast.expr, t: Ty) -> None:
		if isinstance(target, ast.Name):
			self.env[target.id] = t
		# other targets (tuples, attributes) bind nothing we track: a later use of such a name is a TranslateError

	def stmts(self, body: list[ast.stmt], out: list[tuple[int, Ty]]) -> None:
		for s in body:
			if isinstance(s, ast.Expr):
				continue  # docstrings, `xs.extend(...)`, `xs.append(...)`: no binding, no return
			if isinstance(s, ast.FunctionDef):
				self.local_defs[s.name] = s  # its own returns are not the getter's
				continue
			if isinstance(s, ast.Return):
				if s.value is None:
					raise TranslateError(f'{self.where}:{s.lineno}: bare return in an expandable getter')
				out.append((s.lineno, self.expr(s.value)))
			elif isinstance(s, ast.AnnAssign):
				self.bind_target(s.target, ty_of_annotation(s.annotation, f'{self.where}:{s.lineno}'))
			elif isinstance(s, ast.Assign):
				try:
					t: Ty | None = self.expr(s.value)
				except TranslateError:
					t = None  # e.g. `alias = self.actual_symbol` (a str): fine unless the name is returned later
				for target in s.targets:
					if t is not None:
						self.bind_target(target, t)
					elif isinstance(target, ast.Name):
						self.env.pop(target.id, None)
			elif isinstance(s, ast.If):
				self.stmts(s.body, out)
				self.stmts(s.orelse, out)
			elif isinstance(s, ast.For):
				try:
					t = self.expr(s.iter)
				except TranslateError:
					t = None
				if t is not None and t[0] == 'list':
					self.bind_target(s.target, ('one', t[1]))
				self.stmts(s.body, out)
				self.stmts(s.orelse, out)
			else:
				raise TranslateError(f'{self.where}:{s.lineno}: statement in an unknown form `{type(s).__name__}`')

	def shape(self) -> bool:
		for a in self.fn.args.args[1:]:
			if a.annotation is not None:
				self.env[a.arg] = ty_of_annotation(a.annotation, f'{self.where}: parameter {a.arg}')
		rets: list[tuple[int, Ty]] = []
		self.stmts(self.fn.body, rets)
		if not rets:
			raise TranslateError(f'{self.where}: expandable getter without a return')
		shapes = {t[0] for _, t in rets}
		if len(shapes) != 1:
			raise TranslateError(f'{self.where}: returns differ in shape: {[(ln, t[0]) for ln, t in rets]}')
		return shapes == {'list'}


def shape_table() -> list[dict[str, Any]]:
	"""per class of the class table (same ids): [(key, owner, annList, bodyList)] in prop_keys() order"""
	tab = class_table()
	defs = Defs()
	by_name = {r['name']: r for r in tab['rows']}
	cache: dict[tuple[str, str], tuple[bool, bool]] = {}
	rows = []
	for r in tab['rows']:
		# prop_keys(): base classes first (node.py:191-194 over reversed MRO), declared names per class in definition order
		keys = [k for b in reversed(r['mro_names']) for k, _ in by_name[b]['keys']]
		entries = []
		for k in keys:
			owner, fn = defs.resolve(r['name'], k)
			if not any(ast.unparse(d) == 'property' for d in fn.decorator_list):
				raise TranslateError(f'{r["name"]}.{k} resolves to {owner}.{k}, which is not a property (procedure.py:209 reads .fget)')
			if fn.returns is None:
				raise TranslateError(f'{owner}.{k} has no return annotation (procedure.py:209 reads it)')
			if (owner, k) not in cache:
				cache[(owner, k)] = (ast.unparse(fn.returns).startswith('list['), Infer(defs, owner, fn).shape())
			ann, body = cache[(owner, k)]
			entries.append({'key': k, 'owner': owner, 'annList': ann, 'bodyList': body})
		rows.append({'name': r['name'], 'entries': entries})
	return rows


def _b(x: bool) -> str:
	return 'true' if x else 'false'


def render(rows: list[dict[str, Any]]) -> str:
	body = ',\n    '.join('[' + ', '.join(f"({_chars(e['key'])}, {_b(e['annList'])}, {_b(e['bodyList'])})" for e in r['entries']) + ']' for r in rows)
	n = sum(len(r['entries']) for r in rows)
	return '\n'.join([
		'/-',
		f'  GENERATED by translate/gen_getter_shapes.py from {PKG}/*.py and node.py — do not edit.',
		f'  {len(rows)} classes (ids of Generated/NodeClasses.lean), {n} (class, key) pairs of prop_keys().',
		'-/',
		'import Tranp.Str',
		'',
		'set_option maxRecDepth 100000',
		'',
		'namespace Tranp.Generated.GetterShapes',
		'',
		'/-- per class id, in `prop_keys()` order: (key, the definition `getattr(cls, key)` resolves to is annotated `list[...]`,',
		'    every `return` of that definition yields a list) -/',
		'def shapes : List (List (List Char × Bool × Bool)) := [',
		f'    {body} ]',
		'',
		'end Tranp.Generated.GetterShapes',
		'',
	])


def generate() -> list[dict[str, Any]]:
	rows = shape_table()
	changed = write_if_changed(OUT, render(rows))
	return [{'file': os.path.relpath(OUT, os.path.dirname(GENERATED_DIR)), 'source': f'{PKG}/*.py + node.py', 'entries': sum(len(r['entries']) for r in rows),
		'changed': changed, 'list_shaped': sum(e['bodyList'] for r in rows for e in r['entries'])}]


if __name__ == '__main__':
	for r in shape_table():
		for e in r['entries']:
			print(r['name'], e)
