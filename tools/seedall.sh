#!/bin/sh
# tools/seedall.sh [-P n] [pattern]   -> one line per kept seeded change: caught | obligation-only | MISSED | CRASH
# Re-runs every seeded/<id>-<n> (or those matching the pattern, e.g. 'C03-*') through tools/seedtest.sh with the suite skipped.
P=6; [ "$1" = "-P" ] && { P="$2"; shift 2; }
PAT="${1:-C*}"
OUT="${SEEDALL_OUT:-/tmp/seedall}"; mkdir -p "$OUT"
cd /verif
ls -d seeded/$PAT 2>/dev/null | grep -v _discarded | xargs -P "$P" -I{} sh -c '
  d={}; b=$(basename $d); id=${b%%-*}
  SKIP_SUITE=1 sh tools/seedtest.sh $id $d > '"$OUT"'/$b.log 2>&1
  if grep -q "INFRA" '"$OUT"'/$b.log; then v=CRASH
  elif grep "^VIOLATION" '"$OUT"'/$b.log | grep -v -q "no-failing-input-found"; then v=caught
  elif grep -q "^VIOLATION" '"$OUT"'/$b.log; then v=obligation-only
  else v=MISSED; fi
  echo "$b $v"'
