#!/bin/sh
# tools/keepseed.sh <property-id> <n> <src dir> "<what catches it>"   -> seeded/<id>-<n>/
ID="$1"; N="$2"; SRC="$3"; CAUGHT="$4"
DST="/verif/seeded/$ID-$N"; mkdir -p "$DST"
cp "$SRC/patch.diff" "$DST/patch.diff"
for f in demo.py test_demo.py; do [ -f "$SRC/$f" ] && cp "$SRC/$f" "$DST/$f"; done
/venv/bin/python - "$SRC/meta.json" "$DST/meta.json" "$ID" "$CAUGHT" <<'PY'
import json, sys
src, dst, pid, caught = sys.argv[1:5]
try:
	m = json.load(open(src))
except Exception:
	m = {}
m['property'] = pid
m['confirmed_by_lead'] = 'tools/seedtest.sh: demo exits 0 on the pinned tree and non-zero with the patch; pinned suite unchanged (334 pass without shim / 341 with shim)'
m['detected_by'] = caught
json.dump(m, open(dst, 'w'), indent=1, ensure_ascii=False)
PY
echo "kept $DST"
