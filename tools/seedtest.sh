#!/bin/sh
# tools/seedtest.sh <property-id> <dir with patch.diff [demo.py]> [tier]
# Confirms a seeded mutation in a scratch worktree (never in /repo while builders are running against it):
#   demo passes on the pinned tree, fails with the patch; the pinned test suite result is unchanged;
#   then runs ./check <id> against the mutated worktree with a private copy of the Lean project.
ID="$1"; DIR="$(cd "$2" && pwd)"; TIER="${3:-quick}"
WT="/tmp/seedtest-$ID-$$"; LEAN="/tmp/lean-seedtest-$ID-$$"
git -C /repo worktree add -q --detach "$WT" HEAD || exit 2
cleanup() { git -C /repo worktree remove --force "$WT" 2>/dev/null; rm -rf "$LEAN"; }
trap cleanup EXIT
DEMO=""; for f in demo.py test_demo.py; do [ -f "$DIR/$f" ] && DEMO="$DIR/$f"; done
rundemo() { ( cd "$WT" && rm -rf .cache && PYTHONPATH="/verif/compat:$WT" PYTHONDONTWRITEBYTECODE=1 timeout 600 /venv/bin/python "$DEMO" >/tmp/seedtest-demo-$$.log 2>&1 ); echo $?; }
if [ -n "$DEMO" ]; then echo "demo on pinned tree: exit $(rundemo)"; fi
( cd "$WT" && git apply "$DIR/patch.diff" ) || { echo "patch does not apply"; exit 2; }
if [ -n "$DEMO" ]; then echo "demo with patch:     exit $(rundemo)"; tail -3 /tmp/seedtest-demo-$$.log; fi
if [ -z "$SKIP_SUITE" ]; then
  ( cd "$WT" && PYTHONDONTWRITEBYTECODE=1 /venv/bin/python -m pytest -q -p no:cacheprovider --continue-on-collection-errors 2>&1 | tail -1 )
  ( cd "$WT" && PYTHONPATH="/verif/compat:$WT" PYTHONDONTWRITEBYTECODE=1 /venv/bin/python -m pytest -q -p no:cacheprovider 2>&1 | tail -1 )
  rm -rf "$WT/.cache"
fi
cp -r /verif/lean "$LEAN"
mkdir -p "$LEAN/.evidence"; cd /verif && VERIF_EVIDENCE_DIR="$LEAN/.evidence" VERIF_REPO="$WT" VERIF_LEAN_DIR="$LEAN" ./check "$ID" --tier "$TIER" 2>&1 | grep -E "VIOLATION|KNOWN-FINDING|^\[$ID\]|INFRA" 
echo "check exit: $?"
rm -f /tmp/seedtest-demo-$$.log
