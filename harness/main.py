"""CLI of the verification checks: ./check <id> [--tier quick|thorough] [--replay FILE]."""
from __future__ import annotations

import argparse
import importlib
import os
import sys
import traceback

from harness import common


def main() -> int:
	ap = argparse.ArgumentParser()
	ap.add_argument('prop')
	ap.add_argument('--tier', default=os.environ.get('VERIF_TIER', 'quick'), choices=['quick', 'thorough'])
	ap.add_argument('--replay', default=None)
	ap.add_argument('--seed', type=int, default=None)
	args = ap.parse_args()
	seed = args.seed if args.seed is not None else int(os.environ.get('VERIF_SEED', '0') or 0)
	prop = args.prop.upper()
	replay = os.path.abspath(args.replay) if args.replay else None
	os.chdir(common.REPO)
	ctx = common.Ctx(prop, args.tier, seed, replay)
	try:
		mod = importlib.import_module(f'harness.{prop.lower()}')
		if replay:
			return int(mod.replay(ctx, replay))
		return int(mod.run(ctx))
	except common.InfraError as e:
		print(f'[{prop}] INFRASTRUCTURE FAILURE: {e}', file=sys.stderr)
		ctx.cleanup()
		return 2
	except Exception:
		traceback.print_exc()
		print(f'[{prop}] INFRASTRUCTURE FAILURE: harness crashed', file=sys.stderr)
		ctx.cleanup()
		return 2


if __name__ == '__main__':
	sys.exit(main())
