"""CLI of the verification checks: ./check <id> [--tier quick|thorough] [--replay FILE]."""
from __future__ import annotations

import argparse
import importlib
import os
import sys
import threading
import traceback

from harness import common


def main() -> int:
	ap = argparse.ArgumentParser()
	ap.add_argument('prop')
	ap.add_argument('--tier', default=os.environ.get('VERIF_TIER', 'quick'), choices=['quick', 'thorough'])
	ap.add_argument('--replay', default=None)
	ap.add_argument('--seed', type=int, default=None)
	args = ap.parse_args()
	seed = args.seed if args.seed is not None else int(os.environ.get('VERIF_SEED', '0') or 0)
	prop = args.prop.upper()
	replay = os.path.abspath(args.replay) if args.replay else None
	os.chdir(common.REPO)
	ctx = common.Ctx(prop, args.tier, seed, replay)
	_watchdog(prop, args.tier, ctx)
	try:
		mod = importlib.import_module(f'harness.{prop.lower()}')
		if replay:
			return int(mod.replay(ctx, replay))
		return int(mod.run(ctx))
	except common.InfraError as e:
		print(f'[{prop}] INFRASTRUCTURE FAILURE: {e}', file=sys.stderr)
		ctx.cleanup()
		return 2
	except Exception:
		traceback.print_exc()
		print(f'[{prop}] INFRASTRUCTURE FAILURE: harness crashed', file=sys.stderr)
		ctx.cleanup()
		return 2


def _kill_descendants(root: int) -> None:
	try:
		children: dict[int, list[int]] = {}
		for name in os.listdir('/proc'):
			if name.isdigit():
				try:
					with open(f'/proc/{name}/stat') as f:
						ppid = int(f.read().rsplit(')', 1)[1].split()[1])
					children.setdefault(ppid, []).append(int(name))
				except Exception:
					pass
		todo, victims = [root], []
		while todo:
			for c in children.get(todo.pop(), []):
				victims.append(c)
				todo.append(c)
		for v in victims:
			try:
				os.kill(v, 9)
			except Exception:
				pass
	except Exception:
		pass


def _watchdog(prop: str, tier: str, ctx: 'common.Ctx') -> None:
	"""Last line of defence against a check that does not end (a mutated parser that loops, a stuck child): after the wall budget
	the process reports an infrastructure failure (exit 2, never a verdict) and ends with its children. The searches have their own,
	much smaller per-case budgets that turn a non-terminating input into a finding; this only bounds the command itself."""
	limit = float(os.environ.get('VERIF_WALL_LIMIT', '') or (2400 if tier == 'quick' else 7200))

	def fire() -> None:
		print(f'[{prop}] INFRASTRUCTURE FAILURE: wall budget of {limit:.0f} s exceeded (VERIF_WALL_LIMIT)', file=sys.stderr, flush=True)
		try:
			ctx.cleanup()
		finally:
			_kill_descendants(os.getpid())
			os._exit(2)

	t = threading.Timer(limit, fire)
	t.daemon = True
	t.start()


if __name__ == '__main__':
	sys.exit(main())
