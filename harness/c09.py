"""C09 — Every handler receives exactly the results of its own children.

Theorems: lean/Tranp/Props/C09.lean over lean/Tranp/Model/Procedure.lean (stack machine of semantics/procedure.py over the
flattening of syntax/node/node.py).
Tie: correspondence streams between a real `Procedure` and the model (driver family `proc`):
  proc-corpus     committed witnesses (WF counterexamples of the theorems, the caught-nested-failure hazard)
  proc-synth      synthetic Node subclasses (real `Node.procedural`/`prop_keys`/`Meta.embed(expandable)`), well-formed shapes,
                  handlers that return / raise / nest `exec`
  proc-malformed  the same with ill-formed node shapes (terminal with properties, unconsumed `_under_expand()`, repeated keys,
                  annotation/shape mismatch), missing handlers, handlers that catch a nested failure
  proc-real       node trees of real modules (example/, compatible/libralies, test fixtures, rogw/tranp/**)
  proc-generated  node trees of generated small programs
Every exported tree is also checked against `WF` (model and an independent Python evaluation on the real nodes).
Search: the law on the real code alone — a run whose handlers return (node, visiting index): every event entry must be the
results of exactly the nodes `getattr(n, key)` yields (single vs list, order), computed by an independent spec walker;
`exec` must return the root's result and leave no frame behind.
"""
from __future__ import annotations

import ast
import glob
import itertools
import json
import os
import random
import time
import zlib
from collections import Counter
from typing import Any

from harness import common
from harness.common import Ctx, Finding, SearchResult, Stream, exc_enum, hx

PROP = 'C09'
SYN_MODULE = 'verif_c09_syn'

REAL_QUICK = [
	'rogw/tranp/compatible/libralies/classes.py',
	'example/json.py',
	'example/FW/string.py',
	'tests/unit/rogw/tranp/semantics/fixtures/fixture_reflections.py',
	'tests/unit/rogw/tranp/syntax/node/fixtures/fixture_definition.py',
	'tests/unit/rogw/tranp/semantics/reflection/fixtures/fixture_db_xyz.py',
	'rogw/tranp/lang/sequence.py',
	'rogw/tranp/semantics/procedure.py',
]


# ---------------------------------------------------------------------------------------------
# canonical observations


class BudgetExceeded(BaseException):
	"""A real-code call ran longer than its per-case budget (BaseException: `except Exception` in the code under test and in
	the handlers of the harness cannot swallow it)."""


class budget:
	"""Per-case wall budget for calls into the real code (SIGALRM, main thread only; not nested)."""

	def __init__(self, seconds: float) -> None:
		self.seconds = seconds

	def __enter__(self) -> 'budget':
		import signal
		import threading
		self.active = threading.current_thread() is threading.main_thread() and hasattr(signal, 'setitimer')
		if self.active:
			def on_alarm(signum: int, frame: Any) -> None:
				raise BudgetExceeded(f'budget of {self.seconds}s exceeded')
			self.old = signal.signal(signal.SIGALRM, on_alarm)
			signal.setitimer(signal.ITIMER_REAL, self.seconds, 1.0)  # repeats: an alarm swallowed inside a GC / weakref callback is not the last
		return self

	def __exit__(self, *a: Any) -> None:
		import signal
		if self.active:
			signal.setitimer(signal.ITIMER_REAL, 0)
			signal.signal(signal.SIGALRM, self.old)


CASE_BUDGET = float(os.environ.get('VERIF_C09_CASE_BUDGET', '30'))      # one synthetic case / one root (typical: milliseconds)
MODULE_BUDGET = float(os.environ.get('VERIF_C09_MODULE_BUDGET', '180'))  # one whole real module incl. export (typical: < 3 s)


class Deadline:
	"""Total wall deadline of one stream / search: generation stops, what was produced is still checked."""

	# Wall budget shared by all streams and searches of one run, counted from the end of the proof step (`origin`, set by
	# run()): once it is used up every later stream / search still gets `MIN_SLICE` seconds, so the tier stays within
	# its time on a loaded machine (quick <~ 100 s, thorough <~ 15 min) and nothing is skipped altogether.
	# What a deadline cut is reported as a count in the evidence; it never changes a verdict.
	GLOBAL = (75.0, 680.0)     # quick, thorough
	MIN_SLICE = (12.0, 40.0)
	origin: float | None = None

	def __init__(self, ctx: Ctx, quick: float, thorough: float) -> None:
		now = time.time()
		i = 1 if ctx.thorough else 0
		cap = thorough if ctx.thorough else quick
		shared = (Deadline.origin if Deadline.origin is not None else now) + Deadline.GLOBAL[i]
		self.end = max(min(now + cap, shared), now + min(cap, Deadline.MIN_SLICE[i]))
		self.cut = 0

	def over(self) -> bool:
		if time.time() > self.end:
			self.cut += 1
			return True
		return False

	def note(self) -> str:
		return f' [deadline reached: {self.cut} case(s) not generated]' if self.cut else ''


def canon_exc(e: BaseException) -> str:
	"""exc_enum, with the two `Errors.Logic` sites of procedure.py told apart by their message."""
	from rogw.tranp.errors import Errors
	if type(e) is Errors.Logic and e.args:
		if e.args[-1] == 'Stack is empty':
			return 'Errors.Logic:Stack is empty'
		if e.args[-1] == 'Invalid number of stacks' and len(e.args) >= 2:
			return f'Errors.Logic:Invalid number of stacks:{e.args[1]}'
	return exc_enum(e)


def stacks_of(proc: Any) -> list[list[Any]]:
	return proc._Procedure__stacks


def sizes(proc: Any) -> str:
	return ','.join(str(len(f)) for f in reversed(stacks_of(proc)))


class Ids:
	"""Small integers for node identities ((classification, full_path), the equality `Node.__eq__` uses plus the class)."""

	def __init__(self) -> None:
		self.map: dict[tuple[str, str], int] = {}

	def of(self, node: Any) -> int:
		k = (node.classification, node.full_path)
		if k not in self.map:
			self.map[k] = len(self.map)
		return self.map[k]


# --- run-time shape of property values vs the shape the translator reads from the getter bodies (Generated/GetterShapes.lean)

SHAPE_CLASSES: dict[str, int] = {}              # class name -> id of the generated class table; filled by run()
SHAPE_SEEN: dict[tuple[int, str], set[str]] = {}  # (class id, key) -> {'L', 'O'} observed on real nodes
_SHAPE_ID_OF: dict[type, int | None] = {}
CHILDLESS_SEEN: set[int] = set()                 # class ids met with expandable keys that ALL yielded [] (where WF clause 2 is not vacuous)


def _shape_class_id(t: type) -> int | None:
	if t.__name__ == 'Proxy' and len(t.__mro__) > 1:  # dirty_proxify: a fresh subclass per proxy node (node.py:492) - never cached
		return _shape_class_id(t.__mro__[1])
	if t not in _SHAPE_ID_OF:
		_SHAPE_ID_OF[t] = SHAPE_CLASSES.get(t.__name__) if t.__module__.startswith('rogw.') else None
	return _SHAPE_ID_OF[t]


def observe_shape(node: Any, key: str, value: Any) -> None:
	"""Every property value the harness reads from a node of a shipped class is recorded: list or one node."""
	if SHAPE_CLASSES:
		cid = _shape_class_id(type(node))
		if cid is not None:
			SHAPE_SEEN.setdefault((cid, key), set()).add('L' if isinstance(value, list) else 'O')


def is_ann_list(node: Any, key: str) -> bool:
	"""Independent copy of Procedure.__is_prop_list_by (procedure.py:200-210)."""
	anno = getattr(type(node), key).fget.__annotations__['return']
	return getattr(anno, '__origin__', None) is list


def prop_values(node: Any) -> list[tuple[str, Any]]:
	out = [(k, getattr(node, k)) for k in node.prop_keys()]
	for k, v in out:
		observe_shape(node, k, v)
	if out and SHAPE_CLASSES and all(isinstance(v, list) and not v for _, v in out):
		cid = _shape_class_id(type(node))
		if cid is not None:
			CHILDLESS_SEEN.add(cid)
	return out


def prop_expand(vals: list[tuple[str, Any]]) -> list[Any]:
	seen: dict[str, Any] = {}
	for k, v in vals:
		if k not in seen:
			seen[k] = v
	out: list[Any] = []
	for v in seen.values():
		out.extend(v) if isinstance(v, list) else out.append(v)
	return out


def wf_clauses(node: Any) -> list[str]:
	"""WFNode of the model, evaluated on a real node (same clause names as `wfViolations`)."""
	vals = prop_values(node)
	keys = [k for k, _ in vals]
	terminal = not node.can_expand
	count = lambda v: len(v) if isinstance(v, list) else 1  # noqa: E731
	out = []
	if terminal and any(count(v) for _, v in vals):
		out.append('terminal-with-props')
	if not terminal and not prop_expand(vals) and node._under_expand():
		out.append('under-not-consumed')
	if any(keys.count(k) > 1 and count(v) for k, v in vals):
		out.append('duplicate-key')
	if any(is_ann_list(node, k) != isinstance(v, list) for k, v in vals):
		out.append('annotation-shape')
	return out


def under_quiet(node: Any) -> bool | None:
	"""`underQuiet` of Lemmas/ProcedureExpand.lean on the real entry of a node: no child, or only unresolvable tree
	entries within three levels (independent of Nodes.expand). None when the node has no entry (dirty_child proxies)."""
	nodes = node._Node__nodes
	entries = getattr(nodes, '_Nodes__entries', None)
	resolver = getattr(nodes, '_Nodes__resolver', None)
	if entries is None or resolver is None or not entries.exists(node.full_path):
		return None
	entry = entries.by(node.full_path)

	def quiet(e: Any, d: int) -> bool:
		if not e.has_child:
			return False
		return not resolver.can_resolve(e.name) and (d == 0 or all(quiet(c, d - 1) for c in e.children))
	return all(quiet(c, 2) for c in entry.children) if entry.has_child else True


class Exporter:
	"""Real node trees -> `node` op lines of the driver (children before parents, one slot per tree position)."""

	def __init__(self, ids: Ids) -> None:
		self.ids = ids
		self.lines: list[str] = []
		self.unstable: list[str] = []
		self.positions: list[tuple[int, Any]] = []
		self.under_stats: Counter[str] = Counter()

	def export(self, node: Any) -> int:
		terminal = not node.can_expand
		vals = prop_values(node)
		again = prop_values(node)  # what __make_event re-reads
		props = []
		for (k, v), (_, v2) in zip(vals, again):
			shape = isinstance(v, list)
			if shape != isinstance(v2, list) or (v != v2):
				self.unstable.append(f'{type(node).__name__}.{k}')
			kids = v if shape else [v]
			slots = [self.export(c) for c in kids]
			flags = ('L' if is_ann_list(node, k) else 'S') + ('L' if shape else 'S')
			props.append(f"{hx(k)}:{flags}:{','.join(map(str, slots)) or '-'}")
		if not prop_expand(vals):
			self.observe_under(node, terminal, bool(vals))
		under_slots: list[int] = []
		if not terminal and not prop_expand(vals):
			# the only situation in which node.py:252 consults _under_expand()
			under_slots = [self.export(c) for c in node._under_expand()]
		slot = len(self.lines)
		self.lines.append('\t'.join(['node', str(slot), str(self.ids.of(node)), hx(node.classification), 'T' if terminal else 'N',
			';'.join(props) or '-', ','.join(map(str, under_slots)) or '-']))
		self.positions.append((slot, node))
		return slot


def _observe_under(self: Exporter, node: Any, terminal: bool, has_keys: bool) -> None:
	"""Diagnostics for WF clause 2 (never part of the exported tree): what `_under_expand()` would yield for a node whose
	properties yield nothing, and whether that agrees with `under_empty_iff` (the entry is quiet)."""
	try:
		under = bool(node._under_expand())
	except Exception:  # noqa: BLE001 - proxies without an entry
		self.under_stats['no entry (dirty_child proxy)'] += 1
		return
	kind = 'terminal' if terminal else 'non-terminal'
	cls = type(node).__mro__[1].__name__ if type(node).__name__ == 'Proxy' else type(node).__name__
	self.under_stats[f"{kind}, {'properties yield nothing' if has_keys else 'no expandable property'}, _under_expand() {'NON-EMPTY' if under else 'empty'}: {cls}"] += 1
	try:
		q = under_quiet(node)
	except Exception as e:  # noqa: BLE001
		self.under_stats[f'under_quiet raised {canon_exc(e)}'] += 1
		return
	if q is not None:
		self.under_stats['under_empty_iff agrees with the real Nodes.expand' if q == (not under) else f'under_empty_iff DISAGREES at {cls}'] += 1


Exporter.observe_under = _observe_under  # type: ignore[attr-defined]


def rs(v: Any) -> str:
	"""a handler result as the driver renders it (behaviour `nil` returns None)"""
	return 'None' if v is None else v


def fmt_val(v: Any) -> str:
	return '[' + ';'.join(rs(x) for x in v) + ']' if isinstance(v, list) else rs(v)


def sig_of(ids: Ids, node: Any, kw: dict[str, Any]) -> str:
	return f'{ids.of(node)}(' + ','.join(f'{k}={fmt_val(v)}' for k, v in kw.items()) + ')'


def make_handler(beh: str, ids: Ids, proc: Any, target_of: dict[int, Any]) -> Any:
	"""Real handler for a behaviour string of the driver protocol."""
	from rogw.tranp.errors import Errors
	kind, _, arg = beh.partition(':')
	if kind == 'sig':
		return lambda node, **kw: sig_of(ids, node, kw)
	if kind == 'id':
		return lambda node, **kw: str(ids.of(node))
	if kind == 'nil':
		return lambda node, **kw: None
	if kind == 'mut':
		def mutating(node: Any, **kw: Any) -> str:  # reads its event, then edits the lists it was given in place
			out = sig_of(ids, node, kw)
			for j, v in enumerate(kw.values()):
				if isinstance(v, list):
					if j % 3 == 1:
						v.clear()
					v.insert(0, 'planted') if j % 3 == 2 else v.append('planted')
			return out
		return mutating
	if kind == 'strict0':
		def strict0(node: Any) -> str:  # no keyword parameters: a non-empty event is a TypeError (-> InvalidSchema)
			return sig_of(ids, node, {})
		return strict0
	if kind == 'raise':
		def raiser(node: Any, **kw: Any) -> str:
			if arg.startswith('Errors.'):
				raise getattr(Errors, arg[7:])('boom')
			raise {'TypeError': TypeError, 'ValueError': ValueError, 'AssertionError': AssertionError, 'KeyError': KeyError,
				'IndexError': IndexError, 'RecursionError': RecursionError}[arg]('boom')
		return raiser
	if kind in ('chain', 'chain0', 'chain2'):
		from collections.abc import Callable

		def chained(node: Any, next: Callable[[], str], **kw: Any) -> str:  # noqa: A002 - Middleware looks for the name `next`
			out = sig_of(ids, node, kw) + '^'
			if kind == 'chain':
				out += next()
			elif kind == 'chain2':
				out += next() + '^' + next()
			return out
		return chained
	if kind == 'nest':
		target = target_of[int(arg)]
		return lambda node, **kw: sig_of(ids, node, kw) + '+<' + rs(proc.exec(target)) + '>'
	if kind == 'try':
		target = target_of[int(arg)]

		def trier(node: Any, **kw: Any) -> str:
			try:
				r = rs(proc.exec(target))
			except Exception as e:  # noqa: BLE001 - the hazard under test
				r = '!' + canon_exc(e)
			return sig_of(ids, node, kw) + '+<' + r + '>'
		return trier
	raise AssertionError(beh)


def install(proc: Any, ids: Ids, fallback: str, specific: dict[str, str], target_of: dict[int, Any]) -> str:
	"""(Re)register the handler table on the real procedure; returns the `hs` op line."""
	proc.clear_handler()
	if fallback != 'none':
		proc.on('on_fallback', make_handler(fallback, ids, proc, target_of))
	for cls, beh in specific.items():
		proc.on(f'on_{cls}', make_handler(beh, ids, proc, target_of))
	spec = ';'.join(f'{hx(c)}={b}' for c, b in specific.items()) or '-'
	return f'hs\t{fallback}\t{spec}'


def real_exec(proc: Any, node: Any) -> str:
	try:
		res = 'ok ' + rs(proc.exec(node))
	except Exception as e:  # noqa: BLE001
		res = canon_exc(e)
	return f'{res} | {sizes(proc)}'


def real_wf(ids: Ids, root: Any) -> str:
	try:
		bad = []
		for n in [*root.procedural(), root]:
			v = wf_clauses(n)
			if v:
				bad.append(f"{ids.of(n)}:{'+'.join(v)}")
		return ','.join(bad) or 'ok'
	except Exception as e:  # noqa: BLE001
		return 'raised ' + canon_exc(e)


def real_procedural(ids: Ids, root: Any) -> str:
	try:
		return ','.join(str(ids.of(n)) for n in root.procedural())
	except Exception as e:  # noqa: BLE001
		return 'raised ' + canon_exc(e)


# ---------------------------------------------------------------------------------------------
# synthetic node classes (real Node machinery, invented shapes)

_syn_counter = itertools.count()


class StubQuery:
	"""The only Query method reachable from Node.procedural(): expand() (via _under_expand)."""

	def __init__(self) -> None:
		self.under: dict[str, list[Any]] = {}

	def expand(self, via: str) -> list[Any]:
		return self.under.get(via, [])


def make_syn_class(terminal: bool, keys: list[tuple[str, bool]], base: type | None = None) -> type:
	from rogw.tranp.syntax.node.behavior import ITerminal
	from rogw.tranp.syntax.node.embed import Meta, expandable
	from rogw.tranp.syntax.node.node import Node
	name = f'Syn{next(_syn_counter)}'
	bases: tuple[type, ...] = (base or Node,)
	if terminal and not (base and issubclass(base, ITerminal)):
		bases = (*bases, ITerminal)
	cls = type(name, bases, {'__module__': SYN_MODULE})
	for key, ann_list in keys:
		def fget(self: Any, _k: str = key) -> Any:
			return self._vals[_k]
		fget.__name__ = key
		fget.__qualname__ = f'{name}.{key}'
		fget.__module__ = SYN_MODULE
		fget.__annotations__ = {'return': list[Node] if ann_list else Node}
		Meta.embed(Node, expandable)(fget)
		setattr(cls, key, property(fget))
	return cls


def build_synth(spec: dict[str, Any]) -> tuple[list[Any], list[type]]:
	"""spec['classes'] = [{terminal, keys: [[name, annList]], base: idx|None}], spec['nodes'] = [{cls, vals: {key: idx|[idx]}, under: [idx]}]
	(children have smaller indices). Returns the node objects."""
	from rogw.tranp.module.types import ModulePath
	classes: list[type] = []
	for c in spec['classes']:
		base = classes[c['base']] if c.get('base') is not None else None
		classes.append(make_syn_class(bool(c['terminal']), [(k, bool(a)) for k, a in c['keys']], base))
	q = StubQuery()
	mp = ModulePath('__main__', 'py')
	tag = next(_syn_counter)
	nodes: list[Any] = []
	for i, n in enumerate(spec['nodes']):
		obj = classes[n['cls']](q, mp, f'file_input.s{tag}_{i}')
		obj._vals = {k: ([nodes[j] for j in v] if isinstance(v, list) else nodes[v]) for k, v in n['vals'].items()}
		q.under[obj.full_path] = [nodes[j] for j in n.get('under', [])]
		nodes.append(obj)
	return nodes, classes


def run_synth_case(spec: dict[str, Any]) -> tuple[dict[str, Any], list[str], list[str]]:
	"""One real Procedure over synthetic trees; spec additionally has fallback, specific {clsidx: beh with node indices},
	execs [node idx], roots [node idx] (every exec / nest target)."""
	from rogw.tranp.semantics.procedure import Procedure
	ids = Ids()
	ex = Exporter(ids)
	slot_of: dict[int, int] = {}
	try:
		nodes, classes = build_synth(spec)
		for r in spec['roots']:
			slot_of[r] = ex.export(nodes[r])
	except Exception as e:  # noqa: BLE001 - the real Node machinery (prop_keys / Meta.embed / getattr) raised: always a disagreement
		return ({'kind': spec.get('kind', 'synth'), 'nodes': len(spec['nodes']), 'wf': False, 'violations': {}, 'outcomes': {'export-raised': 1}, 'nested': False},
			['reset'], ['real code raised ' + canon_exc(e)])
	lines = ['reset', *ex.lines]
	real = ['ok'] * len(lines)
	proc: Any = Procedure()
	target_of = {slot_of[r]: nodes[r] for r in spec['roots']}

	def slotted(beh: str) -> str:
		kind, _, arg = beh.partition(':')
		return f'{kind}:{slot_of[int(arg)]}' if kind in ('nest', 'try') else beh

	specific = {_classification(classes[int(ci)]): slotted(b) for ci, b in spec['specific'].items()}
	lines.append(install(proc, ids, spec['fallback'], specific, target_of))
	real.append('ok')
	viol = Counter()
	for r in spec['execs']:
		root = nodes[r]
		lines.append(f'procedural\t{slot_of[r]}')
		real.append(real_procedural(ids, root))
		lines.append(f'wf\t{slot_of[r]}')
		w = real_wf(ids, root)
		real.append(w)
		if w.startswith('raised'):
			viol[w] += 1
		elif w != 'ok':
			for item in w.split(','):
				for c in item.split(':', 1)[-1].split('+'):
					viol[c] += 1
		lines.append(f'exec\t{slot_of[r]}')
		real.append(real_exec(proc, root))
	outcomes = Counter(r.split(' | ')[0].split(' ')[0] for ln, r in zip(lines, real) if ln.startswith('exec'))
	desc = {'kind': spec.get('kind', 'synth'), 'nodes': len(spec['nodes']), 'wf': not viol, 'violations': dict(viol), 'outcomes': dict(outcomes),
		'nested': any(b.startswith(('nest', 'try')) for b in spec['specific'].values())}
	return desc, lines, real


def _classification(cls: type) -> str:
	from rogw.tranp.lang.string import snakelize
	return snakelize(cls.__name__)


RAISES = ['TypeError', 'ValueError', 'AssertionError', 'KeyError', 'IndexError', 'Errors.NodeNotFound', 'Errors.Never', 'Errors.Fatal', 'Errors.InvalidSchema']


def gen_synth_spec(rng: random.Random, dirty: bool) -> dict[str, Any]:
	"""Three layers of trees: handlers of layer-k classes may nest `exec` into trees of lower layers only (termination)."""
	classes: list[dict[str, Any]] = []
	level: list[int] = []
	keypool = ['a', 'ab', 'b', 'items', 'item', 'value', 'body']  # names that are prefixes of each other
	for lv in range(3):
		for j in range(rng.randint(2, 4)):
			first = lv == 0 and j == 0  # a plain leaf class always exists (generation terminates)
			terminal = first or rng.random() < 0.3
			nkeys = 0 if terminal else rng.choice([0, 1, 1, 2, 2, 3])
			keys = [[k, rng.random() < 0.5] for k in rng.sample(keypool, nkeys)]
			base = None
			empty_keys: list[str] = []
			if dirty and terminal and not first and rng.random() < 0.25:
				keys = [[rng.choice(keypool), rng.random() < 0.5]]  # terminal with an expandable property
			if not dirty and terminal and not first and rng.random() < 0.3:
				keys = [[rng.choice(keypool), True]]  # harmless: a terminal whose list property is always empty
				empty_keys = [keys[0][0]]
			if not dirty and not terminal and rng.random() < 0.12:
				# harmless: a subclass redeclares a list property that is always empty (prop_keys() repeats the key)
				bk = rng.choice(keypool)
				classes.append({'terminal': False, 'keys': [[bk, True]], 'base': None, 'empty_keys': [bk]})
				level.append(lv)
				base = len(classes) - 1
				keys = [[bk, True]] + [k for k in keys if k[0] != bk][:2]
				empty_keys = [bk]
			if dirty and not terminal and rng.random() < 0.12:
				# a subclass redeclares an expandable property of its base: prop_keys() repeats the key
				bk = rng.choice(keypool)
				classes.append({'terminal': False, 'keys': [[bk, rng.random() < 0.5]], 'base': None})
				level.append(lv)
				base = len(classes) - 1
				keys = [[bk, classes[base]['keys'][0][1]]] + [k for k in keys if k[0] != bk][:1]
			classes.append({'terminal': terminal, 'keys': keys, 'base': base, 'empty_keys': empty_keys})
			level.append(lv)
	nodes: list[dict[str, Any]] = []
	node_level: list[int] = []

	def all_keys(ci: int) -> list[list[Any]]:
		c = classes[ci]
		inherited = all_keys(c['base']) if c['base'] is not None else []
		return inherited + c['keys']

	def gen_node(max_level: int, depth: int) -> int:
		reusable = [i for i in range(len(nodes)) if node_level[i] <= max_level]
		if reusable and rng.random() < 0.06:
			return rng.choice(reusable)  # the same node object at a second position (equal ids in different places)
		cands = [i for i in range(len(classes)) if level[i] <= max_level]
		if depth <= 0:
			cands = [i for i in cands if all(k in classes[i].get('empty_keys', []) or a for k, a in all_keys(i))]
		ci = rng.choice(cands)
		vals: dict[str, Any] = {}
		forced_empty = set(classes[ci].get('empty_keys', [])) | (set(classes[classes[ci]['base']].get('empty_keys', [])) if classes[ci]['base'] is not None else set())
		for k, ann in all_keys(ci):
			if k in vals:
				continue
			if k in forced_empty:
				vals[k] = []
				continue
			shape_list = ann
			if dirty and rng.random() < 0.08:
				shape_list = not ann
			if depth <= 0 and shape_list:
				vals[k] = []
			elif shape_list:
				vals[k] = [gen_node(max_level, depth - 1) for _ in range(rng.choice([0, 1, 1, 2, 3]))]
			else:
				vals[k] = gen_node(max_level, depth - 1)
		under: list[int] = []
		if dirty and rng.random() < 0.1 and depth > 0:
			under = [gen_node(max_level, depth - 1) for _ in range(rng.randint(1, 2))]
		nodes.append({'cls': ci, 'vals': vals, 'under': under})
		node_level.append(max_level)
		return len(nodes) - 1

	roots_by_level: list[list[int]] = []
	for lv in range(3):
		roots_by_level.append([gen_node(lv, rng.choice([1, 2, 2, 3, 3, 4, 7])) for _ in range(rng.randint(1, 2))])
	fallback = rng.choices(['sig', 'mut', 'id', 'none', 'raise:' + rng.choice(RAISES)], [60, 25, 5, 5 if dirty else 1, 4 if dirty else 1])[0]
	specific: dict[str, str] = {}
	for ci in range(len(classes)):
		if rng.random() < 0.35:
			opts = ['sig', 'id', 'mut', 'nil', 'nil', 'strict0', 'raise:' + rng.choice(RAISES)]
			lower = [r for lv in range(level[ci]) for r in roots_by_level[lv]]
			if lower:
				opts += [f'nest:{rng.choice(lower)}'] * 3
				if dirty:
					opts += [f'try:{rng.choice(lower)}'] * 2
			if not dirty:
				opts = [o for o in opts if not o.startswith('raise') or rng.random() < 0.3]
			specific[str(ci)] = rng.choice(opts)
	roots = [r for rs in roots_by_level for r in rs]
	execs = [rng.choice(roots) for _ in range(rng.randint(2, 5))]
	if rng.random() < 0.5:
		inner = rng.randrange(len(nodes))
		roots.append(inner)
		execs.insert(rng.randrange(len(execs) + 1), inner)
	return {'kind': 'malformed' if dirty else 'synth', 'classes': classes, 'nodes': nodes, 'fallback': fallback, 'specific': specific,
		'roots': roots, 'execs': execs}


def run_history_case(rng: random.Random, spec: dict[str, Any]) -> tuple[dict[str, Any], list[str], list[str]]:
	"""One Procedure instance over a random history of on / off / clear_handler / exec calls (Model/ProcedureHistory.lean)."""
	from rogw.tranp.semantics.procedure import Procedure
	ids = Ids()
	ex = Exporter(ids)
	slot_of: dict[int, int] = {}
	try:
		nodes, classes = build_synth(spec)
		for r in spec['roots']:
			slot_of[r] = ex.export(nodes[r])
	except Exception as e:  # noqa: BLE001
		return ({'calls': 0, 'outcomes': {'export-raised': 1}}, ['reset'], ['real code raised ' + canon_exc(e)])
	lines = ['reset', *ex.lines]
	real = ['ok'] * len(lines)
	proc: Any = Procedure()
	actions = ['on_fallback', 'on_fallback', 'on_unused', *[f'on_{_classification(c)}' for c in classes]]
	behs = ['sig', 'sig', 'id', 'strict0', 'raise:' + rng.choice(RAISES), 'sig', 'chain', 'chain', 'chain0', 'chain2', 'raise:' + rng.choice(RAISES)]
	callbacks = [make_handler(b, ids, proc, {}) for b in behs]
	outcomes: Counter[str] = Counter()
	registered: list[tuple[str, int]] = []
	steps_n = rng.randint(6, 20)
	for step_i in range(steps_n):
		k = rng.random()
		if step_i == 0 and rng.random() < 0.8:
			k = 0.5  # most instances register something before the first exec
		if k < 0.4:
			r = rng.choice(spec['roots'])
			lines.append(f'exec\t{slot_of[r]}')
			real.append(real_exec(proc, nodes[r]))
			outcomes['exec ' + real[-1].split(' | ')[0].split(' ')[0]] += 1
		elif k < 0.7:
			a, h = rng.choice(actions), rng.randrange(len(behs))
			if step_i == 0:
				a, h = 'on_fallback', 0
			lines.append(f'h.on\t{hx(a)}\t{h}\t{behs[h]}')
			try:
				proc.on(a, callbacks[h])
				real.append('ok')
				registered.append((a, h))
			except Exception as e:  # noqa: BLE001
				real.append(canon_exc(e))
			outcomes['on'] += 1
		elif k < 0.92:
			a, h = rng.choice(actions), rng.randrange(len(behs))
			if registered and rng.random() < 0.65:
				a, h = rng.choice(registered)  # usually something that is (or was) registered
			lines.append(f'h.off\t{hx(a)}\t{h}')
			try:
				proc.off(a, callbacks[h])
				real.append('ok')
			except Exception as e:  # noqa: BLE001
				real.append(canon_exc(e))
			outcomes['off ' + real[-1]] += 1
		else:
			lines.append('h.clear')
			try:
				proc.clear_handler()
				real.append('ok')
			except Exception as e:  # noqa: BLE001
				real.append(canon_exc(e))
			outcomes['clear'] += 1
	return {'calls': len(lines) - len(ex.lines) - 1, 'outcomes': dict(outcomes)}, lines, real


def stream_history(ctx: Ctx) -> Stream:
	rng = ctx.sub_rng('proc-history')
	cases = []
	dl = Deadline(ctx, 40, 600)
	for i in range(ctx.scale(150, 2500)):
		if dl.over():
			continue
		try:
			with budget(CASE_BUDGET):
				cases.append(run_history_case(rng, gen_synth_spec(rng, i % 3 == 0)))
		except (Exception, BudgetExceeded) as e:  # noqa: BLE001
			cases.append(({'calls': 0, 'outcomes': {}}, ['reset'], ['real code raised ' + canon_exc(e)]))
	st = common.correspond('proc-history', cases, 'proc', classify=lambda d: '+'.join(sorted(k.split(':')[0] for k in d['outcomes']))[:80])
	st.note = dl.note() + 'one real Procedure over random histories of on / off (also unknown action / callback: ValueError) / clear_handler / exec on well- and ill-formed synthetic trees (failing execs leave frames), vs Model/ProcedureHistory.step'
	return st


# ---------------------------------------------------------------------------------------------
# real trees


def is_curated(path: str) -> bool:
	"""Modules written for tranp (its transpile targets): the node definitions must be able to read them. tranp's own
	sources are only partly inside the supported subset (e.g. `except X:` without `as` has no Catch.symbol)."""
	rel = os.path.relpath(path, common.REPO)
	return rel.startswith(('rogw/tranp/compatible/', 'example/')) or '/fixtures/' in rel


def real_files(ctx: Ctx, rng: random.Random) -> list[str]:
	files = [os.path.join(common.REPO, f) for f in REAL_QUICK if os.path.exists(os.path.join(common.REPO, f))]
	pool = sorted(set(
		glob.glob(os.path.join(common.REPO, 'rogw/tranp/compatible/**/*.py'), recursive=True)
		+ glob.glob(os.path.join(common.REPO, 'example/**/*.py'), recursive=True)
		+ glob.glob(os.path.join(common.REPO, 'tests/unit/**/fixtures/*.py'), recursive=True)
		+ glob.glob(os.path.join(common.REPO, 'rogw/tranp/**/*.py'), recursive=True)))
	pool = [f for f in pool if f not in files and os.path.getsize(f) > 0]
	rng.shuffle(pool)
	return files[:ctx.scale(5, len(files))] + pool[:ctx.scale(3, 90)]


PARSE_SKIPPED: Counter[str] = Counter()


def load_entrypoint(app: Any, src: str) -> Any | None:
	try:
		with budget(MODULE_BUDGET):
			return app.entrypoint(src)
	except BudgetExceeded:
		PARSE_SKIPPED['parse exceeded its budget (skipped)'] += 1
		return None
	except Exception:  # noqa: BLE001 - outside tranp's grammar: not a tree to process
		return None


def run_real_case(rng: random.Random, name: str, ep: Any, kind: str) -> tuple[dict[str, Any], list[str], list[str]] | None:
	from rogw.tranp.semantics.procedure import Procedure
	ids = Ids()
	ex = Exporter(ids)
	try:
		root_slot = ex.export(ep)
	except Exception as e:  # noqa: BLE001 - a property getter of the node definitions raised: outside the procedure
		return {'kind': kind, 'file': name, 'export_error': canon_exc(e), 'nodes': 0, 'classes': []}, [], []
	try:
		return _run_real_case_body(rng, name, ep, kind, ids, ex, root_slot)
	except Exception as e:  # noqa: BLE001 - real code raised outside exec (can_expand / prop_keys / classification …): always a disagreement
		return {'kind': kind, 'file': name, 'export_error': canon_exc(e), 'nodes': len(ex.positions), 'classes': []}, ['reset'], ['real code raised ' + canon_exc(e)]


def _run_real_case_body(rng: random.Random, name: str, ep: Any, kind: str, ids: Ids, ex: Exporter, root_slot: int) -> tuple[dict[str, Any], list[str], list[str]]:
	from rogw.tranp.semantics.procedure import Procedure
	lines = ['reset', *ex.lines]
	real = ['ok'] * len(lines)
	proc: Any = Procedure()
	classes = sorted({n.classification for _, n in ex.positions})
	# the whole module with handlers that edit their list arguments in place (`mut` = `sig` in the model: lists are per-event values)
	lines.append(install(proc, ids, 'mut', {}, {}))
	real.append('ok')
	lines.append(f'wf\t{root_slot}')
	real.append(real_wf(ids, ep))
	lines.append(f'procedural\t{root_slot}')
	real.append(real_procedural(ids, ep))
	lines.append(f'exec\t{root_slot}')
	real.append(real_exec(proc, ep))
	# inner roots under different handler tables (same Procedure object)
	inner = [p for p in ex.positions if p[1].can_expand and p[1].prop_keys()]
	picks = rng.sample(inner, min(len(inner), 6))
	for i, (slot, node) in enumerate(picks):
		if i % 3 == 1:
			some = rng.sample(classes, min(len(classes), 3))
			lines.append(install(proc, ids, 'sig', {c: ('nil' if j == 0 else 'id') for j, c in enumerate(some)}, {}))
			real.append('ok')
		elif i % 3 == 2:
			missing = node.classification if rng.random() < 0.5 else rng.choice(classes)
			lines.append(install(proc, ids, 'none', {c: 'sig' for c in classes if c != missing}, {}))
			real.append('ok')
		lines.append(f'exec\t{slot}')
		real.append(real_exec(proc, node))
	desc = {'kind': kind, 'file': name, 'nodes': len(ex.positions), 'classes': classes, 'unstable': sorted(set(ex.unstable)), 'under_stats': dict(ex.under_stats),
		'wf': real[len(ex.lines) + 2]}
	return desc, lines, real


# ---------------------------------------------------------------------------------------------
# generated programs (tranp's grammar: typed defs, tab blocks)


class ProgGen:
	NAMES = ['a', 'b', 'c', 'n', 'xs', 'ys', 'obj', 'val']
	TYPES = ['int', 'str', 'bool', 'float', 'list[int]', 'dict[str, int]', 'tuple[int, str]', 'int | None', 'A', "'A'", 'list[A]', 'Callable[[int], None]', 'type[A]']

	def __init__(self, rng: random.Random) -> None:
		self.rng = rng

	def name(self) -> str:
		return self.rng.choice(self.NAMES)

	def expr(self, d: int = 2) -> str:
		r = self.rng
		if d <= 0:
			return r.choice([self.name(), str(r.randint(0, 99)), "'s'", 'True', 'None', '1.5', 'self.v', '[]', '{}', '()'])
		e = lambda: self.expr(d - 1)  # noqa: E731
		k = r.randrange(24)
		if k == 0:
			return f'{e()} {r.choice("+-*/%")} {e()}'
		if k == 1:
			return f'{e()} {r.choice(["<", ">", "==", "!=", "<=", "is", "is not", "in", "not in"])} {e()}'
		if k == 2:
			return f'{e()} {r.choice(["and", "or"])} {e()}'
		if k == 3:
			return f'{r.choice(["not ", "-", "+", "~"])}{self.name()}'
		if k == 4:
			return f"{self.name()}({', '.join(e() for _ in range(r.randint(0, 3)))})"
		if k == 5:
			return f'{self.name()}.{self.name()}({e()}, {self.name()}={e()})'
		if k == 6:
			return f"[{', '.join(e() for _ in range(r.randint(0, 3)))}]"
		if k == 7:
			return '{' + ', '.join(f'{e()}: {e()}' for _ in range(r.randint(0, 2))) + '}'
		if k == 8:
			return f'({e()}, {e()})'
		if k == 9:
			return f'{e()} if {e()} else {e()}'
		if k == 10:
			return f'[{e()} for {self.name()} in {e()}]'
		if k == 11:
			return f'[{e()} for {self.name()}, {self.name()} in {e()} if {e()}]'
		if k == 12:
			return '{' + f'{self.name()}: {e()} for {self.name()} in {e()}' + '}'
		if k == 13:
			return f'{self.name()}[{e()}]'
		if k == 14:
			return f'{self.name()}[{r.choice(["1:2", ":", "1:", ":2", "::2", "1:2:3"])}]'
		if k == 15:
			return f'{self.name()}.{self.name()}.{self.name()}'
		if k == 16:
			return f'({e()})'
		if k == 17:
			return f'lambda: {e()}'
		if k == 18:
			return f'lambda {self.name()}, {self.name()}: {e()}'
		if k == 19:
			return f'{e()} {r.choice(["|", "&", "^", "<<", ">>"])} {e()}'
		if k == 20:
			return f'super().{self.name()}({e()})'
		if k == 21:
			return f"f'{{{self.name()}}} t'"
		if k == 22:
			return f'{self.name()}(*{self.name()}, **{self.name()})'
		return f'{e()} < {e()} < {e()}'

	def block(self, d: int, ind: str) -> str:
		return ''.join(self.stmt(d - 1, ind + '\t') for _ in range(self.rng.randint(1, 3)))

	def stmt(self, d: int, ind: str) -> str:
		r = self.rng
		k = r.randrange(26 if d > 0 else 12)
		e = self.expr
		if k == 0:
			return f'{ind}{self.name()} = {e()}\n'
		if k == 1:
			return f'{ind}{self.name()}: {r.choice(self.TYPES)} = {e()}\n'
		if k == 2:
			return f'{ind}{self.name()} {r.choice(["+=", "-=", "*=", "|="])} {e()}\n'
		if k == 3:
			return f'{ind}{self.name()}, {self.name()} = {e(1)}, {e(1)}\n'
		if k == 4:
			return f'{ind}{e()}\n'
		if k == 5:
			return f'{ind}{r.choice(["pass", "# note", "..."])}\n'
		if k == 6:
			return f'{ind}self.{self.name()} = {e(1)}\n'
		if k == 7:
			return f'{ind}assert {e(1)}, {e(0)}\n'
		if k == 8:
			return f'{ind}del {self.name()}, {self.name()}\n'
		if k == 9:
			return f'{ind}{self.name()}[{e(1)}] = {e(1)}\n'
		if k == 10:
			return f'{ind}{self.name()}.{self.name()} = {e(1)}\n'
		if k == 11:
			return f'{ind}{self.name()}: {r.choice(self.TYPES)}\n'
		if k == 12:
			s = f'{ind}if {e(1)}:\n{self.block(d, ind)}'
			for _ in range(r.randint(0, 2)):
				s += f'{ind}elif {e(1)}:\n{self.block(d, ind)}'
			if r.random() < 0.5:
				s += f'{ind}else:\n{self.block(d, ind)}'
			return s
		if k == 13:
			return f'{ind}while {e(1)}:\n{self.block(d, ind)}{ind}\t{r.choice(["break", "continue", "pass"])}\n'
		if k == 14:
			return f'{ind}for {self.name()} in {e(1)}:\n{self.block(d, ind)}'
		if k == 15:
			return f'{ind}for {self.name()}, {self.name()} in {e(1)}:\n{self.block(d, ind)}'
		if k == 16:
			s = f'{ind}try:\n{self.block(d, ind)}{ind}except {r.choice(["Exception", "ValueError", "A"])} as e:\n{self.block(d, ind)}'
			if r.random() < 0.4:
				s += f'{ind}except KeyError as e2:\n{ind}\traise {self.name()}({e(0)})\n'
			return s
		if k == 17:
			return f'{ind}with {e(1)} as {self.name()}:\n{self.block(d, ind)}'
		if k == 18:
			return f'{ind}with {self.name()}, {self.name()}:\n{self.block(d, ind)}'
		if k in (19, 20):
			params = ', '.join(r.choice([f'{self.name()}{i}: {r.choice(self.TYPES)}', f'{self.name()}{i}: int = {e(0)}']) for i in range(r.randint(0, 3)))
			deco = f'{ind}@{r.choice(["deco", "a.b", "deco(1)", "Embed.prop(x)"])}\n' if r.random() < 0.3 else ''
			body = self.block(d, ind)
			tail = r.choice([f'{ind}\treturn {e(1)}\n', f'{ind}\treturn\n', f'{ind}\tyield {e(1)}\n', f'{ind}\traise {self.name()}({e(0)})\n', ''])
			doc = f'{ind}\t"""doc"""\n' if r.random() < 0.3 else ''
			return f'{deco}{ind}def f{r.randint(0, 9)}({params}) -> {r.choice(self.TYPES + ["None"])}:\n{doc}{body}{tail}'
		if k in (21, 22):
			inh = r.choice(['', '(A)', '(A, B)', '(Generic[T])'])
			s = f'{ind}class K{r.randint(0, 9)}{inh}:\n'
			if r.random() < 0.3:
				s += f'{ind}\t"""doc"""\n'
			if r.random() < 0.5:
				s += f'{ind}\tv: {r.choice(self.TYPES)} = {e(0)}\n'
			for _ in range(r.randint(0, 2)):
				kind = r.choice(['m', 'c', 'i'])
				if kind == 'm':
					s += f'{ind}\tdef m{r.randint(0, 9)}(self, p: int) -> int:\n{self.block(d, ind + chr(9))}{ind}\t\treturn {e(1)}\n'
				elif kind == 'c':
					s += f'{ind}\t@classmethod\n{ind}\tdef c{r.randint(0, 9)}(cls) -> None:\n{self.block(d, ind + chr(9))}'
				else:
					s += f'{ind}\tdef __init__(self, p: int = 0) -> None:\n{ind}\t\tself.v: int = p\n{self.block(d, ind + chr(9))}'
			if s.endswith(':\n'):
				s += f'{ind}\tpass\n'
			return s
		if k == 23:
			return f'{ind}class E{r.randint(0, 9)}(Enum):\n{ind}\tX = 0\n{ind}\tY = {e(0)}\n'
		if k == 24:
			return f'{ind}from {r.choice(["a.b", "typing", "x"])} import {r.choice(["A", "A, B", "A as C"])}\n'
		return f"{ind}T{r.randint(0, 3)} = TypeVar('T{r.randint(0, 3)}'{r.choice(['', ', bound=A'])})\n"

	def program(self) -> str:
		return ''.join(self.stmt(self.rng.randint(1, 3), '') for _ in range(self.rng.randint(1, 5)))


# ---------------------------------------------------------------------------------------------
# streams


def load_corpus() -> list[dict[str, Any]]:
	out = []
	for p in sorted(glob.glob(os.path.join(common.CORPUS_DIR, PROP, '*.json'))):
		with open(p, encoding='utf-8') as f:
			spec = json.load(f)
		spec['kind'] = 'corpus:' + os.path.basename(p)[:-5]
		out.append(spec)
	return out


def classify_synth(d: dict[str, Any]) -> str:
	oc = '+'.join(sorted(d['outcomes']))
	return f"{'wf' if d['wf'] else 'non-wf'}{'/nested' if d['nested'] else ''}:{oc[:60]}"


def guarded_synth_case(spec: dict[str, Any]) -> tuple[dict[str, Any], list[str], list[str]]:
	try:
		with budget(CASE_BUDGET):
			return run_synth_case(spec)
	except (Exception, BudgetExceeded) as e:  # noqa: BLE001 - a case that raises or does not come back is a disagreement, never a hang / crash
		return ({'kind': spec.get('kind', 'synth'), 'nodes': len(spec.get('nodes', [])), 'wf': False, 'violations': {}, 'outcomes': {'case-raised': 1}, 'nested': False},
			['reset'], ['real code raised ' + canon_exc(e)])


def stream_corpus(ctx: Ctx) -> Stream:
	cases = [guarded_synth_case(spec) for spec in load_corpus()]
	st = common.correspond('proc-corpus', cases, 'proc', classify=lambda d: d['kind'])
	st.note = 'committed witnesses: one per WFNode clause (as in wf_necessary_*), failing nested run (stale frame) and caught nested failure (failed_nested_counterexample)'
	return st


def stream_synth(ctx: Ctx, dirty: bool) -> Stream:
	name = 'proc-malformed' if dirty else 'proc-synth'
	rng = ctx.sub_rng(name)
	dl = Deadline(ctx, 60, 900)
	cases = [guarded_synth_case(gen_synth_spec(rng, dirty)) for _ in range(ctx.scale(400, 4000)) if not dl.over()]
	st = common.correspond(name, cases, 'proc', classify=classify_synth)
	viol: Counter[str] = Counter()
	for d, _, _ in cases:
		viol.update(d['violations'])
	st.note = ('synthetic Node subclasses through the real Node.procedural/prop_keys/Meta.embed; ' +
		('ill-formed shapes ' + json.dumps(dict(viol)) + ', missing/raising/catching handlers' if dirty else 'well-formed shapes, handlers return/raise/nest exec') +
		'; several exec ops per Procedure object (stale frames persist); ops: node, hs, procedural, wf, exec')
	return st


def stream_real(ctx: Ctx) -> tuple[Stream, list[dict[str, Any]]]:
	rng = ctx.sub_rng('proc-real')
	app = common.MemApp(ctx.tmpdir())
	cases = []
	descs = []
	for f in real_files(ctx, rng):
		with open(f, encoding='utf-8') as fh:
			src = fh.read()
		ep = load_entrypoint(app, src)
		if ep is None:
			continue
		kind_ = 'real' if is_curated(f) else 'real-uncurated'
		try:
			with budget(MODULE_BUDGET):
				c = run_real_case(rng, os.path.relpath(f, common.REPO), ep, kind_)
		except BudgetExceeded as e:
			c = ({'kind': kind_, 'file': os.path.relpath(f, common.REPO), 'export_error': canon_exc(e), 'nodes': 0, 'classes': []}, ['reset'], ['real code raised ' + canon_exc(e)])
		if c is None:
			continue
		descs.append(c[0])
		if c[1]:
			cases.append(c)
	st = common.correspond('proc-real', cases, 'proc', classify=lambda d: f"nodes<{10 ** len(str(d['nodes']))}")
	classes = sorted({c for d in descs for c in d.get('classes', [])})
	st.note = f'{len(cases)} real modules, {sum(d["nodes"] for d in descs)} exported node positions, {len(classes)} node classes seen; whole-module exec + 6 inner roots under three handler tables each'
	return st, descs


def stream_generated(ctx: Ctx) -> tuple[Stream, list[dict[str, Any]]]:
	rng = ctx.sub_rng('proc-generated')
	app = common.MemApp(ctx.tmpdir())
	gen = ProgGen(rng)
	cases = []
	descs = []
	rejected = 0
	dl = Deadline(ctx, 60, 900)
	for i in range(ctx.scale(100, 1200)):
		src = gen.program()
		ep = load_entrypoint(app, src)
		if ep is None:
			rejected += 1
			continue
		if dl.over():
			continue
		try:
			with budget(CASE_BUDGET):
				c = run_real_case(rng, f'generated#{i}', ep, 'generated')
		except BudgetExceeded as e:
			c = ({'kind': 'generated', 'file': f'generated#{i}', 'export_error': canon_exc(e), 'nodes': 0, 'classes': []}, ['reset'], ['real code raised ' + canon_exc(e)])
		if c is None:
			continue
		c[0]['source'] = src
		descs.append(c[0])
		if c[1]:
			cases.append(c)
	st = common.correspond('proc-generated', cases, 'proc', classify=lambda d: f"nodes<{10 ** len(str(d['nodes']))}")
	classes = sorted({c for d in descs for c in d.get('classes', [])})
	st.note = f'{len(cases)} generated programs parsed by tranp ({rejected} outside the grammar), {len(classes)} node classes seen'
	return st, descs


# ---------------------------------------------------------------------------------------------
# search: the law on the real code


_DECLARED: dict[type, list[str]] = {}


def declared_props(cls: type) -> list[str]:
	"""Expandable properties as declared by the decorators: read from the embed metadata of the class and its bases
	(base classes first), never through Node.prop_keys() and its class-attribute cache."""
	if cls not in _DECLARED:
		from rogw.tranp.syntax.node.embed import EmbedKeys, Meta
		from rogw.tranp.syntax.node.node import Node
		keys: list[str] = []
		for base in reversed([c for c in cls.__mro__ if issubclass(c, Node) and c is not Node]):
			keys.extend(Meta.dig_for_method(Node, base, EmbedKeys.Expandable, value_type=bool).keys())
		_DECLARED[cls] = keys
	return _DECLARED[cls]


def spec_walk(root: Any) -> tuple[list[Any], list[dict[str, Any]]]:
	"""Independent statement of the property: visiting order and, per visited position, the positions whose results the
	handler must receive for each declared property (single value vs list). No Procedure, no procedural()."""
	order: list[Any] = []
	expect: list[dict[str, Any]] = []

	def visit(n: Any) -> int:
		ev: dict[str, Any] = {}
		for k in dict.fromkeys(declared_props(type(n))):
			v = getattr(n, k)
			observe_shape(n, k, v)
			ev[k] = [visit(c) for c in v] if isinstance(v, list) else visit(v)
		order.append(n)
		expect.append(ev)
		return len(order) - 1
	visit(root)
	return order, expect


LAYOUTS = ['fallback', 'fallback', 'dedicated', 'mixed']  # handler layouts of the identity runs (see IdentityRun.wire)


class _Planted:
	"""marker a handler puts into a list argument it received (the list is its own: a fresh object per event)"""

	def __init__(self, by: int) -> None:
		self.by = by

	def __repr__(self) -> str:
		return f'<planted by call #{self.by}>'


# falsy handler results (fresh containers per call, so identity tells positions apart where it can)
FALSY: list[Any] = [lambda: None, lambda: 0, lambda: '', lambda: [], lambda: False, lambda: (), lambda: None, lambda: 0.0]
VALUES = ['identity', 'identity', 'falsy']


def list_declared(node: Any, key: str) -> bool:
	"""what the author of a handler knows from the node definition: the property is declared `list[...]`"""
	try:
		return is_ann_list(node, key)
	except Exception:  # noqa: BLE001
		return False


def short(v: Any) -> str:
	return f'(node {type(v[0]).__name__}, #{v[1]}, run {v[2]})' if isinstance(v, tuple) and len(v) == 3 else repr(v)[:60]


class _Boom(Exception):
	"""raised on purpose by the history part of the oracle (a handler failure in an earlier run)"""


class IdentityRun:
	"""One real Procedure shared by many checks. Handlers return (node, visiting index, run id); every event is compared
	with the independent property walk. A check may start nested checks from inside a handler call (`nest`) and may be
	preceded by deliberately failing runs on the same Procedure (history)."""

	def __init__(self, layout: str = 'fallback', salt: int = 0, values: str = 'identity') -> None:
		from rogw.tranp.semantics.procedure import Procedure
		self.proc: Any = Procedure()
		self.layout = layout
		self.salt = salt
		self.values = values  # 'identity': every handler returns (node, index, run id); 'falsy': a salt-chosen third of the classes returns None / 0 / '' / [] / False / ()
		self.dedicated: set[str] = set()   # classifications already decided by `wire`
		self.registered: set[str] = set()  # ... of which these have an `on_<classification>` handler
		if layout != 'dedicated':
			self.proc.on('on_fallback', self.fb)
		self.frames: list[dict[str, Any]] = []
		self.run_ids = itertools.count()
		self.nested_bad: list[tuple[str, str]] = []

	def wire(self, order: list[Any]) -> None:
		"""Handler layout (procedure.py:127-133 dispatches on `on_<classification>` first, `on_fallback` second): the law does
		not depend on which of the two serves a class. 'fallback' = catch-all only; 'dedicated' = one handler per class of the
		tree and NO catch-all; 'mixed' = catch-all + dedicated handlers for a salt-chosen half of the classes."""
		if self.layout == 'fallback':
			return
		for n in order:
			c = n.classification
			if c in self.dedicated:
				continue
			if self.layout == 'dedicated' or zlib.crc32(f'{self.salt}:{c}'.encode()) % 2 == 0:
				self.proc.on(f'on_{c}', self.handler_for(c))
				self.registered.add(c)
			self.dedicated.add(c)

	def handler_for(self, c: str) -> Any:
		def dedicated(node: Any, **kw: Any) -> tuple[Any, int, int]:
			return self.fb(node, _via=c, **kw)
		return dedicated

	def misdispatched(self, frame: dict[str, Any]) -> tuple[str, str] | None:
		"""procedure.py:127-133: `on_<classification>` when registered, else `on_fallback`."""
		for (node, _), via in zip(frame['calls'], frame['via']):
			c = node.classification
			want = c if c in self.registered else None
			if via != want:
				return (f'dispatch:{type(node).__name__}', f"{node!r} was served by {'on_' + via if via else 'on_fallback'} although {'on_' + want + ' is registered' if want else 'no dedicated handler is registered for it'}")
		return None

	def fresh(self) -> 'IdentityRun':
		"""a new Procedure with the same handler layout (after a finding / an exceeded budget)"""
		return IdentityRun(self.layout, self.salt, self.values)

	def value_for(self, node: Any, idx: int, run_id: int) -> Any:
		"""What the handler of `node` returns. The law is about ANY result (T_Ret is arbitrary): a handler may return None or
		another falsy value and its parent must receive exactly that, in the position of that child."""
		if self.values == 'falsy':
			h = zlib.crc32(f'{self.salt}:v:{node.classification}'.encode())
			if h % 3 == 0:
				return FALSY[(h // 3) % len(FALSY)]()
		return node, idx, run_id

	def fb(self, node: Any, **kw: Any) -> Any:
		via = kw.pop('_via', None)  # set by the dedicated handlers of `wire` (no getter is called `_via`)
		frame = self.frames[-1]
		idx = len(frame['calls'])
		# the event as RECEIVED (list arguments copied), then the handler edits "its" lists in place like a handler that
		# accumulates into an argument would (append / insert / extend / clear / reverse): the lists belong to this event
		# (a list received for a single-valued property is the child's RESULT - the falsy layouts return `[]` - and not the handler's to edit)
		mine = {k for k, v in kw.items() if isinstance(v, list) and list_declared(node, k)}
		frame['calls'].append((node, {k: list(v) if k in mine else v for k, v in kw.items()}))
		frame['via'].append(via)
		for j, (k, v) in enumerate(kw.items()):
			if k in mine:
				m = (idx + j) % 5
				if m == 0:
					v.append(_Planted(idx))
				elif m == 1:
					v.insert(0, _Planted(idx))
				elif m == 2:
					v.extend([_Planted(idx), _Planted(idx)])
				elif m == 3:
					v.clear()
					v.append(_Planted(idx))
				else:
					v.reverse()
					v.append(_Planted(idx))
		if frame['fail_at'] == idx:
			frame['results'].append(_Boom)
			raise _Boom()
		plan = frame['nest'].get(idx)
		if plan is not None:
			bad = self.check(plan)
			if bad:
				self.nested_bad.append((f'nested:{bad[0]}', f'nested run started from call #{idx}: {bad[1]}'))
		ret = self.value_for(node, idx, frame['id'])
		frame['results'].append(ret)
		return ret

	def fail_once(self, root: Any, at: int) -> tuple[str, str] | None:
		"""A run whose handler raises at call `at`: must surface as Errors.Fatal (procedure.py:173-174)."""
		self.wire(spec_walk(root)[0])
		frame = {'calls': [], 'via': [], 'results': [], 'nest': {}, 'fail_at': at, 'id': next(self.run_ids)}
		self.frames.append(frame)
		try:
			self.proc.exec(root)
		except Exception as e:  # noqa: BLE001
			if canon_exc(e) != 'Errors.Fatal':
				return ('handler-error-wrap', f'a handler exception surfaced as {canon_exc(e)}, procedure.py:174 promises Errors.Fatal')
			return None
		finally:
			self.frames.pop()
		return ('handler-error-swallowed', 'exec returned although a handler raised')

	def check(self, root: Any, nest: dict[int, Any] | None = None) -> tuple[str, str] | None:
		"""(key, what) when the real run violates the property on this tree."""
		try:
			order, expect = spec_walk(root)
		except Exception as e:  # noqa: BLE001
			return (f'getter-raises:{canon_exc(e)}', f'a property getter raised {canon_exc(e)} during the property walk')
		try:
			self.wire(order)
		except Exception as e:  # noqa: BLE001
			return (f'on-raises:{canon_exc(e)}', f'registering a handler raised {canon_exc(e)}')
		frame = {'calls': [], 'via': [], 'results': [], 'nest': nest or {}, 'fail_at': None, 'id': next(self.run_ids)}
		depth = len(stacks_of(self.proc))
		below = [list(f) for f in stacks_of(self.proc)]
		self.frames.append(frame)
		try:
			res = self.proc.exec(root)
		except Exception as e:  # noqa: BLE001
			calls = frame['calls']
			i = len(calls)
			at = type(order[i]).__name__ if i < len(order) else '?'
			bad = first_misaligned(order, expect, calls, frame['id'], frame['results']) or restable(order, expect, root)
			return (f'exec-raises:{canon_exc(e).split(":")[0]}:{bad[0] if bad else at}', f'exec raised {canon_exc(e)} after {i} handler calls; {bad[1] if bad else ""}')
		finally:
			self.frames.pop()
		calls = frame['calls']
		bad = first_misaligned(order, expect, calls, frame['id'], frame['results']) or restable(order, expect, root) or self.misdispatched(frame)
		if bad:
			return bad
		if len(calls) != len(order):
			return (f'visit-count:{type(root).__name__}', f'{len(calls)} handler calls for {len(order)} nodes of the property walk')
		if res is not frame['results'][-1] or (isinstance(res, tuple) and len(res) == 3 and (res[0] is not calls[-1][0] or res[1:] != (len(order) - 1, frame['id']))):
			return (f'final:{type(root).__name__}', f'exec did not return the result of the root handler (returned {short(res)}, the root handler returned {short(frame["results"][-1])})')
		now = stacks_of(self.proc)
		if len(now) != depth or any(a != b for a, b in zip(now, below)):
			return (f'frames-disturbed:{type(root).__name__}', f'stack-of-stacks had {depth} frame(s) before and has {len(now)} after a successful exec (or a lower frame changed)')
		return None


def identity_oracle(root: Any) -> tuple[str, str] | None:
	return IdentityRun().check(root)


def restable(order: list[Any], expect: list[dict[str, Any]], root: Any) -> tuple[str, str] | None:
	"""The property walk repeated after the run must see the same nodes: what a property yields may not depend on what the
	handlers (and the services they call) did in between — flattening and event building read it at different times."""
	try:
		order2, expect2 = spec_walk(root)
	except Exception as e:  # noqa: BLE001
		return (f'getter-raises-after-run:{canon_exc(e)}', f'a property getter raised {canon_exc(e)} when re-read after the run')
	for i, (n, ev) in enumerate(zip(order, expect)):
		if i >= len(order2) or order2[i].classification != n.classification or order2[i] != n or expect2[i] != ev:
			# the first differing position is a child of the node whose property changed: name that owner
			for m, ev_m in zip(order, expect):
				for k, v in ev_m.items():
					now = getattr(m, k)
					if (len(now) if isinstance(now, list) else 1) != (len(v) if isinstance(v, list) else 1):
						return (f'unstable-prop:{type(m).__name__}.{k}', f'{type(m).__name__}.{k} yielded {len(v) if isinstance(v, list) else 1} node(s) before the run and {len(now) if isinstance(now, list) else 1} after it')
			return (f'unstable-tree:{type(n).__name__}', f'the property walk differs after the run at position {i} ({type(n).__name__})')
	if len(order2) != len(order):
		return (f'unstable-tree:{type(root).__name__}', f'the property walk visits {len(order)} nodes before and {len(order2)} after the run')
	return None


def tree_of(node: Any) -> Any:
	return getattr(node, '_Node__nodes', None)


def _tok(node: Any) -> str:
	try:
		return node.tokens[:60]
	except Exception:  # noqa: BLE001
		return '?'


def is_ours(g: Any) -> bool:
	return isinstance(g, tuple) and len(g) == 3 and isinstance(g[1], int) and isinstance(g[2], int)


def first_misaligned(order: list[Any], expect: list[dict[str, Any]], calls: list[tuple[Any, dict[str, Any]]], run_id: int | None, results: list[Any]) -> tuple[str, str] | None:
	"""`calls` = the events as received, `results` = what each handler call returned (same indices)."""
	for i, (node, kw) in enumerate(calls):
		if i >= len(order):
			return (f'extra-visit:{type(node).__name__}', f'handler call #{i} for {node!r} beyond the nodes reachable through properties')
		cls = type(node).__name__
		if node is not order[i] and node != order[i]:
			return (f'visit-order:{type(order[i]).__name__}', f'call #{i} is for {node!r}, the property walk expects {order[i]!r}')
		# Node.__eq__ compares (module_path, full_path) only: a node of an earlier parse of the same module is "equal".
		# The visited node must belong to the tree that is being processed (same query object) and carry its text.
		if node is not order[i]:
			foreign = tree_of(node) is not tree_of(order[i])
			if not foreign:
				try:
					foreign = node.tokens != order[i].tokens
				except Exception:  # noqa: BLE001 - synthetic nodes have no entries
					foreign = False
			if foreign:
				return (f'visit-foreign-tree:{cls}', f'call #{i} is for a node of another (earlier) tree at the same path {node.full_path}: tokens {_tok(node)!r}, the tree being processed has {_tok(order[i])!r}')
		exp = expect[i]
		if set(kw.keys()) != set(exp.keys()):
			return (f'event-keys:{cls}', f'{cls} received keys {sorted(kw)} for properties {sorted(exp)}')
		for k, want in exp.items():
			got = kw[k]
			# a handler result may itself be a list (`[]` of the falsy layouts): a single-valued property is judged by identity first
			if isinstance(want, list):
				if not isinstance(got, list):
					return (f'event-shape:{cls}.{k}', f'{cls}.{k}: list/single mismatch')
				got_l, want_l = got, want
			else:
				own = results[want] if want < len(results) else _Boom
				if got is not own and isinstance(got, list) and not isinstance(own, list):
					return (f'event-shape:{cls}.{k}', f'{cls}.{k}: list/single mismatch')
				got_l, want_l = [got], [want]
			if any(isinstance(g, _Planted) for g in got_l):
				by = next(g.by for g in got_l if isinstance(g, _Planted))
				return (f'event-shared-list:{cls}.{k}', f'{cls}.{k} received a list object that the handler of call #{by} had received before and edited in place '
					f'(call #{i} got {[short(g) for g in got_l]}, its own nodes are at {want_l}): the list of an event is not a fresh object')
			pos = [g[1] if is_ours(g) else short(g) for g in got_l]
			if len(got_l) != len(want_l):
				return (f'event-operand:{cls}.{k}', f'{cls}.{k} received results of positions {pos}, its own nodes are at {want_l}')
			for g, q in zip(got_l, want_l):
				own = results[q] if q < len(results) else _Boom
				if g is own:
					continue
				if is_ours(g) and run_id is not None and g[2] != run_id:
					return (f'event-other-run:{cls}.{k}', f'{cls}.{k} received a result of another (nested/earlier) run')
				if is_ours(g) or any(g is r for r in results) or type(g) in (type(None), bool, int, float, str, list, tuple):
					return (f'event-operand:{cls}.{k}', f'{cls}.{k} received {pos}, its own nodes are at {want_l} whose handlers returned {[short(results[x]) if x < len(results) else "?" for x in want_l]}')
				return (f'event-foreign:{cls}.{k}', f'{cls}.{k} received something no handler returned: {short(g)}')
			vals = getattr(node, k)
			vals_l = vals if isinstance(vals, list) else [vals]
			if len(vals_l) != len(want_l) or any(q >= len(calls) or calls[q][0] != v for q, v in zip(want_l, vals_l)):
				return (f'event-node:{cls}.{k}', f'{cls}.{k} received results of other nodes than getattr yields')
	return None


def class_table_findings() -> tuple[list[tuple[str, str]], dict[str, int]]:
	"""Static part of WF over every node class of definition/*.py: repeated keys, terminals with properties, readable annotations."""
	import rogw.tranp.syntax.node.definition  # noqa: F401 - registers the classes
	from rogw.tranp.syntax.node.behavior import ITerminal
	from rogw.tranp.syntax.node.node import Node

	def subs(c: type) -> list[type]:
		out = []
		for s in c.__subclasses__():
			out.append(s)
			out.extend(subs(s))
		return out
	bad: list[tuple[str, str]] = []
	classes = sorted({c for c in subs(Node) if c.__module__.startswith('rogw.')}, key=lambda c: c.__name__)
	stats = {'classes': len(classes), 'with_props': 0, 'list_props': 0, 'single_props': 0}
	for c in classes:
		try:
			keys = c.prop_keys()
		except Exception as e:  # noqa: BLE001
			bad.append((f'wf:prop-keys-raises:{c.__name__}', f'{c.__name__}.prop_keys() raised {canon_exc(e)}'))
			continue
		stats['with_props'] += bool(keys)
		if list(keys) != declared_props(c):
			bad.append((f'prop-keys-history:{c.__name__}', f'{c.__name__}.prop_keys() = {list(keys)} but the class declares {declared_props(c)} (in-process, after the streams)'))
		if len(set(keys)) != len(keys):
			bad.append((f'wf:duplicate-key:{c.__name__}', f'{c.__name__}.prop_keys() repeats a key: {keys}'))
		if issubclass(c, ITerminal) and keys:
			bad.append((f'wf:terminal-with-props:{c.__name__}', f'{c.__name__} is ITerminal but declares expandable properties {keys}'))
		for k in keys:
			try:
				anno = getattr(c, k).fget.__annotations__['return']
			except Exception:  # noqa: BLE001
				bad.append((f'wf:annotation-missing:{c.__name__}.{k}', f'{c.__name__}.{k} has no readable return annotation (procedure.py:209 would raise)'))
				continue
			if getattr(anno, '__origin__', None) is list:
				stats['list_props'] += 1
			else:
				stats['single_props'] += 1
	return bad, stats


def safe_wf(root: Any) -> list[tuple[str, str]]:
	try:
		with budget(MODULE_BUDGET):
			return [(type(n).__name__, c) for n in [*root.procedural(), root] for c in wf_clauses(n)]
	except (Exception, BudgetExceeded) as e:  # noqa: BLE001
		return [(type(root).__name__, f'wf-evaluation-raised:{canon_exc(e)}')]


def tb_tail(e: BaseException) -> str:
	import traceback
	frames = traceback.extract_tb(e.__traceback__)
	return ' <- '.join(f'{os.path.basename(f.filename)}:{f.lineno}:{f.name}' for f in frames[-4:][::-1])


def alias_check(n: Any) -> tuple[str, str] | None:
	"""`procedural()` must hand out a fresh list: callers append to it (procedure.py:85 `flatted.append(root)`,
	ExpandModules), so a list shared with a memo (`Nodes.expand`, a property value) or between two calls is corrupted by use."""
	cls = type(n).__mro__[1].__name__ if type(n).__name__ == 'Proxy' else type(n).__name__
	a = n.procedural()
	b = n.procedural()
	if a is b:
		return (f'procedural-shared-list:{cls}', f'{cls}.procedural() returns the same list object on every call (callers append the root to it)')
	if n.can_expand:
		try:
			u = n._under_expand()
		except Exception:  # noqa: BLE001 - proxies without an entry
			u = None
		if u is not None and (a is u or b is u):
			return (f'procedural-aliases-expand-memo:{cls}', f'{cls}.procedural() returns the memoised list of Nodes.expand()/_under_expand() itself (callers append the root to it)')
	for k in dict.fromkeys(declared_props(type(n))):
		v = getattr(n, k)
		if a is v or b is v:
			return (f'procedural-aliases-property:{cls}.{k}', f'{cls}.procedural() returns the list object of property {k}')
	if [x for x in a] != [x for x in b]:
		return (f'procedural-unstable:{cls}', f'two calls of {cls}.procedural() differ')
	return None


def childless_roots(order: list[Any], limit: int) -> list[Any]:
	"""Non-terminal visited nodes with nothing to expand (`[]`, `{}`, `()`, an empty module …): as exec roots their
	flattening is the empty list — the boundary case of `procedural`."""
	out = []
	for n in order:
		try:
			if n.can_expand and not n.procedural():
				out.append(n)
		except Exception:  # noqa: BLE001 - reported when the node is used as a root
			out.append(n)
		if len(out) >= limit:
			break
	return out


def _check_root(rng: random.Random, run: 'IdentityRun', roots: list[Any], root: Any, n: int, mode: int, visited: int, twice: int,
		bad: tuple[str, str] | None, hist: Counter[str]) -> tuple[str, str] | None:
	if bad is None:
		bad = alias_check(root)
		hist['aliasing: procedural() hands out a fresh list'] += 1
	if bad is None and mode == 1:
		bad = run.fail_once(root, rng.randrange(visited)) or run.fail_once(root, visited - 1)
		hist['history: run after failed runs on the same Procedure'] += 1
	if bad is None and mode == 2 and len(roots) > 1:
		others = [r for r in roots if r is not root] or roots
		nest = {rng.randrange(visited): rng.choice(others) for _ in range(rng.randint(1, 3))}
		bad = run.check(root, nest)
		if bad is None and run.nested_bad:
			bad = run.nested_bad[0]
		run.nested_bad = []
		hist['nested: runs started from inside handler calls'] += 1
	if bad is None:
		bad = run.check(root)
	if bad is None and (mode == 3 or n < twice):
		bad = run.check(root)
		hist['history: repeated run on the same Procedure'] += 1
	return bad


def check_tree_set(rng: random.Random, name: str, roots: list[Any], res: SearchResult, hist: Counter[str], notes: list[str],
		source: str | None, must_hold: bool, twice: int = 0) -> None:
	"""The law on a set of trees sharing ONE Procedure: plain run, repeated run, run after failed runs (stale frames),
	run with nested runs started from inside handler calls. `must_hold`: the trees are known to be processable
	(real modules, well-formed synthetic trees) so any exception of the real code is a finding."""
	layout = rng.choice(LAYOUTS)
	values = rng.choice(VALUES)
	run = IdentityRun(layout, rng.randrange(1 << 16), values)
	hist[f'handler layout: {layout}'] += 1
	hist[f'handler results: {values}' + (' (a third of the classes returns None / 0 / "" / [] / False / ())' if values == 'falsy' else '')] += 1
	for n, root in enumerate(roots):
		res.cases += 1
		mode = n % 4
		bad = None
		try:
			with budget(MODULE_BUDGET):
				visited = len(spec_walk(root)[0])
		except BudgetExceeded as e:
			if must_hold:
				res.findings.append(Finding(key='budget-exceeded', what=f'the property walk of {type(root).__name__} did not come back: {e} [{name}]', replay={'source_name': name, 'source': source}))
			hist['root skipped: budget exceeded'] += 1
			continue
		except Exception as e:  # noqa: BLE001
			if must_hold:
				bad = (f'getter-raises:{canon_exc(e)}', f'a property getter raised {canon_exc(e)}')
			else:
				hist[f'property getter raised {canon_exc(e)}'] += 1
				continue
			visited = 0
		try:
			with budget(MODULE_BUDGET if n == 0 or not must_hold else CASE_BUDGET * 4):
				bad = _check_root(rng, run, roots, root, n, mode, visited, twice, bad, hist)
		except BudgetExceeded as e:
			if must_hold:
				bad = ('budget-exceeded', f'checking {type(root).__name__} did not come back: {e}')
			else:
				hist['root skipped: budget exceeded'] += 1
			run = run.fresh()
		except Exception as e:  # noqa: BLE001 - whatever the real code raised outside exec is a finding, never a harness crash
			bad = (f'real-code-raises:{canon_exc(e)}', f'{canon_exc(e)} escaped from the real code while checking {type(root).__name__}: {tb_tail(e)}')
			run = run.fresh()
		wf_bad = safe_wf(root)
		hist['trees ok' if not bad else 'trees violating'] += 1
		for cls, c in wf_bad:
			hist[f'WF violated: {c} at {cls}'] += 1
		if wf_bad and not bad:
			notes.append(f'WF violated without visible misalignment in {name}: {wf_bad[:3]}')
		if bad:
			key, what = bad
			res.findings.append(Finding(key=key, what=f'{what} [{name}]' + (f' WF: {wf_bad[:3]}' if wf_bad else ''),
				replay={'source_name': name, 'root': getattr(root, 'full_path', '?'), 'source': source, 'wf': wf_bad[:10], 'mode': mode, 'layout': run.layout, 'salt': run.salt, 'values': run.values}))
			run = run.fresh()


def search_identity(ctx: Ctx, real_descs: list[dict[str, Any]], gen_descs: list[dict[str, Any]]) -> SearchResult:
	rng = ctx.sub_rng('identity')
	res = SearchResult('identity-valued runs vs independent property walk on the real Procedure: real modules, generated programs, well-formed synthetic trees; shared Procedure, repeated / nested / after-failure runs; handler layouts fallback / dedicated / mixed; handlers edit the lists they receive in place (every event owns its lists) and in a third of the tree sets some classes return None / 0 / "" / [] / False / () (a result like any other); WF of every tree and class')
	app = common.MemApp(ctx.tmpdir())
	hist: Counter[str] = Counter()
	seen: set[str] = set()
	under_classes: dict[str, set[str]] = {}
	try:
		table_bad, stats = class_table_findings()
	except Exception as e:  # noqa: BLE001
		table_bad, stats = [(f'wf:class-table-raises:{canon_exc(e)}', f'reading the class table raised {canon_exc(e)}')], {'classes': 0}
	res.cases += stats['classes']
	hist['node classes checked'] = stats['classes']
	hist_bad = [x for x in table_bad if x[0].startswith('prop-keys-history')]
	if hist_bad:
		res.findings.append(Finding(key=hist_bad[0][0], what=f'{hist_bad[0][1]} ({len(hist_bad)} classes affected)', replay={'class_table': [w for _, w in hist_bad][:80]}))
	for key, what in table_bad:
		hist[key] += 1
		if key.startswith('prop-keys-history'):
			continue
		if 'raises' in key or 'annotation-missing' in key:
			# procedure.py:209 / node.py:193 would raise for every node of that class: the run cannot succeed
			res.findings.append(Finding(key=key, what=what, replay={'class_table': what}))
		else:
			# a static WF violation is a defect only when a tree exhibits it; the dynamic oracle decides
			ctx.notes.append(f'WF (static): {what}')
	sources: list[tuple[str, str, bool]] = []
	for f in real_files(ctx, rng):
		with open(f, encoding='utf-8') as fh:
			sources.append((os.path.relpath(f, common.REPO), fh.read(), is_curated(f)))
	gen = ProgGen(rng)
	for i in range(ctx.scale(150, 3000)):
		sources.append((f'generated#{i}', gen.program(), False))
	for d in gen_descs:
		if d.get('wf', 'ok') != 'ok' or d.get('unstable') or d.get('export_error'):
			sources.append((d['file'], d['source'], False))
	for i, b in enumerate(['', '# only a comment', 'a = []', 'a = {}\nb = ()\nc = [[], {}]', 'def f() -> None:\n\tx = []\n\treturn', 'class A:\n\tv: list[int] = []']):
		sources.insert(i, (f'boundary#{i}', b, True))
	dl = Deadline(ctx, 90, 1500)
	for name, src, must_hold in sources:
		if dl.over():
			continue
		ep = load_entrypoint(app, src)
		if ep is None:
			hist['outside grammar'] += 1
			continue
		roots = [ep]
		nchildless = 0
		try:
			with budget(MODULE_BUDGET):
				order, _ = spec_walk(ep)
			inner = [n for n in order if n.can_expand and n.prop_keys() and n is not ep]
			# boundary roots first (each run twice), then the module (an exec of the whole after execs of parts), then inner roots
			boundary = [n for n in childless_roots(order, 3) if n is not ep]
			nchildless = len(boundary)
			roots = [*boundary, ep, *rng.sample(inner, min(len(inner), 5))]
		except (Exception, BudgetExceeded):  # noqa: BLE001 - reported by check_tree_set
			order = []
		seen.add(name)
		hist['boundary roots: non-terminal nodes with nothing to expand, run twice'] += nchildless
		check_tree_set(rng, name, roots, res, hist, ctx.notes, src if name.startswith(('generated', 'boundary')) else None, must_hold, twice=nchildless + 1)
		if len(res.samples) < 2:
			res.samples.append({'source': name, 'visited': len(order), 'roots': len(roots)})
	# well-formed synthetic shapes (several list properties, empty lists, shared node objects, deep chains)
	srng = ctx.sub_rng('identity-synth')
	for i in range(ctx.scale(150, 2500)):
		if dl.over():
			continue
		spec = gen_synth_spec(srng, False)
		try:
			nodes, _ = build_synth(spec)
		except Exception as e:  # noqa: BLE001
			res.findings.append(Finding(key=f'synth-build-raises:{canon_exc(e)}', what=f'building synthetic Node subclasses raised {canon_exc(e)}', replay={'spec': spec}))
			break
		seen.add(f'synth#{i}')
		before = len(res.findings)
		check_tree_set(srng, f'synth#{i}', [nodes[r] for r in spec['roots']], res, hist, ctx.notes, None, True)
		for f in res.findings[before:]:
			f.replay['spec'] = spec
	for d in real_descs + gen_descs:
		for k, v in d.get('under_stats', {}).items():
			cat, sep, cls = k.rpartition(': ')
			if sep and cat.startswith(('terminal', 'non-terminal')):
				hist[f'clause 2: {cat}'] += v
				under_classes.setdefault(cat, set()).add(cls)
			else:
				hist[f'clause 2: {k}'] += v
		for u in d.get('unstable', []):
			hist[f'unstable property {u}'] += 1
			res.findings.append(Finding(key=f'unstable-prop:{u}', what=f'two reads of {u} yield different nodes ({d["file"]}): flattening and event building can disagree',
				replay={'source_name': d['file'], 'source': d.get('source')}))
		if d.get('export_error'):
			hist[f"export error {d['export_error']}"] += 1
			if d['kind'] == 'real':
				res.findings.append(Finding(key=f"getter-raises:{d['export_error']}", what=f"exporting {d['file']} raised {d['export_error']}", replay={'source_name': d['file']}))
	for cat, clss in sorted(under_classes.items()):
		ctx.notes.append(f'WF clause 2, nodes whose properties yield nothing — {cat}: {sorted(clss)}')
	res.distinct = len(seen)
	res.histogram = dict(hist)
	hist.update(PARSE_SKIPPED)
	res.note = f'class table: {json.dumps(stats)}' + dl.note()
	return res


class SemanticRun(IdentityRun):
	"""Identity-valued run whose handlers also use the semantic service the production handlers use:
	`Reflections.type_of(node)` on every node (its errors are not this property's business and are swallowed)."""

	def __init__(self, refs: Any, hist: Counter[str]) -> None:
		super().__init__()
		self.refs = refs
		self.hist = hist

	def fb(self, node: Any, **kw: Any) -> tuple[Any, int, int]:
		from rogw.tranp.errors import Errors
		try:
			self.refs.type_of(node)
			self.hist['type_of resolved'] += 1
		except Errors.Error:
			self.hist['type_of raised Errors.*'] += 1
		except Exception as e:  # noqa: BLE001
			self.hist[f'type_of raised {type(e).__name__}'] += 1
		return super().fb(node, **kw)


def generic_program(rng: random.Random) -> str:
	"""Semantically valid programs around generic base classes whose template-typed attributes are read in subclasses
	(through inheritance chains of varying depth, several families per program)."""
	out = ['from typing import Generic, TypeVar', '', "T = TypeVar('T')", "T2 = TypeVar('T2')", '']
	bound = ['int', 'str', 'float', 'bool']
	for f in range(rng.randint(2, 4)):
		two = rng.random() < 0.3
		attrs = [f'val{f}_{i}' for i in range(rng.randint(1, 3))]
		out.append(f"class Base{f}(Generic[{'T, T2' if two else 'T'}]):")
		for a in attrs:
			out.append(f'\t{a}: T')
		if two:
			out.append(f'\tsec{f}: T2')
		out.append(f'\tplain{f}: int')
		out.append(f"\tdef __init__(self, v: T{', w: T2' if two else ''}) -> None:")
		for a in attrs:
			out.append(f'\t\tself.{a} = v')
		if two:
			out.append(f'\t\tself.sec{f} = w')
		out.append(f'\t\tself.plain{f} = 0')
		out.append(f'\tdef own{f}(self) -> T:')
		out.append(f'\t\treturn self.{attrs[0]}')
		out.append('')
		if rng.random() < 0.5:
			out.append(f'class Other{f}:')
			out.append(f'\tdef other{f}(self) -> int:')
			out.append('\t\treturn 1')
			out.append('')
		b = rng.choice(bound)
		b2 = rng.choice(bound)
		prev = f"Base{f}[{b}{', ' + b2 if two else ''}]"
		for j in range(rng.randint(0, 3)):
			name = f'Mid{f}_{j}'
			if rng.random() < 0.5:
				out.append(f'class {name}({prev}): ...')
			else:
				out.append(f'class {name}({prev}):')
				out.append(f'\tdef mid{f}_{j}(self) -> {b}:')
				out.append(f'\t\treturn self.{rng.choice(attrs)}')
			out.append('')
			prev = name
		for k in range(rng.randint(1, 3)):
			name = f'Sub{f}_{k}'
			extra = f', Other{f}' if f'class Other{f}:' in out and rng.random() < 0.5 else ''
			out.append(f'class {name}({prev}{extra}):')
			for m in range(rng.randint(1, 3)):
				a = rng.choice(attrs)
				form = rng.randrange(5)
				out.append(f'\tdef get{m}(self) -> {b}:')
				if form == 0:
					out.append(f'\t\treturn self.{a}')
				elif form == 1:
					out.append(f'\t\ta = self.{a}')
					out.append(f'\t\tb = self.plain{f} + 1')
					out.append('\t\treturn a')
				elif form == 2:
					out.append(f'\t\tif self.{a} == self.{rng.choice(attrs)}:')
					out.append(f'\t\t\treturn self.{a}')
					out.append(f'\t\treturn self.own{f}()')
				elif form == 3:
					out.append(f'\t\txs = [self.{a}, self.{rng.choice(attrs)}]')
					out.append('\t\treturn xs[0]')
				else:
					out.append(f'\t\tprint(self.{a}, self.plain{f})')
					out.append(f'\t\treturn self.{a}')
			out.append('')
			if rng.random() < 0.5:
				prev = name
	return '\n'.join(out) + '\n'


def search_semantic(ctx: Ctx) -> SearchResult:
	"""The same law with handlers that call Reflections.type_of on every node (what py2cpp's handlers do): the nodes a
	property yields must be the same at flattening time and at event time although the semantic services run in between."""
	from rogw.tranp.semantics.reflections import Reflections
	rng = ctx.sub_rng('semantic')
	res = SearchResult('identity-valued runs whose handlers call Reflections.type_of(node) (module loaded through Modules.load): generic-class programs + real modules')
	hist: Counter[str] = Counter()
	sources: list[tuple[str, str]] = [(f'generic#{i}', generic_program(rng)) for i in range(ctx.scale(4, 60))]
	curated = [os.path.join(common.REPO, f) for f in (
		'tests/unit/rogw/tranp/semantics/fixtures/fixture_reflections.py', 'example/json.py', 'example/FW/string.py',
		'rogw/tranp/compatible/libralies/classes.py', 'tests/unit/rogw/tranp/implements/transpiler/fixtures/fixture_evaluator.py')]
	if ctx.thorough:
		pool = sorted(set(glob.glob(os.path.join(common.REPO, 'example/**/*.py'), recursive=True) + glob.glob(os.path.join(common.REPO, 'tests/unit/**/fixtures/*.py'), recursive=True)))
		curated += [f for f in pool if f not in curated]
	curated = [c for c in curated if os.path.exists(c)]
	if not ctx.thorough:
		rng.shuffle(curated)
	for f in curated[:ctx.scale(1, 14)]:
		with open(f, encoding='utf-8') as fh:
			sources.append((os.path.relpath(f, common.REPO), fh.read()))
	seen: set[str] = set()
	dl = Deadline(ctx, 90, 1500)
	for name, src in sources:
		if dl.over():
			continue
		generated = name.startswith('generic#')
		t0 = time.time()
		try:
			with budget(MODULE_BUDGET):
				app = common.MemApp(ctx.tmpdir())
				ep = app.module(src).entrypoint
				refs = app.resolve(Reflections)
		except (Exception, BudgetExceeded) as e:  # noqa: BLE001
			hist[f'module load raised {canon_exc(e)}'] += 1
			if generated:
				# these programs are valid tranp input: loading them must succeed
				res.findings.append(Finding(key=f'semantic-load-raises:{canon_exc(e)}', what=f'loading a generic-class program through Modules/Reflections raised {canon_exc(e)}', replay={'source_name': name, 'source': src}))
			continue
		seen.add(name)
		run = SemanticRun(refs, hist)
		try:
			with budget(MODULE_BUDGET):
				order, _ = spec_walk(ep)
		except (Exception, BudgetExceeded) as e:  # noqa: BLE001
			res.findings.append(Finding(key=f'getter-raises:{canon_exc(e)}', what=f'a property getter raised {canon_exc(e)} [{name}]', replay={'source_name': name, 'source': src if generated else None}))
			continue
		roots = [ep] + [n for n in order if type(n).__name__ in ('Class', 'Method', 'Constructor', 'Function') and n is not ep][:ctx.scale(6 if generated else 3, 40)]
		for n, root in enumerate(roots):
			res.cases += 1
			try:
				with budget(MODULE_BUDGET):
					bad = run.check(root)
					if bad is None and n == 0 and (generated or ctx.thorough):
						bad = run.check(root)  # once more on the same Procedure, the services now warm
			except BudgetExceeded as e:
				bad = ('budget-exceeded', f'checking {type(root).__name__} with handlers calling Reflections.type_of did not come back: {e}')
				run = SemanticRun(refs, hist)
			except Exception as e:  # noqa: BLE001
				bad = (f'real-code-raises:{canon_exc(e)}', f'{canon_exc(e)} escaped from the real code while checking {type(root).__name__}: {tb_tail(e)}')
			hist['trees ok' if not bad else 'trees violating'] += 1
			if bad:
				key, what = bad
				res.findings.append(Finding(key=key, what=f'{what} [{name}, handlers call Reflections.type_of]',
					replay={'source_name': name, 'root': root.full_path, 'source': src if generated else None, 'mode': 'semantic'}))
				break
		if len(res.samples) < 8:
			res.samples.append({'source': name, 'visited': len(order), 'roots': len(roots), 'seconds': round(time.time() - t0, 2)})
	res.distinct = len(seen)
	res.histogram = dict(hist)
	res.note = dl.note() + 'handlers = identity + Reflections.type_of on every node (Errors.* swallowed); law unchanged: event[k] is exactly what getattr(n, k) yields at flattening time and at event time, one final result, frames undisturbed; property walk repeated after the run'
	return res


# --- the prop_keys() cache as a class-table model (Model/PropKeys.lean)


def class_table_lines(classes: list[type]) -> tuple[list[str], dict[type, int]]:
	"""Class table as `pk.*` op lines: name, metadata path, MRO restricted to the table, expandable names per path."""
	from rogw.tranp.syntax.node.embed import EmbedKeys, Meta
	from rogw.tranp.syntax.node.node import Node
	table = [Node, *[c for c in classes if c is not Node]]
	ids = {c: i for i, c in enumerate(table)}
	lines = ['pk.reset']
	for c, i in ids.items():
		mro = [ids[b] for b in c.__mro__ if b in ids]
		lines.append('\t'.join(['pk.cls', str(i), hx(c.__name__), hx(f'{c.__module__}.{c.__name__}'), ','.join(map(str, mro))]))
	lines.append(f'pk.node\t{ids[Node]}')
	seen: set[str] = set()
	for c in table:
		path = f'{c.__module__}.{c.__name__}'
		if path in seen or c is Node:
			continue
		seen.add(path)
		keys = list(Meta.dig_for_method(Node, c, EmbedKeys.Expandable, value_type=bool).keys())
		lines.append(f"pk.meta\t{hx(path)}\t{','.join(keys) or '-'}")
	return lines, ids


def pk_queries(ids: dict[type, int], order: list[type]) -> tuple[list[str], list[str]]:
	lines, real = [], []
	for c in order:
		lines.append(f'pk.q\t{ids[c]}')
		try:
			real.append(','.join(c.prop_keys()) or '-')
		except Exception as e:  # noqa: BLE001
			real.append('raised ' + canon_exc(e))
	for c in ids:
		lines.append(f'pk.pure\t{ids[c]}')
		real.append(','.join(declared_props(c)) or '-')
	return lines, real


def gen_class_table(rng: random.Random) -> list[type]:
	"""Synthetic Node subclasses: single and multiple inheritance, names and metadata paths that recur (also along one MRO),
	properties redeclared in subclasses."""
	from rogw.tranp.syntax.node.embed import Meta, expandable
	from rogw.tranp.syntax.node.node import Node
	tag = next(_syn_counter)
	names = ['A', 'B', 'C', 'Ab'] if rng.random() < 0.5 else [f'K{i}' for i in range(8)]
	mods = [f'{SYN_MODULE}.t{tag}.m1', f'{SYN_MODULE}.t{tag}.m2']
	keypool = ['a', 'ab', 'b', 'items']
	classes: list[type] = []
	for _ in range(rng.randint(2, 8)):
		name, mod = rng.choice(names), rng.choice(mods)
		bases: tuple[type, ...] = tuple(rng.sample(classes, min(len(classes), rng.choice([0, 1, 1, 1, 2])))) or (Node,)
		try:
			cls = type(name, bases, {'__module__': mod})
		except TypeError:  # inconsistent MRO
			cls = type(name, (bases[0],), {'__module__': mod})
		for key in rng.sample(keypool, rng.choice([0, 0, 1, 1, 2])):
			def fget(self: Any, _k: str = key) -> Any:
				return self._vals[_k]
			fget.__name__ = key
			fget.__qualname__ = f'{name}.{key}'
			fget.__module__ = mod
			fget.__annotations__ = {'return': Node}
			Meta.embed(Node, expandable)(fget)
			setattr(cls, key, property(fget))
		classes.append(cls)
	return classes


def stream_propkeys_synth(ctx: Ctx) -> Stream:
	rng = ctx.sub_rng('propkeys-synth')
	cases = []
	for _ in range(ctx.scale(150, 2000)):
		try:
			classes = gen_class_table(rng)
			lines, ids = class_table_lines(classes)
			order = [rng.choice(list(ids)) for _ in range(2 * len(ids))]
			ql, qr = pk_queries(ids, order)
			same_name = any(b.__name__ == c.__name__ for c in classes for b in c.__mro__[1:])
			wrong = any(r != ','.join(declared_props(c)) and not r.startswith('raised') and (r != '-' or declared_props(c)) for c, r in zip(order, qr))
			cases.append(({'classes': len(classes), 'same_name_on_mro': same_name, 'history_dependent': wrong}, lines + ql, ['ok'] * len(lines) + qr))
		except Exception as e:  # noqa: BLE001 - Meta.embed / prop_keys machinery raised: a disagreement, not a crash
			cases.append(({'classes': 0, 'same_name_on_mro': False, 'history_dependent': False}, ['pk.reset'], ['real code raised ' + canon_exc(e)]))
	st = common.correspond('propkeys-synth', cases, 'proc',
		classify=lambda d: f"same-name-on-mro={d['same_name_on_mro']} history-dependent-answer={d['history_dependent']}")
	st.note = 'synthetic Node subclass tables (diamonds, recurring names/paths, redeclared properties): real prop_keys() under random call orders vs Model/PropKeys.query on the exported table; pk.pure vs metadata read'
	return st


# --- class-level history: the prop_keys() cache is process-wide class state, so this part runs in fresh processes


def definition_classes() -> list[type]:
	import rogw.tranp.syntax.node.definition as defs
	from rogw.tranp.syntax.node.node import Node

	def subs(c: type) -> list[type]:
		out = []
		for x in c.__subclasses__():
			out.append(x)
			out.extend(subs(x))
		return out
	exported = [v for v in vars(defs).values() if isinstance(v, type) and issubclass(v, Node)]
	rest = sorted({c for c in subs(Node) if c.__module__.startswith('rogw.')} - set(exported), key=lambda c: c.__name__)
	return [*dict.fromkeys([*exported, *rest]), Node]


def query_order(mode: str, seed: int) -> list[type]:
	from rogw.tranp.syntax.node.node import Node
	classes = definition_classes()
	if mode == 'exports':
		return classes
	if mode == 'bases-first':
		return sorted(classes, key=lambda c: (len(c.__mro__), c.__name__))
	if mode == 'leaves-first':
		return sorted(classes, key=lambda c: (-len(c.__mro__), c.__name__))
	if mode == 'reverse-mro':
		return [b for c in sorted(classes, key=lambda c: c.__name__) for b in reversed(c.__mro__) if isinstance(b, type) and issubclass(b, Node)]
	if mode == 'random':
		r = random.Random(f'C09:order:{seed}')
		out = list(classes)
		r.shuffle(out)
		return out[:r.randint(1, len(out))] if seed % 2 else out
	if mode == 'none':
		return []
	raise AssertionError(mode)


def worker_main() -> None:
	"""Entry of the fresh process: whatever escapes becomes a finding of the parent, never a silent death."""
	import sys
	import traceback
	try:
		_worker_body()
	except Exception as e:  # noqa: BLE001
		json.dump({'findings': [{'key': f'worker-raised:{canon_exc(e)}', 'what': f'the fresh-process oracle died with {canon_exc(e)}: {tb_tail(e)}',
			'replay': {'traceback': traceback.format_exc()[-3000:]}}], 'hist': {'worker raised': 1}, 'pk_lines': ['pk.reset'], 'pk_real': ['worker raised ' + canon_exc(e)]}, sys.stdout)


def _worker_body() -> None:
	"""Fresh process: query prop_keys() on the node classes in a given order, then check every class against its declared
	properties and run the identity-valued oracle on the given sources. Reads a JSON job on stdin, writes JSON on stdout."""
	import sys
	import tempfile
	job = json.load(sys.stdin)
	findings: list[dict[str, Any]] = []
	hist: Counter[str] = Counter()
	order = query_order(job['mode'], job['seed'])
	queried: list[str] = []
	pk_lines, pk_ids = class_table_lines(definition_classes())
	pk_real = ['ok'] * len(pk_lines)
	for c in order:
		pk_lines.append(f'pk.q\t{pk_ids[c]}')
		try:
			pk_real.append(','.join(c.prop_keys()) or '-')
		except Exception as e:  # noqa: BLE001
			pk_real.append('raised ' + canon_exc(e))
			findings.append({'key': f'prop-keys-raises:{c.__name__}', 'what': f'{c.__name__}.prop_keys() raised {canon_exc(e)}', 'replay': {'queried_before': queried[-20:]}})
		queried.append(c.__name__)
	ql, qr = pk_queries(pk_ids, random.Random(f'C09:pk:{job["seed"]}').sample(list(pk_ids), len(pk_ids)))
	pk_lines += ql
	pk_real += qr
	names_distinct = all(b.__name__ != c.__name__ for c in pk_ids for b in c.__mro__[1:] if b in pk_ids)
	hist['class table: names distinct on every MRO (hypothesis of prop_keys_history_independent)' if names_distinct else 'class table: a class shares its name with one of its bases'] += 1
	hist[f'classes queried first ({job["mode"]})'] = len(order)
	pos = {n: i for i, n in reversed(list(enumerate(queried)))}
	for c in definition_classes():
		try:
			got = list(c.prop_keys())
		except Exception as e:  # noqa: BLE001
			findings.append({'key': f'prop-keys-raises:{c.__name__}', 'what': f'{c.__name__}.prop_keys() raised {canon_exc(e)}', 'replay': {}})
			continue
		want = declared_props(c)
		hist['classes compared with their declared properties'] += 1
		if got != want:
			me = pos.get(c.__name__, len(queried))
			earlier = [b.__name__ for b in c.__mro__[1:] if b.__name__ in pos and pos[b.__name__] < me]
			findings.append({'key': f'prop-keys-history:{c.__name__}',
				'what': f'{c.__name__}.prop_keys() = {got} but the class declares {want} (expandable metadata over the MRO) after prop_keys() was queried on {earlier or "other classes"} first',
				'replay': {'query_order': queried[:me + 1], 'class': c.__name__, 'prop_keys': got, 'declared': want, 'bases_queried_earlier': earlier}})
	tmp = tempfile.mkdtemp(prefix='tranp-verif-c09w-')
	try:
		app = common.MemApp(tmp)
		for name, src in job['sources']:
			ep = load_entrypoint(app, src)
			if ep is None:
				hist['outside grammar'] += 1
				continue
			run = IdentityRun()
			roots = [ep]
			try:
				walk, _ = spec_walk(ep)
				inner = [n for n in walk if n.can_expand and declared_props(type(n)) and n is not ep]
				roots = [*[n for n in childless_roots(walk, 2) if n is not ep], ep, *random.Random(f'{name}:{job["seed"]}').sample(inner, min(len(inner), 3))]
			except Exception as e:  # noqa: BLE001
				if not job['must_hold'].get(name, False):
					hist['property getter raised (program outside the supported subset)'] += 1
					continue
				findings.append({'key': f'getter-raises:{canon_exc(e)}', 'what': f'a property getter raised {canon_exc(e)}: {tb_tail(e)} [{name}; prop_keys() queried first in order {job["mode"]}]',
					'replay': {'source_name': name, 'source': src, 'mode': 'prop-keys-history', 'order_mode': job['mode'], 'order_seed': job['seed']}})
				continue
			for root in roots:
				hist['trees'] += 1
				try:
					bad = alias_check(root) or run.check(root) or run.check(root)
				except Exception as e:  # noqa: BLE001
					bad = (f'real-code-raises:{canon_exc(e)}', f'{canon_exc(e)} escaped from the real code while checking {type(root).__name__}: {tb_tail(e)}')
					run = IdentityRun()
				if bad and bad[0].startswith('getter-raises') and not job['must_hold'].get(name, False):
					hist['property getter raised (program outside the supported subset)'] += 1
					break
				if bad:
					findings.append({'key': bad[0], 'what': f'{bad[1]} [{name}; prop_keys() queried first in order {job["mode"]}]',
						'replay': {'source_name': name, 'source': src, 'root': root.full_path, 'mode': 'prop-keys-history', 'order_mode': job['mode'], 'order_seed': job['seed'],
							'query_order_head': queried[:40]}})
					break
	finally:
		import shutil
		shutil.rmtree(tmp, ignore_errors=True)
	json.dump({'findings': findings, 'hist': dict(hist), 'pk_lines': pk_lines, 'pk_real': pk_real}, sys.stdout)


def run_worker(job: dict[str, Any]) -> dict[str, Any]:
	import sys
	env = dict(os.environ)
	env['PYTHONPATH'] = os.pathsep.join([os.path.join(common.VERIF, 'compat'), common.REPO, common.VERIF])
	env['PYTHONDONTWRITEBYTECODE'] = '1'
	try:
		rc, out, err = common.run_cmd([sys.executable, '-c', 'from harness import c09; c09.worker_main()'], common.REPO, 600, input_text=json.dumps(job), env=env)
	except common.InfraError as e:  # timeout: the fresh process did not come back
		rc, out, err = 1, '', str(e)
	try:
		if rc != 0:
			raise ValueError(f'exit code {rc}')
		return json.loads(out)
	except ValueError as e:
		# a worker that dies (segfault, recursion in the interpreter, os._exit …) is a finding with its stderr tail
		return {'findings': [{'key': 'worker-died', 'what': f'the fresh-process oracle (order {job["mode"]}) died: {e}; stderr tail: {err[-800:]}',
			'replay': {'stderr': err[-3000:], 'sources': [n for n, _ in job['sources']]}}], 'hist': {'worker died': 1}, 'pk_lines': ['pk.reset'], 'pk_real': [f'worker died: {e}']}


PK_REAL_CASES: list[tuple[Any, list[str], list[str]]] = []


def search_prop_keys_history(ctx: Ctx) -> SearchResult:
	"""History over pure class-level queries: whatever order prop_keys() was asked in before (abstract bases first, export
	order, random prefixes), every class must report its declared properties and the identity-valued runs must hold."""
	rng = ctx.sub_rng('prop-keys-history')
	res = SearchResult('fresh processes: prop_keys() queried on all node classes in several orders, then prop_keys vs declared metadata for every class + identity-valued runs vs property walk')
	hist: Counter[str] = Counter()
	modes: list[tuple[str, int]] = [('bases-first', 0), ('exports', 0), ('random', 2 * rng.randrange(1000)), ('random', 2 * rng.randrange(1000) + 1)]
	if ctx.thorough:
		modes += [('reverse-mro', 0), ('leaves-first', 0), ('none', 0)] + [('random', rng.randrange(100000)) for _ in range(8)]
	gen = ProgGen(rng)
	curated = [f for f in REAL_QUICK if is_curated(os.path.join(common.REPO, f)) and os.path.exists(os.path.join(common.REPO, f))]
	dl = Deadline(ctx, 60, 300)
	for mode, seed in modes:
		if PK_REAL_CASES and dl.over():  # the first order always runs (it also feeds the propkeys-real stream)
			continue
		sources: list[list[str]] = []
		must_hold: dict[str, bool] = {}
		for f in rng.sample(curated, min(len(curated), ctx.scale(1, 3))):
			with open(os.path.join(common.REPO, f), encoding='utf-8') as fh:
				sources.append([f, fh.read()])
			must_hold[f] = True
		sources.append(['generic', generic_program(rng)])
		must_hold['generic'] = True
		for i, b in enumerate(['', 'a = []', 'a = {}\nb = ()']):
			sources.append([f'boundary#{i}', b])
			must_hold[f'boundary#{i}'] = True
		for i in range(ctx.scale(6, 30)):
			sources.append([f'generated#{i}', gen.program()])
		out = run_worker({'mode': mode, 'seed': seed, 'sources': sources, 'must_hold': must_hold})
		PK_REAL_CASES.append(({'order': mode, 'seed': seed}, out['pk_lines'], out['pk_real']))
		res.cases += 1 + out['hist'].get('trees', 0)
		for k, v in out['hist'].items():
			hist[k if not k.startswith('classes queried') else f'{k}'] += v
		hist[f'order {mode}: ' + ('ok' if not out['findings'] else f"{len(out['findings'])} finding(s)")] += 1
		runs = [f for f in out['findings'] if not f['key'].startswith('prop-keys-')]
		table = [f for f in out['findings'] if f['key'].startswith('prop-keys-')]
		# a failing run (source + query order) first; the class-level disagreements of one order as a single finding
		for f in runs[:2]:
			f['replay'].update({'order_mode': mode, 'order_seed': seed, 'classes_with_wrong_prop_keys': [t['replay'].get('class') for t in table][:60]})
			res.findings.append(Finding(key=f"{f['key']}@after-prop_keys-queries", what=f['what'], replay=f['replay']))
		if table:
			first = table[0]
			first['replay'].update({'order_mode': mode, 'order_seed': seed, 'all_affected': [{k: t['replay'].get(k) for k in ('class', 'prop_keys', 'declared', 'bases_queried_earlier')} for t in table][:80]})
			res.findings.append(Finding(key=first['key'], what=f"{first['what']} ({len(table)} classes affected in order {mode})", replay=first['replay']))
		if len(res.samples) < 2:
			res.samples.append({'order': mode, 'seed': seed, 'sources': [n for n, _ in sources][:4], 'hist': out['hist']})
	res.distinct = len(modes)
	res.histogram = dict(hist)
	res.note = 'the prop_keys() cache is a class attribute looked up with hasattr (follows the MRO): a base queried before a subclass must not leak its list' + dl.note().replace('case(s)', 'order(s)')
	return res


# --- history: one Procedure survives an unload + re-parse of the module (Interactive, Modules.unload + re-request)


class EditGen:
	"""Pairs of programs with the same statement skeleton (hence the same paths): version 2 changes only token texts
	(`tokens`) or also the number of elements of list-valued properties at paths that exist in both (`lengths`)."""

	def __init__(self, rng: random.Random) -> None:
		self.rng = rng

	def atom(self, salt: int) -> str:
		r = self.rng
		return r.choice([str(r.randint(0, 9) + 10 * salt), f'n{r.randint(0, 3)}{salt}', f"'s{r.randint(0, 3)}{salt}'", f'[{r.randint(0, 9)}, {salt}]', '[]'])

	def items(self, n: int, salt: int) -> list[str]:
		return [self.atom(salt) for _ in range(n)]

	def stmt(self, i: int, kind: int, n: int, salt: int) -> str:
		it = self.items(max(n, 1), salt)
		if kind == 0:
			return f"v{i} = [{', '.join(it[:n])}]\n"
		if kind == 1:
			return f"v{i} = f{i}({', '.join(it[:n])})\n"
		if kind == 2:
			return f'v{i} = {{' + ', '.join(f'{j}: {x}' for j, x in enumerate(it[:n])) + '}\n'
		if kind == 3:
			params = ', '.join(f'p{j}: int' for j in range(n))
			return f'def g{i}({params}) -> int:\n\treturn {it[0]}\n'
		if kind == 4:
			body = ''.join(f'\tw{j} = {x}\n' for j, x in enumerate(it[:max(n, 1)]))
			return f'def h{i}() -> None:\n{body}'
		if kind == 5:
			body = ''.join(f'\tdef m{j}(self) -> int:\n\t\treturn {x}\n' for j, x in enumerate(it[:max(n, 1)]))
			return f'class C{i}:\n{body}'
		if kind == 6:
			return f"v{i} = {' + '.join(it[:max(n, 2)])}\n"
		if kind == 7:
			body = ''.join(f'\tu{j} = {x}\n' for j, x in enumerate(it[:max(n, 1)]))
			return f'if {it[0]}:\n{body}else:\n\tpass\n'
		return f"v{i} = ({', '.join(it[:max(n, 2)])})\n"

	def pair(self) -> tuple[str, str, str]:
		r = self.rng
		kinds = [r.randrange(9) for _ in range(r.randint(1, 5))]
		ns = [r.randint(0, 4) for _ in kinds]
		mode = r.choice(['tokens', 'lengths', 'lengths'])
		ns2 = list(ns) if mode == 'tokens' else [max(0, n + r.choice([-2, -1, 1, 2])) if r.random() < 0.7 else n for n in ns]
		if mode == 'lengths' and ns2 == ns:
			ns2[0] = ns[0] + 1
		state = r.getstate()
		src1 = ''.join(self.stmt(i, k, n, 1) for i, (k, n) in enumerate(zip(kinds, ns)))
		r.setstate(state)  # the same random choices: only the salt (token texts) and the lengths differ
		src2 = ''.join(self.stmt(i, k, n, 2) for i, (k, n) in enumerate(zip(kinds, ns2)))
		return src1, src2, mode


def bump_numbers(src: str) -> str | None:
	"""Version 2 of a real module: every integer literal + 1 (same tree shape, same paths, different token texts)."""
	import io
	import tokenize
	try:
		toks = list(tokenize.generate_tokens(io.StringIO(src).readline))
	except Exception:  # noqa: BLE001
		return None
	lines = src.splitlines(keepends=True)
	for t in reversed(toks):
		if t.type == tokenize.NUMBER and t.string.isdigit() and t.start[0] == t.end[0]:
			ln = lines[t.start[0] - 1]
			lines[t.start[0] - 1] = ln[:t.start[1]] + str(int(t.string) + 1) + ln[t.end[1]:]
	out = ''.join(lines)
	return out if out != src else None


def search_reparse(ctx: Ctx) -> SearchResult:
	"""One Procedure across unload + re-parse of the same module: nodes of the new tree are == (same module path and full
	path) to nodes of the old one, so anything a Procedure remembers per node or per (node, key) goes stale. The law is
	checked on the new tree by node identity / token text, through Entrypoints.unload/load and through Modules.unload/load."""
	rng = ctx.sub_rng('reparse')
	res = SearchResult('history: ONE Procedure, exec on tree 1 of a module, module unloaded and re-parsed from an edited source (same paths; other texts / other list lengths), exec again (Entrypoints and Modules wiring)')
	hist: Counter[str] = Counter()
	gen = EditGen(rng)
	seen: set[str] = set()
	cases: list[tuple[str, list[str], str]] = []
	for i in range(ctx.scale(45, 900)):
		a, b, mode = gen.pair()
		cases.append((f'edit#{i}', [a, b, a] if i % 3 else [a, b], mode))
	for f in real_files(ctx, rng)[:ctx.scale(3, 25)]:
		if not is_curated(f):
			continue
		with open(f, encoding='utf-8') as fh:
			src = fh.read()
		b = bump_numbers(src)
		if b:
			cases.append((os.path.relpath(f, common.REPO), [src, b], 'tokens'))
	for wiring in ('entrypoints', 'modules'):
		app = common.MemApp(ctx.tmpdir())
		load = (lambda s: app.entrypoint(s)) if wiring == 'entrypoints' else (lambda s: app.module(s).entrypoint)
		run = IdentityRun()
		since_reset: list[dict[str, Any]] = []  # every step this Procedure object has seen (the histories share it)
		dl = Deadline(ctx, 45, 900)
		for name, versions, mode in cases:
			if dl.over():
				continue
			if wiring == 'modules' and not name.startswith('edit#') and not ctx.thorough:
				continue
			paths: list[str] = []
			for v, src in enumerate(versions):
				try:
					with budget(MODULE_BUDGET):
						ep = load(src)
				except (Exception, BudgetExceeded) as e:  # noqa: BLE001 - outside the grammar
					hist[f'parse raised {canon_exc(e)}'] += 1
					break
				bad = None
				root = ep
				try:
					with budget(MODULE_BUDGET):
						order, _ = spec_walk(ep)
						if v == 0:
							inner = [n for n in order if n.can_expand and declared_props(type(n)) and n is not ep]
							paths = [n.full_path for n in rng.sample(inner, min(len(inner), 3))]
						nodes_q = tree_of(ep)
						roots = [nodes_q.by(p) for p in paths if nodes_q.exists(p)]
						roots = [r for r in roots if r.can_expand] + [ep]
						if v % 2:
							roots.reverse()
						for j, root in enumerate(roots):
							res.cases += 1
							hist[f'{wiring}: version {v + 1} ({mode if v else "first parse"})'] += 1
							since_reset.append({'module': name, 'version': v + 1, 'parse': j == 0, 'root': root.full_path,
								'source': src if name.startswith('edit#') else None})
							bad = run.check(root)
							if bad:
								break
				except BudgetExceeded as e:
					bad = ('budget-exceeded', f'a re-parse history step did not come back: {e}')
				except Exception as e:  # noqa: BLE001
					bad = (f'real-code-raises:{canon_exc(e)}', f'{canon_exc(e)} escaped from the real code: {tb_tail(e)}')
				if bad:
					key, what = bad
					res.findings.append(Finding(key=f'{key}@after-reparse' if v else key,
						what=f'{what} [{name}, {wiring} wiring, version {v + 1} of the module after exec on version(s) before it with the same Procedure; edit kind: {mode}]',
						replay={'mode': 'reparse', 'wiring': wiring, 'edit': mode, 'versions': versions if name.startswith('edit#') else None, 'source_name': name,
							'history': since_reset[-40:], 'note': 'history = the last steps of this Procedure object, oldest first; parse=true: the module was unloaded and (re-)parsed from `source` before this exec'}))
					run = IdentityRun()
					since_reset = []
					hist['histories violating'] += 1
					break
			else:
				hist['histories ok'] += 1
			seen.add(f'{wiring}:{name}')
			if len(res.samples) < 2 and name.startswith('edit#'):
				res.samples.append({'history': name, 'wiring': wiring, 'edit': mode, 'versions': versions})
	res.distinct = len(seen)
	res.histogram = dict(hist)
	res.note = dl.note() + 'the Procedure object is shared by all histories of a wiring (reset after a finding); visited nodes must be the objects of the tree being processed (query object identity and token text), not merely equal by path'
	return res


def search_nested_catch(ctx: Ctx) -> SearchResult:
	"""The hazard of failed_nested_counterexample needs a caller that catches the exception of a nested exec on the same
	Procedure. Static scan of tranp for `try` bodies that (lexically) start such a run; replay of the witness on the real code."""
	res = SearchResult('callers that catch a nested Procedure.exec failure (static scan) + replay of the model witness')
	hist: Counter[str] = Counter()
	nested_calls = {'exec', 'transpile', 'type_of', 'resolve_procedural'}
	hits = []
	for f in common.repo_py_files('rogw/tranp/semantics', 'rogw/tranp/implements', 'rogw/tranp/view', 'rogw/tranp/transpiler'):
		try:
			with open(f, encoding='utf-8') as fh:
				tree = ast.parse(fh.read())
		except SyntaxError:
			continue
		res.cases += 1
		for node in ast.walk(tree):
			if isinstance(node, ast.Try):
				hist['try statements'] += 1
				for sub in itertools.chain.from_iterable(ast.walk(s) for s in node.body):
					if isinstance(sub, ast.Call) and isinstance(sub.func, ast.Attribute) and sub.func.attr in nested_calls:
						swallow = any(not any(isinstance(x, ast.Raise) for x in ast.walk(h)) for h in node.handlers)
						if swallow:
							hits.append(f'{os.path.relpath(f, common.REPO)}:{node.lineno} {sub.func.attr}')
	hist['try bodies starting a nested run and swallowing'] = len(hits)
	# replay of the Lean witness (Props/C09.lean failed_nested_counterexample) on the real Procedure
	specs = [s for s in load_corpus() if s['kind'].endswith('caught-nested-failure')]
	for spec in specs:
		_, lines, real = run_synth_case(spec)
		out = [r for ln, r in zip(lines, real) if ln.startswith('exec')]
		hist[f'witness on real code: {out[-1] if out else "?"}'] += 1
		res.cases += 1
	for h in hits:
		ctx.notes.append(f'nested-run failure is swallowed at {h}: a failing nested exec would leave a stale frame under the outer run (hazard, see failed_nested_counterexample)')
	res.distinct = res.cases
	res.histogram = dict(hist)
	res.note = 'informational: exec has no try/finally (procedure.py:67-70); no caller in tranp catches a nested failure, so the property sentence about nested processing is not violated by tranp\'s own handlers'
	return res


# ---------------------------------------------------------------------------------------------


STATEMENTS = {
	'event': 'for every WF tree, handler table, budget and initial stacks: when a visited node n is processed the frame is (results of n\'s own property nodes) ++ fr\', __make_event returns exactly the reference kwargs dict (single vs list, order, dict semantics for a repeated key) and leaves fr\'',
	'final': 'exec of a WF tree returns exactly the reference result (value or exception) and on success restores the stack-of-stacks, from any initial stacks',
	'final_frame': 'the frame at __result is [result root]',
	'no_leak': 'the event of n is the same wherever n sits (other roots, siblings, stacks); only its own results leave the frame',
	'nested': 'for every tree (WF or not): an exec that returns leaves the stack-of-stacks as found, if handlers do not catch nested failures',
	'wf_necessary': 'GENERAL necessity: for every key-consistent tree with a visited non-WF node there is a handler table (returning handlers + at most one nesting handler, none catching) on which exec differs from the reference, for every budget >= 2 and every initial stacks; so WF is exactly the obligation. WF was weakened to what is necessary: terminals may declare properties that yield empty lists; a repeated key is allowed when its value is an empty list',
	'failed_run_leaves_frame': 'a failing exec leaves its frame behind (no finally)',
	'failed_nested_counterexample': 'NOT failed_nested_statement: with a handler that catches a nested failure the outer run is corrupted (witness replayed on the real code)',
	'exec_result_independent_of_stacks': 'for EVERY tree (WF or not) and every handler table that does not catch nested failures: the result of exec (value or exception) is the same from every stack-of-stacks',
	'exec_history_independent': 'after ANY history of calls on one instance (on / off incl. failing ones / clear_handler / exec on arbitrary trees, succeeding or raising) exec answers exactly like a fresh instance that has seen only the registrations',
	'exec_history_reference': '... and on a WF tree that answer is the reference result for the registered handlers',
	'instance_state_is_modelled': 'GENERATED from procedure.py on every run: the attributes of a Procedure instance and the methods writing them are exactly the model state (stacks: __init__/exec/__result/__run_action/__stack_pop; emitter: __init__/on/off/clear_handler; __verbose constructor only), no class-level state, list lengths re-read from the node at event time, root flattened on every exec; 37 modelled functions (procedure.py, node.py, middleware.py, embed.py) pinned to their audited text — a new attribute / another source / an edited modelled function is a TranslateError (broken tie)',
	'shipped_names_distinct / shipped_prop_keys_history_independent': 'GENERATED table of the 126 node classes (definition/*.py read by ast on every run: names, metadata paths, C3 MROs, expandable getters): no class shares its name with a base, hence prop_keys() of the shipped classes is history-independent outright (decide +kernel)',
	'shipped_keys_nodup / shipped_terminals_declare_nothing / shipped_wf_reduces': 'no shipped class repeats an expandable key, ITerminal classes declare none; so for trees of shipped classes KeyConsistent and WF clauses 1 and 3 hold by the table and WF reduces to clause 2 (under) and clause 4 (annotation = shape), the two checked on every exported tree',
	'shipped_getters_cover / shipped_annotation_matches_body': 'GENERATED from the BODIES of the expandable getters on every run (translate/gen_getter_shapes.py: shape inference over the AST, helper shapes read from the annotations in node.py, anything unknown is a TranslateError): the table covers exactly prop_keys() of every shipped class, and for all 165 (class, key) pairs the definition getattr(cls, key) resolves to is annotated list[...] exactly when every return of its body yields a list (decide +kernel) — WF clause 4 for the shipped definitions without waiting for a tree that exhibits it',
	'shipped_clause2_only_all_list': 'a shipped-shaped node whose properties yield nothing belongs to a class whose getters ALL return lists (one node-shaped getter makes the expansion non-empty): WF clause 2 is vacuous outside those classes (Entrypoint, List, Dict, Tuple, Block, ...; the stream getter-shapes lists them and which were met childless)',
	'shipped_wf_reduces_to_under (shippedShaped_key_row, shippedShaped_instance, shippedShaped_clause4)': 'for trees of shipped classes whose property values have the shape of the getter bodies (ShippedShaped: compared with the running code by stream getter-shapes) WF reduces to clause 2 alone (nothing under a node whose properties yield nothing)',
	'chain_semantics': 'Middleware chaining is in the model: the newest callback of an action runs; a plain one shadows the rest, one declaring `next` receives the rest of the chain on the same event (HProg.bind), past the end IndexError -> Errors.Fatal; runProg and denoteProg treat bind alike, so all theorems cover chained registrations',
	'prop_keys_history_independent(_from)': 'Node.prop_keys over any class table whose MROs have pairwise distinct class names: for every order/repetition of calls each answer is the cache-free MRO computation (invariant: cache subset of the graph of the pure function)',
	'prop_keys_fixed_key_counterexample': 'NOT prop_keys_fixed_key_statement: with the attribute name not carrying the class name (the seeded mutation) a subclass asked after its base answers with the base\'s list',
	'prop_keys_same_name_counterexample': 'NOT prop_keys_any_names_statement: on the code as it is, a subclass sharing __name__ with a base inherits the base\'s cached answer (latent; no tranp node class does; real code agrees with the model on such synthetic tables)',
	'under_empty_iff / under_clause_iff': '_under_expand() = C10 expandPaths resolved to nodes is empty iff the entry is quiet (no child, or only unresolvable tree entries within 3 levels); so WF clause 2 can fail only for a non-ITerminal class whose properties yield nothing on a non-quiet entry',
}


def node_classes_vs_import(tab: dict[str, Any]) -> list[str]:
	"""The table the translator reads from the AST of definition/*.py against the imported classes (`__mro__`, embed metadata,
	`ITerminal`): the Lean theorems `shipped_*` speak about the former, the running code uses the latter."""
	from rogw.tranp.syntax.node.behavior import ITerminal
	from rogw.tranp.syntax.node.embed import EmbedKeys, Meta
	from rogw.tranp.syntax.node.node import Node
	real = {c.__name__: c for c in definition_classes() if c.__module__.startswith('rogw.')}
	gen = {r['name']: r for r in tab['rows']}
	out = [f'class {n} only in the {"import" if n in real else "generated table"}' for n in sorted(set(real) ^ set(gen))]
	for n, c in real.items():
		r = gen.get(n)
		if r is None:
			continue
		mro = [b.__name__ for b in c.__mro__ if b.__name__ in real and real[b.__name__] is b]
		keys = list(Meta.dig_for_method(Node, c, EmbedKeys.Expandable, value_type=bool).keys())
		lists = [k for k in keys if getattr(getattr(c, k).fget.__annotations__.get('return'), '__origin__', None) is list]
		if mro != r['mro_names']:
			out.append(f'{n}: __mro__ {mro} vs generated {r["mro_names"]}')
		if keys != [k for k, _ in r['keys']]:
			out.append(f'{n}: expandable {keys} vs generated {[k for k, _ in r["keys"]]}')
		if lists != [k for k, a in r['keys'] if a]:
			out.append(f'{n}: list-annotated {lists} vs generated {[k for k, a in r["keys"] if a]}')
		if r['path'] != f'{c.__module__}.{c.__name__}' or issubclass(c, ITerminal) != r['terminal']:
			out.append(f'{n}: path / ITerminal differ')
	return out


def stream_getter_shapes(rows: list[dict[str, Any]]) -> Stream:
	"""Generated/GetterShapes.lean (what `shipped_annotation_matches_body` / `ShippedShaped` speak about) against the running
	code: per class id the name, the keys in prop_keys() order (read from the embed metadata, not through the prop_keys
	cache) with the annotation flag as `Procedure.__is_prop_list_by` reads it from the imported class, and for every
	(class, key) whose value the harness read on a real node during this run the run-time shape(s) observed."""
	from rogw.tranp.syntax.node.node import Node
	real = {c.__name__: c for c in definition_classes() if c.__module__.startswith('rogw.')}
	real['Node'] = Node
	cases = []
	for i, r in enumerate(rows):
		c = real.get(r['name'])
		ops = [f'gs.name\t{i}', f'gs.row\t{i}']
		if c is None:
			outs = ['class not importable', '?']
		else:
			try:
				outs = [c.__name__, ','.join(f"{k}:{'L' if getattr(getattr(c, k).fget.__annotations__['return'], '__origin__', None) is list else 'O'}" for k in declared_props(c)) or '-']
			except Exception as e:  # noqa: BLE001
				outs = [c.__name__, 'raised ' + canon_exc(e)]
		seen = 0
		for e in r['entries']:
			obs = SHAPE_SEEN.get((i, e['key']))
			if obs:
				seen += 1
				ops.append(f"gs.shape\t{i}\t{hx(e['key'])}")
				outs.append('/'.join(sorted(obs)))
		for (ci, k), obs in SHAPE_SEEN.items():
			if ci == i and all(e['key'] != k for e in r['entries']):
				ops.append(f'gs.shape\t{i}\t{hx(k)}')  # a key the running class has and the generated row lacks: the model answers bad-op
				outs.append('/'.join(sorted(obs)))
		cases.append(({'cls': r['name'], 'keys': len(r['entries']), 'seen': seen}, ops, outs))
	st = common.correspond('getter-shapes', cases, 'proc', classify=lambda d: 'no expandable key' if not d['keys'] else
		'every key observed on real nodes' if d['seen'] == d['keys'] else 'some keys observed' if d['seen'] else 'class not met in this run (static row only)')
	total = sum(len(r['entries']) for r in rows)
	cand = [i for i, r in enumerate(rows) if r['entries'] and all(e['bodyList'] for e in r['entries'])]
	st.histogram['clause-2 candidate classes (every getter list-shaped, shipped_clause2_only_all_list)'] = len(cand)
	st.histogram['clause-2 candidate classes met with every property empty'] = len([i for i in cand if i in CHILDLESS_SEEN])
	stray = sorted(rows[i]['name'] for i in CHILDLESS_SEEN if i not in cand)
	if stray:
		st.disagreements.append({'case': 'childless instance of a class outside the all-list rows', 'op': '-', 'real': ','.join(stray), 'model': 'shipped_clause2_only_all_list excludes it'})
	st.samples.append({'clause2_candidates': [rows[i]['name'] for i in cand], 'met_childless': sorted(rows[i]['name'] for i in cand if i in CHILDLESS_SEEN)})
	st.note = (f'{len(SHAPE_SEEN)} of {total} (class, key) pairs met on real nodes in this run (every property read of the exports and the property walks is recorded); '
		'an unobserved pair is covered by the static row (keys + annotation flag vs the imported class) only'
		+ '; classes with keys not met: ' + (', '.join(sorted(r['name'] for i, r in enumerate(rows) if r['entries'] and not any((i, e['key']) in SHAPE_SEEN for e in r['entries']))) or 'none')
		+ '; clause-2 candidates met childless: ' + (', '.join(sorted(rows[i]['name'] for i in cand if i in CHILDLESS_SEEN)) or 'none'))
	return st


def guarded_stream(name: str, fn: Any) -> Any:
	"""A stream function that raises (real code or harness) yields a broken stream, not exit 2."""
	try:
		return fn()
	except common.InfraError:
		raise
	except Exception as e:  # noqa: BLE001
		st = Stream(name, cases=1)
		st.disagreements.append({'case': 'stream raised', 'op': '-', 'real': f'{canon_exc(e)}: {tb_tail(e)}', 'model': '-'})
		return st


def guarded_search(name: str, fn: Any) -> SearchResult:
	try:
		return fn()
	except common.InfraError:
		raise
	except Exception as e:  # noqa: BLE001
		import traceback
		res = SearchResult(name, cases=1)
		res.findings.append(Finding(key=f'search-raised:{name}:{canon_exc(e)}', what=f'{canon_exc(e)} escaped while running the oracle: {tb_tail(e)}',
			replay={'traceback': traceback.format_exc()[-3000:]}))
		return res


def run(ctx: Ctx) -> int:
	translate_ok, translate_msg = True, ''
	shape_rows: list[dict[str, Any]] = []
	with ctx.timed('translate'):
		try:
			from translate import gen_getter_shapes, gen_node_classes, gen_procedure_state
			ctx.generated_tables.extend(gen_procedure_state.generate())
			ctx.generated_tables.extend(gen_node_classes.generate())
			ctx.generated_tables.extend(gen_getter_shapes.generate())
			shape_rows.extend(gen_getter_shapes.shape_table())
			SHAPE_CLASSES.update({r['name']: i for i, r in enumerate(shape_rows)})
			mismatch = node_classes_vs_import(gen_node_classes.class_table())
			if mismatch:
				raise ValueError(f'generated node-class table differs from the imported classes: {mismatch[:3]}')
		except Exception as e:  # noqa: BLE001 - TranslateError: the tie between source and model is broken
			translate_ok, translate_msg = False, f'{type(e).__name__}: {e}'
	proof = common.prove(ctx, PROP, leanchecker=ctx.thorough)
	Deadline.origin = time.time()
	with ctx.timed('search_prop_keys_history'):
		# fresh processes; also yields the real class table and the real prop_keys() answers for the propkeys-real stream
		s3 = guarded_search('prop-keys-history', lambda: search_prop_keys_history(ctx))
	real_descs: list[dict[str, Any]] = []
	gen_descs: list[dict[str, Any]] = []

	def _real() -> Stream:
		st, d = stream_real(ctx)
		real_descs.extend(d)
		return st

	def _gen() -> Stream:
		st, d = stream_generated(ctx)
		gen_descs.extend(d)
		return st

	def _pk() -> Stream:
		st = common.correspond('propkeys-real', PK_REAL_CASES, 'proc', classify=lambda d: f"order {d['order']}")
		st.note = 'real class table (every node class + Node: name, metadata path, MRO, expandable names) and real prop_keys() answers under several call orders, each in a fresh process, vs Model/PropKeys.query; pk.pure vs metadata read'
		return st
	with ctx.timed('correspondence'):
		streams = [guarded_stream('proc-corpus', lambda: stream_corpus(ctx)), guarded_stream('proc-synth', lambda: stream_synth(ctx, False)),
			guarded_stream('proc-malformed', lambda: stream_synth(ctx, True)), guarded_stream('proc-real', _real), guarded_stream('proc-generated', _gen),
			guarded_stream('propkeys-synth', lambda: stream_propkeys_synth(ctx)), guarded_stream('propkeys-real', _pk),
			guarded_stream('proc-history', lambda: stream_history(ctx))]
	with ctx.timed('search'):
		with ctx.timed('search_identity'):
			s1 = guarded_search('identity', lambda: search_identity(ctx, real_descs, gen_descs))
		with ctx.timed('search_semantic'):
			s2 = guarded_search('semantic', lambda: search_semantic(ctx))
		with ctx.timed('search_reparse'):
			s4 = guarded_search('reparse', lambda: search_reparse(ctx))
		searches = [s1, s2, s3, s4, guarded_search('nested-catch', lambda: search_nested_catch(ctx))]
	with ctx.timed('getter_shapes'):
		# last: it reports the shapes met by all streams and searches above
		streams.append(guarded_stream('getter-shapes', lambda: stream_getter_shapes(shape_rows)))
	return common.finish(ctx, proof, streams, searches,
		translate_ok=translate_ok, translate_msg=translate_msg,
		statements=STATEMENTS,
		partial={
			'proved': 'event alignment, single/list distinction, order, no leak between siblings, exactly one final result, stacks restored, nested runs isolated — for every tree satisfying WF and every handler program that does not catch nested failures',
			'correspondence_only': 'that real node trees satisfy WF clause 2 (checked on every exported tree; clauses 1, 3 by the generated class table, clause 4 by the generated getter-shape table whose inferred shapes are compared with the run-time shapes of every property value read in this run); that property getters are stable between the two reads',
			'false_on_current_code': 'failed_nested_statement (handler catching a nested failure) — no such handler exists in tranp',
			'checked_on_real_trees': 'under_empty_iff against the real Nodes.expand on every real node whose properties yield nothing; which classes have a non-empty _under_expand() there (all ITerminal, so never consulted)',
		},
		assumptions=[
			'property getters are pure between procedural() and __make_event (checked: two reads compared on every exported node)',
			'KeyConsistent (hypothesis of wf_necessary): discharged for trees of the shipped node classes by shipped_wf_reduces (generated class table); for other trees: getattr(node, key) is a function of the key',
			'NamesDistinctOnMro: discharged for the shipped classes (shipped_names_distinct); the generated table is compared with the imported classes on every run',
			'handlers touch the procedure only through exec (stacks are name-mangled private state)',
			'a handler that declares `next` does not catch the exception of next() (HProg has no catch for it); no tranp handler declares `next` at all (counted by the translator)',
			'Python recursion limit is not reached (model: nesting budget)',
			'ShippedShaped: the run-time shape of a property value is the shape inferred from the getter body (the inference trusts the list/one annotations of the non-expandable helpers it meets: _children, _at, _by, as_a, block, sub_types, ...); compared on every property value read in the run (stream getter-shapes reports how many of the 165 pairs were met)',
		],
		trusted=['the 2.6k lines of node definitions enter as exported trees, not as model'])


def replay(ctx: Ctx, path: str) -> int:
	with open(path, encoding='utf-8') as f:
		rec = json.load(f)
	print(json.dumps(rec, indent=1)[:4000])
	inp = rec.get('input') or {}
	if rec.get('kind') == 'failing-input' and (inp.get('source') or inp.get('versions')):
		app = common.MemApp(ctx.tmpdir())
		if inp.get('mode') == 'reparse' and inp.get('versions'):
			load = (lambda x: app.entrypoint(x)) if inp.get('wiring') == 'entrypoints' else (lambda x: app.module(x).entrypoint)
			run_ = IdentityRun()
			ep = None
			for h in inp['history']:
				if h.get('source') is None:
					print('replay: step on a real module skipped (source not recorded):', h['module'])
					continue
				if h['parse'] or ep is None:
					ep = load(h['source'])
				q = tree_of(ep)
				print('replay:', h['module'], 'version', h['version'], 'root', h['root'], '->', run_.check(q.by(h['root'])))
		elif inp.get('mode') == 'prop-keys-history':
			out = run_worker({'mode': inp['order_mode'], 'seed': inp['order_seed'], 'sources': [[inp['source_name'], inp['source']]], 'must_hold': {inp['source_name']: True}})
			print('replay: fresh process, prop_keys() queried in the recorded order, then the identity oracle ->', json.dumps(out['findings'], default=str)[:1500])
		elif inp.get('mode') == 'semantic':
			from rogw.tranp.semantics.reflections import Reflections
			ep = app.module(inp['source']).entrypoint
			print('replay: identity + Reflections.type_of oracle on the recorded source ->', SemanticRun(app.resolve(Reflections), Counter()).check(ep))
		else:
			ep = load_entrypoint(app, inp['source'])
			if ep is not None:
				print(f"replay: identity oracle on the recorded source, handler layout {inp.get('layout', 'fallback')}, results {inp.get('values', 'identity')} ->", IdentityRun(inp.get('layout', 'fallback'), int(inp.get('salt', 0)), inp.get('values', 'identity')).check(ep))
	ctx2 = Ctx(PROP, rec.get('tier', 'quick'), int(rec.get('seed', 0)))
	return run(ctx2)
