"""C01 pipeline: real tranp transpile -> generated C++ driver -> g++ -std=c++20 -> run -> compare with CPython.

No model is involved here (DESIGN.md §2.4): the oracle is g++ for the emitted text and CPython for the source.

A *program* is a dict (JSON-able, this is also the replay/corpus format):
	{'source': <python text>,
	 'entries': [{'fn': 'f0', 'params': ['int', 'bool', 'str', 'float'], 'ret': 'int', 'args': [[1, True, 'ab', 0.5], ...]}],
	 'classes': {'P': ['x', 'y']}}          # public fields printed for returned objects

Soundness (CONVENTIONS rule 1): the CPython side runs an *instrumented* copy of the source (`instrument`) which checks,
operation by operation, the agreement conditions of the property statement (32-bit ints, non-negative modulo, no int/int
true division, indices in range, keys present, booleans under and/or/not, explicit raises only). A call that leaves the
subset is *discarded* (status 'out'), never reported. So a finding is always: in-subset source, C++ text observably different.
"""
from __future__ import annotations

import ast
import itertools
import os
import signal
import struct
import subprocess
from concurrent.futures import ThreadPoolExecutor
from typing import Any

from harness import common

INT_MIN, INT_MAX = -(2 ** 31), 2 ** 31 - 1
JOBS = 16

PRELUDE = r'''// prelude of the C01 driver (harness/cxx.py): standard headers the emitted text relies on + canonical printers
#include <algorithm>
#include <cmath>
#include <cstdio>
#include <cstdlib>
#include <functional>
#include <iostream>
#include <map>
#include <memory>
#include <stdexcept>
#include <string>
#include <tuple>
#include <vector>
#if __has_include(<format>)
#include <format>
#else
// g++ 12 has no <format>; tranp emits std::format only for exception messages, whose text is never observed
namespace std { template <class... A> inline std::string format(const char* f, A&&...) { return std::string(f); } }
#endif
namespace vf {
inline void show(std::ostream& o, bool v) { o << (v ? "True" : "False"); }
inline void show(std::ostream& o, int v) { o << v; }
inline void show(std::ostream& o, long v) { o << v; }
inline void show(std::ostream& o, long long v) { o << v; }
inline void show(std::ostream& o, double v) { char b[64]; if (v == 0) v = 0; std::snprintf(b, sizeof b, "%.17gf", v); o << b; }  // the sign of a zero is not compared: g++ 12 folds `0.0f - (float)i` to `-(float)i` (-0 for i == 0; clang and IEEE give +0)
inline void show(std::ostream& o, float v) { show(o, (double)v); }
inline void show(std::ostream& o, const std::string& s) {
	static const char* hex = "0123456789abcdef";
	o << '"';
	for (unsigned char c : s) { if (c >= 32 && c < 127 && c != '"' && c != '\\') o << c; else o << "\\x" << hex[c >> 4] << hex[c & 15]; }
	o << '"';
}
inline void show(std::ostream& o, const char* s) { show(o, std::string(s)); }
template <class T> void show(std::ostream& o, const std::vector<T>& v);
template <class K, class V> void show(std::ostream& o, const std::map<K, V>& m);
template <class... T> void show(std::ostream& o, const std::tuple<T...>& t);
template <class T> void show(std::ostream& o, const std::vector<T>& v) {
	o << '[';
	for (size_t i = 0; i < v.size(); i++) { if (i) o << ','; T e = v[i]; show(o, e); }
	o << ']';
}
template <class K, class V> void show(std::ostream& o, const std::map<K, V>& m) {
	o << '{'; bool first = true;
	for (auto& kv : m) { if (!first) o << ','; first = false; show(o, kv.first); o << ':'; show(o, kv.second); }
	o << '}';
}
template <class... T> void show(std::ostream& o, const std::tuple<T...>& t) {
	o << '('; bool first = true;
	std::apply([&](auto const&... e) { ((o << (first ? "" : ","), first = false, show(o, e)), ...); }, t);
	o << ')';
}
}
'''


# ---------------------------------------------------------------------------------------------
# real tranp


def py2cpp_definitions() -> dict[str, Any]:
	"""The DI definitions of tests/unit/.../test_py2cpp.py (= production wiring of bin/transpile.py with example/config.yml)."""
	from rogw.tranp.app.dir import tranp_dir
	from rogw.tranp.app.dummy import make_dummy_module_meta_factory
	from rogw.tranp.data.meta.types import ModuleMetaFactory
	from rogw.tranp.i18n.i18n import I18n, TranslationMapping
	from rogw.tranp.implements.cpp.providers.i18n import translation_mapping_cpp
	from rogw.tranp.implements.cpp.providers.view import renderer_helper_provider_cpp
	from rogw.tranp.implements.cpp.transpiler.py2cpp import Py2Cpp
	from rogw.tranp.lang.middleware import Middleware
	from rogw.tranp.lang.module import to_fullyname
	from rogw.tranp.transpiler.types import TranspilerOptions
	from rogw.tranp.view.render import Renderer, RendererEmitter, RendererHelperProvider, RendererSetting

	def make_renderer_setting(i18n: I18n, emitter: RendererEmitter) -> RendererSetting:
		template_dirs = [os.path.join(tranp_dir(), 'data/cpp/template')]
		env = {'immutable_param_types': ['std::string', 'std::vector', 'std::map', 'std::function']}
		return RendererSetting(template_dirs, i18n.t, emitter, env)

	# tranp's DI reads real annotation objects (this module uses postponed annotations)
	make_renderer_setting.__annotations__ = {'i18n': I18n, 'emitter': RendererEmitter, 'return': RendererSetting}

	return {
		to_fullyname(Py2Cpp): Py2Cpp,
		to_fullyname(Renderer): Renderer,
		to_fullyname(RendererEmitter): Middleware,
		to_fullyname(RendererHelperProvider): renderer_helper_provider_cpp,
		to_fullyname(RendererSetting): make_renderer_setting,
		to_fullyname(TranslationMapping): translation_mapping_cpp,
		to_fullyname(TranspilerOptions): lambda: TranspilerOptions(verbose=False, env={}),
		to_fullyname(ModuleMetaFactory): make_dummy_module_meta_factory,
	}


class Transpiler:
	"""Real Py2Cpp behind a real App; in-memory `__main__` source, private cache dir."""

	def __init__(self, cache_dir: str) -> None:
		from rogw.tranp.implements.cpp.transpiler.py2cpp import Py2Cpp
		self.app = common.MemApp(cache_dir, extra=py2cpp_definitions())
		self.py2cpp = self.app.resolve(Py2Cpp)

	def transpile(self, source: str) -> str:
		with budget(REAL_CALL_BUDGET, 'transpile'):
			return self.py2cpp.transpile(self.app.module(source).entrypoint)


REAL_CALL_BUDGET = 30.0   # CPU seconds for one call into the real code (parse + transpile of one small module takes well under a second)


class BudgetExceeded(Exception):
	"""a call into the real code ran out of its per-case budget: reported like any other exception of the real code (a finding /
	a disagreement), never a hang of the harness"""


class budget:
	"""per-case CPU-time budget for a call into the real code (ITIMER_PROF / SIGPROF: independent of the load of the machine; a no-op outside the main thread, where the caller's own
	subprocess / future timeouts apply)"""

	def __init__(self, seconds: float, what: str) -> None:
		self.seconds, self.what, self.armed = seconds, what, False

	def __enter__(self) -> 'budget':
		import threading
		if threading.current_thread() is threading.main_thread():
			def on_alarm(*_: Any) -> None:
				raise BudgetExceeded(f'{self.what}: no result within {self.seconds:.0f} s of CPU time')
			self.old = signal.signal(signal.SIGPROF, on_alarm)
			signal.setitimer(signal.ITIMER_PROF, self.seconds)
			self.armed = True
		return self

	def __exit__(self, *exc: Any) -> None:
		if self.armed:
			signal.setitimer(signal.ITIMER_PROF, 0)
			signal.signal(signal.SIGPROF, self.old)


def run_cmd(args: list[str], timeout: float, cwd: str | None = None) -> tuple[int, str, str]:
	"""subprocess.run that never raises on a timeout: (-9, '', 'timeout …')"""
	try:
		p = subprocess.run(args, capture_output=True, text=True, timeout=timeout, cwd=cwd, errors='replace')
		return p.returncode, p.stdout, p.stderr
	except subprocess.TimeoutExpired:
		return -9, '', f'timeout after {timeout:.0f} s: {args[0]}'


def run_limited(args: list[str], cpu_s: int, wall_s: float, cwd: str | None = None, mem_kb: int = 0) -> tuple[int, str, str, str]:
	"""run a compiled program under a CPU-time limit (`ulimit -S -t`: independent of the load of the machine) and a generous wall
	limit. -> (returncode, stdout, stderr, '' | 'cpu-limit' | 'wall-timeout'). Only `cpu-limit` says something about the program
	(it does not terminate); `wall-timeout` says the machine did not give it `cpu_s` seconds of CPU within `wall_s` seconds:
	callers skip and count such a run, they never report it."""
	# (a shell without one of the limits still runs the program: then only the wall limit bounds it, and a wall timeout is never a verdict)
	mem = f'ulimit -S -v {int(mem_kb)} 2>/dev/null; ' if mem_kb else ''   # an endless loop that allocates ends in std::bad_alloc, not in the OOM killer
	cmd = ['sh', '-c', f'{mem}ulimit -S -t {int(cpu_s)} 2>/dev/null; exec "$@"', 'sh', *args]
	try:
		p = subprocess.run(cmd, capture_output=True, text=True, timeout=wall_s, cwd=cwd, errors='replace')
	except subprocess.TimeoutExpired as e:
		out = (e.stdout or b'').decode('utf-8', 'replace') if isinstance(e.stdout, (bytes, bytearray)) else (e.stdout or '')
		return -9, out, '', 'wall-timeout'
	if p.returncode == -signal.SIGXCPU:
		return p.returncode, p.stdout, p.stderr, 'cpu-limit'
	return p.returncode, p.stdout, p.stderr, ''


# ---------------------------------------------------------------------------------------------
# CPython side: instrumented execution = subset membership + reference result


class OutOfSubset(BaseException):
	"""The evaluation left the agreement subset of the property statement (the call is discarded, not reported)."""


def _is_int(v: Any) -> bool:
	return type(v) is int


def _chk_int(v: Any) -> Any:
	if _is_int(v) and not (INT_MIN <= v <= INT_MAX):
		raise OutOfSubset(f'int out of 32 bits: {v}')
	if type(v) is float and (v != v or abs(v) >= 2.0 ** 24 or struct.unpack('f', struct.pack('f', v))[0] != v):
		# floats: tranp maps float -> C++ float (binary32); the domain is the values exactly representable there, so every
		# operation whose exact result is representable is computed identically by both sides
		raise OutOfSubset(f'float not exactly representable in binary32: {v}')
	return v


def _vf_bin(op: str, l: Any, r: Any) -> Any:
	tl, tr = type(l), type(r)
	if tl is bool or tr is bool:
		if not (tl is bool and tr is bool and op in ('BitAnd', 'BitOr')):
			raise OutOfSubset(f'arithmetic on bool: {op}')
		return (l & r) if op == 'BitAnd' else (l | r)
	if tl is str or tr is str:
		if op == 'Add' and tl is str and tr is str:
			return l + r
		if op == 'Mult' and tl is str and tr is int and 0 <= r <= 8:
			return l * r
		raise OutOfSubset(f'str operator {op}')
	if tl is list or tr is list:
		# the list fill `[v] * n` (proc_binary_operation_fill_list: `std::vector<T>(n, v)`), a non-negative bounded count
		if op == 'Mult' and tl is list and len(l) == 1 and tr is int and 0 <= r <= 64:
			return l * r
		raise OutOfSubset(f'list operator {op}')
	if tl not in (int, float) or tr not in (int, float):
		raise OutOfSubset(f'operator {op} on {tl.__name__}/{tr.__name__}')
	if op == 'Div':
		if tl is int and tr is int:
			raise OutOfSubset('int / int')
		if r == 0:
			raise OutOfSubset('division by zero')
		return _chk_int(l / r)
	if op == 'Mod':
		if l < 0 or r <= 0:
			raise OutOfSubset('modulo on negative operand / non-positive divisor')
		return _chk_int(l % r)
	if op in ('LShift', 'RShift', 'BitAnd', 'BitOr', 'BitXor'):
		if tl is not int or tr is not int:
			raise OutOfSubset(f'{op} on float')
		if op in ('LShift', 'RShift'):
			if not (0 <= r <= 31):
				raise OutOfSubset('shift count')
			return _chk_int(l << r if op == 'LShift' else l >> r)
		return _chk_int(l & r if op == 'BitAnd' else l | r if op == 'BitOr' else l ^ r)
	if op == 'Add':
		return _chk_int(l + r)
	if op == 'Sub':
		return _chk_int(l - r)
	if op == 'Mult':
		return _chk_int(l * r)
	raise OutOfSubset(f'operator {op}')


def _vf_un(op: str, v: Any) -> Any:
	if type(v) is bool and op in ('USub', 'UAdd', 'Invert'):
		# -True / +True / ~True: Python promotes the bool to int, and so does C++ (integral promotion of the operand): same value, an int
		v = int(v)
	return _vf_un_strict(op, v)


def _vf_un_strict(op: str, v: Any) -> Any:
	"""unary arithmetic on ints / floats only (what the Lean model `pyEval` claims: stream sem)"""
	if type(v) not in (int, float):
		raise OutOfSubset(f'unary {op} on {type(v).__name__}')
	if op == 'USub':
		return _chk_int(-v)
	if op == 'UAdd':
		return v
	if op == 'Invert':
		if type(v) is not int:
			raise OutOfSubset('~ on float')
		return _chk_int(~v)
	raise OutOfSubset(op)


def _vf_b(v: Any) -> bool:
	if type(v) is not bool:
		raise OutOfSubset(f'and/or/not/condition on {type(v).__name__}')
	return v


def _vf_nb(v: Any) -> Any:
	"""operand of `not` / test of if, while, conditional expression: Python's truth value of an int is C++'s (`!x`, `if (x)`: non-zero),
	so ints are inside the agreement subset there (and/or stay strict: they return the operand, C++ returns a bool)"""
	if type(v) not in (bool, int):
		raise OutOfSubset(f'not/condition on {type(v).__name__}')
	return v


def _vf_idx(c: Any, k: Any) -> Any:
	if type(c) in (list, str, tuple):
		# negative indices are ordinary Python; tranp emits them verbatim (C++: out of bounds) — generated only by the probe programs
		if type(k) is not int or not (-len(c) <= k < len(c)):
			raise OutOfSubset('index out of range')
		return c[k]
	if type(c) is dict:
		if k not in c:
			raise OutOfSubset('missing key')
		return c[k]
	raise OutOfSubset(f'index on {type(c).__name__}')


def _vf_slice(c: Any, lo: Any, hi: Any) -> Any:
	if type(c) not in (list, str) or type(lo) is not int or type(hi) is not int or not (0 <= lo <= hi <= len(c)):
		raise OutOfSubset('slice bounds')
	return c[lo:hi]


def _vf_store(c: Any, k: Any) -> None:
	if type(c) is list and (type(k) is not int or not (0 <= k < len(c))):
		raise OutOfSubset('store index out of range')


def _vf_cmp(v: Any) -> Any:
	"""operand of a comparison: same-kind scalars / strings only"""
	if type(v) not in (int, float, bool, str):
		import enum
		if not isinstance(v, enum.Enum):
			raise OutOfSubset(f'comparison on {type(v).__name__}')
	return v


def _vf_call(obj: Any, name: str, *args: Any) -> Any:
	t = type(obj)
	if t is list:
		if name == 'pop':
			if not obj or (args and not (type(args[0]) is int and 0 <= args[0] < len(obj))):
				raise OutOfSubset('pop on empty list / bad index')
		elif name == 'insert':
			if not (type(args[0]) is int and 0 <= args[0] <= len(obj)):
				raise OutOfSubset('insert index')
		elif name in ('remove', 'index'):
			if args[0] not in obj:
				raise OutOfSubset(f'list.{name} of a missing element')
		elif name not in ('append', 'extend', 'clear', 'copy', 'sort', 'reverse'):
			raise OutOfSubset(f'list.{name}')
	elif t is dict:
		if name == 'pop':
			if args[0] not in obj:
				raise OutOfSubset('dict.pop of a missing key')
		elif name == 'get':
			if len(args) != 2:
				raise OutOfSubset('dict.get without default')
		elif name not in ('clear', 'copy', 'keys', 'values', 'items', 'update'):
			raise OutOfSubset(f'dict.{name}')
	elif t is str:
		if name not in ('startswith', 'endswith', 'find', 'count', 'split', 'upper', 'lower', 'replace', 'strip', 'join'):
			raise OutOfSubset(f'str.{name}')
	return getattr(obj, name)(*args)


def _vf_fn(name: str, *args: Any) -> Any:
	if name == 'abs':
		return _chk_int(abs(_num(args[0])))
	if name in ('min', 'max'):
		if len(args) != 2 or type(args[0]) is not type(args[1]):
			raise OutOfSubset(f'{name} arity/types')
		return (min if name == 'min' else max)(_num(args[0]), _num(args[1]))
	if name == 'int':
		v = args[0]
		if type(v) is str:
			if not (v.isascii() and v.isdigit() and len(v) <= 9):
				raise OutOfSubset('int(str) on a non-digit string')
			return int(v)
		return _chk_int(int(_num(v)))
	if name == 'float':
		return _chk_int(float(_num(args[0])))
	if name == 'str':
		if type(args[0]) not in (int, str):
			raise OutOfSubset('str() of a non-int')
		return str(args[0])
	if name == 'len':
		return len(args[0])
	if name == 'range':
		# range(stop) / range(begin, stop) / range(begin, stop, step) with a positive step: `for (auto i = begin; i < stop; i += step)`
		if not 1 <= len(args) <= 3 or any(type(a) is not int for a in args) or (len(args) == 3 and args[2] < 1):
			raise OutOfSubset('range arity / non-positive step')
		return range(*args)
	if name == 'enumerate':
		return enumerate(args[0])
	raise OutOfSubset(f'builtin {name}')


def _num(v: Any) -> Any:
	if type(v) not in (int, float):
		raise OutOfSubset(f'numeric builtin on {type(v).__name__}')
	return v


_BUILTINS = ('abs', 'min', 'max', 'int', 'float', 'str', 'len', 'range', 'enumerate')
_METHODS = ('pop', 'insert', 'append', 'extend', 'clear', 'copy', 'get', 'keys', 'values', 'items', 'startswith', 'endswith', 'find',
	'remove', 'index', 'sort', 'reverse', 'count', 'split', 'upper', 'lower', 'replace', 'strip', 'update', 'join')


class _Instr(ast.NodeTransformer):
	def __init__(self, user_names: set[str]) -> None:
		self.user = user_names

	@staticmethod
	def _call(fn: str, *args: ast.expr) -> ast.Call:
		return ast.Call(ast.Name(fn, ast.Load()), list(args), [])

	def visit_Constant(self, n: ast.Constant) -> Any:
		if type(n.value) is int and not (INT_MIN <= n.value <= INT_MAX):
			raise OutOfSubset('int literal out of 32 bits')
		return n

	def visit_BinOp(self, n: ast.BinOp) -> Any:
		self.generic_visit(n)
		return self._call('_vf_bin', ast.Constant(type(n.op).__name__), n.left, n.right)

	def visit_UnaryOp(self, n: ast.UnaryOp) -> Any:
		self.generic_visit(n)
		if isinstance(n.op, ast.Not):
			return ast.UnaryOp(ast.Not(), self._call('_vf_nb', n.operand))
		return self._call('_vf_un', ast.Constant(type(n.op).__name__), n.operand)

	def visit_BoolOp(self, n: ast.BoolOp) -> Any:
		self.generic_visit(n)
		return ast.BoolOp(n.op, [self._call('_vf_b', v) for v in n.values])

	def visit_Compare(self, n: ast.Compare) -> Any:
		self.generic_visit(n)
		if all(isinstance(o, (ast.Eq, ast.NotEq, ast.Lt, ast.LtE, ast.Gt, ast.GtE)) for o in n.ops):
			n.left = self._call('_vf_cmp', n.left)
			n.comparators = [self._call('_vf_cmp', c) for c in n.comparators]
		elif any(isinstance(o, (ast.Is, ast.IsNot)) for o in n.ops):
			# identity is value equality only on the bool singletons (ints: CPython caches small values only)
			n.left = self._call('_vf_b', n.left)
			n.comparators = [self._call('_vf_b', c) for c in n.comparators]
		return n

	def visit_IfExp(self, n: ast.IfExp) -> Any:
		self.generic_visit(n)
		n.test = self._call('_vf_nb', n.test)
		return n

	def visit_If(self, n: ast.If) -> Any:
		self.generic_visit(n)
		n.test = self._call('_vf_nb', n.test)
		return n

	def visit_While(self, n: ast.While) -> Any:
		self.generic_visit(n)
		n.test = self._call('_vf_nb', n.test)
		return n

	def visit_Subscript(self, n: ast.Subscript) -> Any:
		self.generic_visit(n)
		if isinstance(n.ctx, ast.Load):
			if isinstance(n.slice, ast.Slice):
				if n.slice.step is not None or n.slice.lower is None or n.slice.upper is None:
					raise OutOfSubset('open/stepped slice')
				return self._call('_vf_slice', n.value, n.slice.lower, n.slice.upper)
			return self._call('_vf_idx', n.value, n.slice)
		return n

	def visit_Assign(self, n: ast.Assign) -> Any:
		self.generic_visit(n)
		out: list[ast.stmt] = []
		for t in n.targets:
			if isinstance(t, ast.Subscript):
				out.append(ast.Expr(self._call('_vf_store', _load(t.value), _load(t.slice))))
		return [*out, n]

	def visit_AugAssign(self, n: ast.AugAssign) -> Any:
		self.generic_visit(n)
		tgt = n.target
		val = self._call('_vf_bin', ast.Constant(type(n.op).__name__), self.visit(_load(_strip(tgt))), n.value)
		return self.visit_Assign_raw(ast.Assign([tgt], val))

	def visit_Assign_raw(self, n: ast.Assign) -> Any:
		out: list[ast.stmt] = []
		for t in n.targets:
			if isinstance(t, ast.Subscript):
				out.append(ast.Expr(self._call('_vf_store', _load(t.value), _load(t.slice))))
		return [*out, n]

	def visit_Call(self, n: ast.Call) -> Any:
		self.generic_visit(n)
		if n.keywords:
			return n
		if isinstance(n.func, ast.Name) and n.func.id in _BUILTINS and n.func.id not in self.user:
			return self._call('_vf_fn', ast.Constant(n.func.id), *n.args)
		if isinstance(n.func, ast.Attribute) and n.func.attr in _METHODS and not (isinstance(n.func.value, ast.Name) and n.func.value.id in self.user):
			return self._call('_vf_call', n.func.value, ast.Constant(n.func.attr), *n.args)
		return n


def _strip(t: ast.expr) -> ast.expr:
	"""a target expression as it was before instrumentation of its inner loads (targets are visited too)"""
	return t


def _load(e: ast.expr) -> ast.expr:
	e2 = ast.parse(ast.unparse(e), mode='eval').body
	return e2


def instrument(source: str) -> Any:
	tree = ast.parse(source)
	user = {n.name for n in ast.walk(tree) if isinstance(n, (ast.FunctionDef, ast.ClassDef))}
	tree = _Instr(user).visit(tree)
	ast.fix_missing_locations(tree)
	return compile(tree, '<c01-program>', 'exec')


def canon(v: Any, classes: dict[str, list[str]]) -> str:
	t = type(v)
	if t is bool:
		return 'True' if v else 'False'
	if t is int:
		return str(v)
	if t is float:
		return '%.17gf' % (v if v != 0 else 0.0)   # the suffix keeps 1.0 apart from 1; the sign of a zero is not compared (see show(double) in the prelude)
	if t is str:
		return '"' + ''.join(c if 32 <= ord(c) < 127 and c not in '"\\' else '\\x%02x' % ord(c) for c in v) + '"'
	if t is list:
		return '[' + ','.join(canon(e, classes) for e in v) + ']'
	if t is tuple:
		return '(' + ','.join(canon(e, classes) for e in v) + ')'
	if t is dict:
		return '{' + ','.join(f'{canon(k, classes)}:{canon(v[k], classes)}' for k in sorted(v)) + '}'
	if t.__name__ in classes:
		return t.__name__ + '(' + ','.join(f'{f}={canon(getattr(v, f), classes)}' for f in classes[t.__name__]) + ')'
	raise OutOfSubset(f'unprintable result {t.__name__}')


class _Timeout(BaseException):
	pass


def run_python(prog: dict[str, Any], time_limit: float = 3.0) -> dict[tuple[str, int], str]:
	"""(fn, i) -> canonical result | 'raised' | 'out:<why>' (outside the agreement subset: discarded by the comparison).
	`time_limit` is CPU time (ITIMER_PROF): it does not depend on the load of the machine."""
	res: dict[tuple[str, int], str] = {}
	classes = prog.get('classes', {})

	def all_out(why: str) -> dict[tuple[str, int], str]:
		return {(e['fn'], i): f'out:{why}' for e in prog['entries'] for i in range(len(e['args']))}

	try:
		code = instrument(prog['source'])
	except OutOfSubset as e:
		return all_out(str(e))
	except SyntaxError as e:
		return all_out(f'SyntaxError {e}')
	ns: dict[str, Any] = {'__name__': '__c01__', '_vf_bin': _vf_bin, '_vf_un': _vf_un, '_vf_b': _vf_b, '_vf_idx': _vf_idx, '_vf_slice': _vf_slice,
		'_vf_store': _vf_store, '_vf_call': _vf_call, '_vf_fn': _vf_fn, '_vf_cmp': _vf_cmp,
		# 'strict_truth' (stream sem): the Lean model `pyEval` claims `not` / `?:` only on bools — narrower than the search's subset
		'_vf_nb': _vf_b if prog.get('strict_truth') else _vf_nb}
	if prog.get('strict_truth'):
		ns['_vf_un'] = _vf_un_strict

	def on_alarm(*_: Any) -> None:
		raise _Timeout()

	old = signal.signal(signal.SIGPROF, on_alarm)
	try:
		signal.setitimer(signal.ITIMER_PROF, time_limit)
		try:
			exec(code, ns)
		except _Timeout:
			return all_out('py-timeout')
		except OutOfSubset as e:
			return all_out(str(e))
		except Exception as e:  # noqa: BLE001
			return all_out(f'module-level {type(e).__name__}')
		finally:
			signal.setitimer(signal.ITIMER_PROF, 0)
		for ent in prog['entries']:
			fn = ns.get(ent['fn'])
			for i, args in enumerate(ent['args']):
				key = (ent['fn'], i)
				signal.setitimer(signal.ITIMER_PROF, time_limit)
				try:
					res[key] = canon(fn(*[list(a) if isinstance(a, list) else a for a in args]), classes)
				except _Timeout:
					res[key] = 'out:py-timeout'
				except OutOfSubset as e:
					res[key] = f'out:{e}'
				except RecursionError:
					res[key] = 'out:recursion'
				except Exception as e:  # noqa: BLE001
					# only exceptions raised by an explicit `raise` of the two stub classes are inside the subset
					res[key] = 'raised' if type(e) in (RuntimeError, Exception) else f'out:{type(e).__name__}'
				finally:
					signal.setitimer(signal.ITIMER_PROF, 0)
	finally:
		signal.signal(signal.SIGPROF, old)
	return res


# ---------------------------------------------------------------------------------------------
# C++ side


def cpp_literal(v: Any, ty: str) -> str:
	if ty == 'bool':
		return 'true' if v else 'false'
	if ty == 'int':
		return str(int(v))
	if ty == 'float':
		return repr(float(v))
	if ty == 'str':
		return 'std::string("' + ''.join(c if c.isalnum() or c in ' _,.-' else '\\x%02x""' % ord(c) for c in v) + '")'
	if ty.startswith('list['):
		inner = ty[5:-1]
		return f"std::vector<{cpp_type(inner)}>{{{', '.join(cpp_literal(e, inner) for e in v)}}}"
	raise AssertionError(ty)


def cpp_type(ty: str) -> str:
	return {'int': 'int', 'bool': 'bool', 'float': 'float', 'str': 'std::string'}[ty]


def strip_emitted(text: str) -> str:
	return '\n'.join(line for line in text.split('\n') if line.strip() != '#pragma once')


def driver_unit(progs: list[tuple[str, dict[str, Any], str]]) -> str:
	"""One translation unit for several (namespace, program, emitted text)."""
	out = ['#include "vf_prelude.h"']
	for ns, prog, text in progs:
		out.append(f'namespace {ns} {{')
		out.append(strip_emitted(text))
		for cname, fields in prog.get('classes', {}).items():
			body = ' '.join(f'o << "{"," if i else ""}{f}="; vf::show(o, v.{f});' for i, f in enumerate(fields))
			out.append(f'inline void show(std::ostream& o, const {cname}& v) {{ using vf::show; o << "{cname}("; {body} o << ")"; }}')
		out.append('static void vf_run(std::ostream& o) {')
		out.append('\tusing vf::show;')
		for ent in prog['entries']:
			for i, args in enumerate(ent['args']):
				call = f"{ent['fn']}({', '.join(cpp_literal(a, t) for a, t in zip(args, ent['params']))})"
				tag = f"{ent['fn']}\\t{i}\\t"
				out.append(f'\ttry {{ auto r = {call}; o << "{tag}"; show(o, r); o << std::endl; }} catch (...) {{ o << "{tag}raised" << std::endl; }}')
		out.append('}')
		out.append('}')
	out.append('int main(int argc, char** argv) {')
	out.append('\tstd::string which = argc > 1 ? argv[1] : "";')
	for ns, _, _ in progs:
		out.append(f'\tif (which == "{ns}") {{ {ns}::vf_run(std::cout); return 0; }}')
	out.append('\treturn 3;')
	out.append('}')
	return '\n'.join(out) + '\n'


class Cxx:
	"""g++ front: a precompiled prelude per work dir, units compiled in parallel."""

	def __init__(self, workdir: str) -> None:
		self.dir = workdir
		self._ids = itertools.count()
		with open(os.path.join(workdir, 'vf_prelude.h'), 'w', encoding='utf-8') as f:
			f.write('#pragma once\n' + PRELUDE)
		p = subprocess.run(['g++', '-std=c++20', '-O0', '-w', '-D_GLIBCXX_ASSERTIONS', '-x', 'c++-header', 'vf_prelude.h', '-o', 'vf_prelude.h.gch'], cwd=workdir, capture_output=True, text=True, timeout=300)
		if p.returncode != 0:
			raise common.InfraError(f'g++ cannot compile the driver prelude: {p.stderr[-800:]}')

	def compile(self, unit_text: str) -> tuple[str | None, str]:
		"""-> (path of the executable | None, compiler diagnostics)."""
		base = os.path.join(self.dir, f'u{next(self._ids)}')
		with open(base + '.cpp', 'w', encoding='utf-8') as f:
			f.write(unit_text)
		try:
			p = subprocess.run(['g++', '-std=c++20', '-O0', '-w', '-D_GLIBCXX_ASSERTIONS', '-fmax-errors=5', '-I', self.dir, base + '.cpp', '-o', base + '.bin'],
				cwd=self.dir, capture_output=True, text=True, timeout=600)
		except subprocess.TimeoutExpired as e:
			raise common.InfraError('g++ timeout') from e
		if p.returncode != 0:
			return None, p.stderr[-3000:]
		return base + '.bin', ''

	@staticmethod
	def run(exe: str, ns: str, cpu_limit: int = 3, wall_limit: float = 120.0) -> tuple[dict[tuple[str, int], str], str]:
		"""-> ((fn, i) -> text, abnormal end '' | 'timeout' | 'wall-timeout' | 'signal N' | 'exit N'). `timeout` = the program used up
		`cpu_limit` seconds of CPU time (an endless loop: a fact about the program, whatever the load of the machine); `wall-timeout` =
		no result within `wall_limit` seconds of wall time although the CPU limit was not reached (a fact about the machine: skipped)."""
		rc, out, _, why = run_limited([exe, ns], cpu_limit, wall_limit, mem_kb=1_000_000)
		end = 'timeout' if why == 'cpu-limit' else why if why else '' if rc == 0 else (f'signal {-rc}' if rc < 0 else f'exit {rc}')
		res: dict[tuple[str, int], str] = {}
		for line in out.split('\n'):
			parts = line.split('\t', 2)
			if len(parts) == 3 and parts[1].isdigit():
				res[(parts[0], int(parts[1]))] = parts[2]
		return res, end


# ---------------------------------------------------------------------------------------------
# the oracle


def judge(prog: dict[str, Any], py: dict[tuple[str, int], str], cpp: dict[tuple[str, int], str], end: str) -> dict[str, Any]:
	"""Compare the in-subset calls. -> {'status': 'agree'|'mismatch'|'vacuous', 'diffs': [...], 'compared': n}"""
	diffs = []
	compared = 0
	crashed_at_out = False
	for ent in prog['entries']:
		for i in range(len(ent['args'])):
			k = (ent['fn'], i)
			want = py.get(k, 'out:missing')
			if want.startswith('out:'):
				# the C++ side may legitimately crash/hang on a call outside the subset; everything after it is unobservable
				if k not in cpp:
					crashed_at_out = True
				continue
			if crashed_at_out:
				continue
			compared += 1
			got = cpp.get(k, f'<no output: {end or "missing"}>')
			if got != want:
				diffs.append({'fn': ent['fn'], 'i': i, 'args': ent['args'][i], 'python': want, 'cpp': got})
	return {'status': 'mismatch' if diffs else ('agree' if compared else 'vacuous'), 'diffs': diffs, 'compared': compared}


_WORKER: dict[str, Any] = {}


def _worker_init(base: str) -> None:
	import tempfile
	_WORKER['tr'] = Transpiler(tempfile.mkdtemp(dir=base))


def _worker_transpile(source: str) -> tuple[str | None, str]:
	try:
		return _WORKER['tr'].transpile(source), ''
	except Exception as e:  # noqa: BLE001 - any exception is a rejection
		return None, f'{common.exc_enum(e)}: {str(e)[:300]}'


class Pipeline:
	def __init__(self, ctx: common.Ctx, workers: int = 12) -> None:
		self.ctx = ctx
		self.tr = Transpiler(ctx.tmpdir())
		self.cxx = Cxx(ctx.tmpdir('tranp-verif-cxx-'))
		self.workers = workers
		self._pool: Any = None

	def pool(self) -> Any:
		"""transpiler worker processes (each a real App with its own private cache dir); transpiling dominates the run time"""
		if self._pool is None:
			import multiprocessing
			from concurrent.futures import ProcessPoolExecutor
			self._pool = ProcessPoolExecutor(self.workers, mp_context=multiprocessing.get_context('fork'), initializer=_worker_init, initargs=(self.ctx.tmpdir(),))
		return self._pool

	def close(self) -> None:
		if self._pool is not None:
			self._pool.shutdown(wait=False, cancel_futures=True)
			self._pool = None

	def transpile(self, prog: dict[str, Any], fresh: bool = False) -> tuple[str | None, str]:
		"""-> (emitted text | None, exc_enum of the rejection)."""
		tr = Transpiler(self.ctx.tmpdir()) if fresh else self.tr
		try:
			return tr.transpile(prog['source']), ''
		except Exception as e:  # noqa: BLE001 - any exception is a rejection
			return None, f'{common.exc_enum(e)}: {str(e)[:300]}'

	def check_many(self, progs: list[dict[str, Any]], per_unit: int = 10, fresh: bool = False) -> list[dict[str, Any]]:
		"""Full oracle for a list of programs. Each result: {'status': agree|mismatch|vacuous|rejected|cxx-rejected, ...}."""
		results: list[dict[str, Any] | None] = [None] * len(progs)
		pys: list[dict[tuple[str, int], str] | None] = [None] * len(progs)
		texts: list[str | None] = [None] * len(progs)
		todo: list[int] = []
		live: list[int] = []
		for n, prog in enumerate(progs):
			py = run_python(prog)
			pys[n] = py
			if not any(not v.startswith('out:') for v in py.values()):
				results[n] = {'status': 'vacuous', 'why': next(iter(py.values()), 'no calls'), 'compared': 0, 'diffs': []}
				continue
			live.append(n)
		if fresh or len(live) < 4:
			emitted = [self.transpile(progs[n], fresh) for n in live]
		else:
			emitted = list(self.pool().map(_worker_transpile, [progs[n]['source'] for n in live], chunksize=max(1, len(live) // (self.workers * 4))))
		for n, (text, why) in zip(live, emitted):
			if text is None:
				results[n] = {'status': 'rejected', 'why': why, 'compared': 0, 'diffs': []}
				continue
			texts[n] = text
			todo.append(n)
		units = [todo[i:i + per_unit] for i in range(0, len(todo), per_unit)]

		def build(ix: list[int]) -> tuple[list[int], str | None, str]:
			exe, diag = self.cxx.compile(driver_unit([(f'p{n}', progs[n], texts[n] or '') for n in ix]))
			return ix, exe, diag

		with ThreadPoolExecutor(JOBS) as ex:
			built = list(ex.map(build, units))
			singles: list[int] = []
			for ix, exe, diag in built:
				if exe is None and len(ix) > 1:
					singles.extend(ix)
			built2 = list(ex.map(build, [[n] for n in singles]))

			def run_unit(item: tuple[list[int], str | None, str]) -> None:
				ix, exe, diag = item
				if exe is None:
					if len(ix) == 1:
						results[ix[0]] = {'status': 'cxx-rejected', 'why': diag, 'compared': 0, 'diffs': [], 'emitted': texts[ix[0]]}
					return
				for n in ix:
					cpp, end = Cxx.run(exe, f'p{n}')
					if end == 'wall-timeout':
						# the machine, not the program: no verdict depends on wall time (the CPU-time limit is what detects an endless loop)
						results[n] = {'status': 'vacuous', 'why': 'c++ run skipped: wall timeout below the CPU-time limit', 'compared': 0, 'diffs': [], 'emitted': texts[n]}
						continue
					r = judge(progs[n], pys[n] or {}, cpp, end)
					r['emitted'] = texts[n]
					results[n] = r

			list(ex.map(run_unit, [*built, *built2]))
		return [r if r is not None else {'status': 'vacuous', 'why': 'not run', 'compared': 0, 'diffs': []} for r in results]

	def check(self, prog: dict[str, Any], fresh: bool = False) -> dict[str, Any]:
		return self.check_many([prog], fresh=fresh)[0]
