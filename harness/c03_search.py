"""The property's own oracle for C03 on the REAL code (no model involved).

A program is executed under CPython with a recorder around every expression in load position and every simple
declaration target; `describe(type(v))` of each recorded value is compared with `Reflections.type_of(node).pretty` of the
tranp node that has the same source span.

Exactness of the oracle (what is compared, what is skipped):
  * only determined run-time types: an observation whose description contains `Unknown` (empty container) or `Union`
    (mixed container) is skipped;
  * an inferred `Union<…>` (declared optional, ternary with different branches) denotes each of its members, at any depth
    (`list<Union<int, None>>` denotes `list<int>`): the comparison is denotation, not string equality;
  * values that are not data (functions, classes, modules, bound methods, iterators/views) are not recorded;
  * CPython's `bool` is not accepted for an inferred `int` and vice versa (the property says "exactly the type");
  * a span without a tranp expression node (parenthesised inner expressions keep their own span, so this is rare) is skipped;
  * tranp raising on a node CPython evaluated, or answering `Unknown` inside the type, is a totality finding.
A finding is reported for the innermost disagreeing expression only; its key names the node kind, the operator / method
and the heads of the operand types, e.g. `UnaryOp:USub:bool`, `BinOp:BitOr:bool,int`, `Call:list<Union>.pop`.
"""
from __future__ import annotations

import ast
import re
from typing import Any

from harness import c03_expr as X
from harness.common import exc_enum

Span = tuple[int, int, int, int]


# ---------------------------------------------------------------------------------------------
# instrumentation


class _Instr(ast.NodeTransformer):
	def __init__(self) -> None:
		self.sites: dict[int, dict[str, Any]] = {}
		self.stack: list[int] = []

	def new_site(self, node: ast.AST, kind: str) -> int:
		i = len(self.sites)
		self.sites[i] = {
			'span': (node.lineno, node.col_offset, node.end_lineno, node.end_col_offset),  # type: ignore[attr-defined]
			'kind': kind, 'node': node, 'parent': self.stack[-1] if self.stack else None,
		}
		return i

	def wrap(self, node: ast.expr, i: int) -> ast.expr:
		call = ast.Call(ast.Name('c03rec_', ast.Load()), [ast.Constant(i), node], [])
		return ast.copy_location(call, node)

	# -- things that are not expressions to record

	def visit_arg(self, node: ast.arg) -> ast.AST:
		return node  # annotation

	def visit_FunctionDef(self, node: ast.FunctionDef) -> ast.AST:
		node.body = [self.visit(s) for s in node.body]
		node.args.defaults = [self.visit(d) for d in node.args.defaults]
		return node

	def visit_ClassDef(self, node: ast.ClassDef) -> ast.AST:
		node.body = [self.visit(s) for s in node.body]
		return node

	def visit_AnnAssign(self, node: ast.AnnAssign) -> ast.AST:
		if node.value is not None:
			node.value = self.visit(node.value)
			node.value = self.decl_target(node.target, node.value)
		return node

	def visit_Assign(self, node: ast.Assign) -> ast.AST:
		node.value = self.visit(node.value)
		if len(node.targets) == 1:
			node.value = self.decl_target(node.targets[0], node.value)
		node.targets = [self.visit(t) for t in node.targets]
		return node

	def decl_target(self, target: ast.expr, value: ast.expr) -> ast.expr:
		if isinstance(target, ast.Name) or (isinstance(target, ast.Attribute) and isinstance(target.value, ast.Name) and target.value.id == 'self'):
			inner = None
			if isinstance(value, ast.Call) and isinstance(value.func, ast.Name) and value.func.id == 'c03rec_':
				inner = value.args[0].value  # type: ignore[attr-defined]
			i = self.new_site(target, 'decl')
			self.sites[i]['value_site'] = inner
			return self.wrap(value, i)
		return value

	def visit_AugAssign(self, node: ast.AugAssign) -> ast.AST:
		node.value = self.visit(node.value)
		return node

	def visit_JoinedStr(self, node: ast.JoinedStr) -> ast.AST:
		return node

	def visit_Expr(self, node: ast.Expr) -> ast.AST:
		if isinstance(node.value, ast.Constant) and isinstance(node.value.value, str):
			return node  # docstring
		# (the value of an expression statement is compared like any other expression; `discarded` is only informative)
		before = len(self.sites)
		node.value = self.visit(node.value)
		for i in range(before, len(self.sites)):
			if self.sites[i]['node'] is node.value or self.sites[i]['span'] == (node.value.lineno, node.value.col_offset, node.value.end_lineno, node.value.end_col_offset):
				self.sites[i]['discarded'] = True
		return node

	def visit_Call(self, node: ast.Call) -> ast.AST:
		i = self.new_site(node, 'expr')
		self.stack.append(i)
		try:
			# the callee is not a value of the property's universe; its receiver is
			if isinstance(node.func, ast.Attribute):
				node.func.value = self.visit(node.func.value)
			elif not isinstance(node.func, ast.Name):
				node.func = self.visit(node.func)
			node.args = [a if isinstance(a, ast.Starred) else self.visit(a) for a in node.args]
			for k in node.keywords:
				k.value = self.visit(k.value)
		finally:
			self.stack.pop()
		return self.wrap(node, i)

	def generic_visit(self, node: ast.AST) -> ast.AST:
		if isinstance(node, ast.expr) and not isinstance(node, (ast.Slice, ast.Starred, ast.Lambda, ast.Yield, ast.YieldFrom, ast.Await, ast.NamedExpr)):
			ctx = getattr(node, 'ctx', None)
			if ctx is None or isinstance(ctx, ast.Load):
				i = self.new_site(node, 'expr')
				self.stack.append(i)
				try:
					node = super().generic_visit(node)
				finally:
					self.stack.pop()
				return self.wrap(node, i)  # type: ignore[arg-type]
			return super().generic_visit(node)
		if isinstance(node, ast.Lambda):
			# a function value is outside the property's universe; the expressions of its body (its parameters where they are used) are not
			node.body = self.visit(node.body)
			return node
		return super().generic_visit(node)


BASES: dict[str, set[str]] = {}


def class_name(v: Any) -> str:
	"""describe() hook for values that are not plain data: user objects by class name, non-consuming views as iterators"""
	t = type(v)
	if t.__name__ in ('dict_keys', 'dict_values') and t.__module__ == 'builtins':
		return f'Iterator<{X._elem([X.describe(x, class_name) for x in v])}>'
	if t.__name__ == 'dict_items' and t.__module__ == 'builtins':
		return f'ItemsView<{X._elem([X.describe(k, class_name) for k, _ in v])}, {X._elem([X.describe(x, class_name) for _, x in v])}>'
	if t is range:
		return 'Iterator<int>' if len(v) else 'Iterator<Unknown>'
	if t.__module__ in ('builtins', 'typing', 'types', 'enum') or callable(v) or isinstance(v, type) or t.__name__ in ('module', 'dict_keys', 'dict_values', 'dict_items', 'range', 'enumerate', 'reversed', 'list_iterator', 'generator'):
		raise X.Unsupported(t.__name__)
	BASES.setdefault(t.__name__, set()).update(b.__name__ for b in t.__mro__[1:])
	return t.__name__


def generic_contexts(tree: ast.Module) -> list[tuple[int, int]]:
	"""line ranges in which a type variable is a free variable: the bodies of classes whose bases mention one (`Generic[T]`,
	`Holder[T]`) and of functions whose signature mentions one. Everywhere else an inferred type that still mentions a type variable
	is wrong: the value has a concrete type there."""
	import re
	tvars = {t.id for n in tree.body if isinstance(n, ast.Assign) and isinstance(n.value, ast.Call) and isinstance(n.value.func, ast.Name)
		and n.value.func.id == 'TypeVar' for t in n.targets if isinstance(t, ast.Name)}
	if not tvars:
		return []
	pat = re.compile(r'\b(' + '|'.join(map(re.escape, sorted(tvars))) + r')\b')

	def mentions(*nodes: ast.AST | None) -> bool:
		return any(n is not None and pat.search(ast.unparse(n)) for n in nodes)

	out = []
	for n in ast.walk(tree):
		if isinstance(n, ast.ClassDef) and mentions(*n.bases):
			out.append((n.lineno, n.end_lineno or n.lineno))
		elif isinstance(n, ast.FunctionDef) and mentions(n.returns, *(a.annotation for a in [*n.args.args, *n.args.kwonlyargs])):
			out.append((n.lineno, n.end_lineno or n.lineno))
	return out


class Run:
	"""instrumented execution of one program"""

	def __init__(self, src: str) -> None:
		self.src = src
		tree = ast.parse(src)
		# binding sites of loop / comprehension targets: name -> [(scope node, iterable expression)]
		self.class_names = {n.name for n in ast.walk(tree) if isinstance(n, ast.ClassDef)}
		self.binders: list[tuple[ast.AST, set[str], ast.expr]] = []
		for n in ast.walk(tree):
			if isinstance(n, (ast.For, ast.comprehension)):
				names = {t.id for t in ast.walk(n.target) if isinstance(t, ast.Name)}
				self.binders.append((n, names, n.iter))
		self.generic_ranges = generic_contexts(tree)
		# class -> (base names, the lines of the class lie in a generic context, names of its methods)
		self.class_info = {n.name: ([b.id if isinstance(b, ast.Name) else b.value.id if isinstance(b, ast.Subscript) and isinstance(b.value, ast.Name) else '' for b in n.bases],
			any(lo == n.lineno for lo, _ in self.generic_ranges), {m.name for m in n.body if isinstance(m, ast.FunctionDef)}, [ast.unparse(b) for b in n.bases],
			# method -> annotation of its first parameter after self (quotes stripped)
			{m.name: (ast.unparse(m.args.args[1].annotation).strip('\'"') if len(m.args.args) > 1 and m.args.args[1].annotation is not None else '') for m in n.body if isinstance(m, ast.FunctionDef)})
			for n in ast.walk(tree) if isinstance(n, ast.ClassDef)}
		self.instr = _Instr()
		tree = ast.fix_missing_locations(self.instr.visit(tree))
		self.code = compile(tree, '<c03-program>', 'exec')
		BASES.clear()
		self.observed: dict[int, set[str]] = {}
		self.ns: dict[str, Any] = {'c03rec_': self.rec, '__name__': '__c03__'}

	def rec(self, i: int, v: Any) -> Any:
		try:
			d = refine(X.describe(v, class_name))
		except X.Unsupported:
			return v
		except Exception:  # noqa: BLE001 - exotic __eq__/__hash__ of user values never matter here
			return v
		self.observed.setdefault(i, set()).add(d)
		return v

	def load(self) -> str | None:
		try:
			exec(self.code, self.ns)  # noqa: S102 - generated programs only
			return None
		except Exception as e:  # noqa: BLE001
			return f'{type(e).__name__}: {e}'

	def call(self, fn: str, args: list[Any]) -> str | None:
		try:
			self.ns[fn](*args)
			return None
		except Exception as e:  # noqa: BLE001 - a run-time error only ends the observation of this call
			return type(e).__name__


# ---------------------------------------------------------------------------------------------
# type notation


def parse_ty(s: str) -> tuple[str, list[Any]]:
	"""`Name<a, b<c>>` -> (Name, [..]); anything unparsable stays an atom"""
	pos = 0

	def ty() -> tuple[str, list[Any]]:
		nonlocal pos
		m = re.compile(r'[^<>,]+').match(s, pos)
		if not m:
			raise ValueError(s)
		name = m.group(0).strip()
		pos = m.end()
		args: list[Any] = []
		if pos < len(s) and s[pos] == '<':
			pos += 1
			while True:
				args.append(ty())
				if pos < len(s) and s[pos] == ',':
					pos += 1
					while pos < len(s) and s[pos] == ' ':
						pos += 1
					continue
				if pos < len(s) and s[pos] == '>':
					pos += 1
					break
				raise ValueError(s)
		return name, args

	t = ty()
	if pos != len(s):
		raise ValueError(s)
	return t


def join(a: tuple[str, list[Any]], b: tuple[str, list[Any]]) -> tuple[str, list[Any]] | None:
	"""the least description both a and b are instances of, where `Unknown` (an empty container's element type) is below everything:
	list<Unknown> ⊔ list<int> = list<int>; None when the two differ in anything else"""
	if a == ('Unknown', []):
		return b
	if b == ('Unknown', []):
		return a
	if a[0] != b[0] or len(a[1]) != len(b[1]) or a[0] == 'Union':
		return None
	args = [join(x, y) for x, y in zip(a[1], b[1])]
	return None if any(x is None for x in args) else (a[0], args)


def show_ty(t: tuple[str, list[Any]]) -> str:
	return t[0] + (f"<{', '.join(show_ty(a) for a in t[1])}>" if t[1] else '')


def refine(desc: str) -> str:
	"""X.describe names the element type of a container by the Union of its items' descriptions; an EMPTY container among the items
	(`[[], [1]]`: list<Unknown> next to list<int>) is an instance of its siblings' type, so such members are merged: the value is a
	list of int lists, a determined type. Descriptions that differ in anything but `Unknown` stay a Union (undetermined)."""
	if 'Union<' not in desc or 'Unknown' not in desc:
		return desc
	try:
		t = parse_ty(desc)
	except ValueError:
		return desc

	def go(t: tuple[str, list[Any]]) -> tuple[str, list[Any]]:
		args = [go(a) for a in t[1]]
		if t[0] != 'Union':
			return (t[0], args)
		out: list[tuple[str, list[Any]]] = []
		for m in args:
			for k, o in enumerate(out):
				j = join(o, m)
				if j is not None:
					out[k] = j
					break
			else:
				out.append(m)
		return out[0] if len(out) == 1 else ('Union', out)
	return show_ty(go(t))


def denotes(t: tuple[str, list[Any]], d: tuple[str, list[Any]]) -> bool:
	"""the inferred type t denotes the (determined) run-time type d"""
	if t[0] == 'Union':
		return any(denotes(m, d) for m in t[1])
	if not d[1] and d[0] in BASES and (t[0] == d[0] or t[0] in BASES[d[0]]):
		return True  # an instance of the class or of a subclass; the arguments of a user generic are erased at run time
	return t[0] == d[0] and len(t[1]) == len(d[1]) and all(denotes(a, b) for a, b in zip(t[1], d[1]))


def head(t: str) -> str:
	"""`list<Union<int, None>>` -> `list<Union>`: enough to name a failing input class"""
	try:
		p = parse_ty(t)
	except ValueError:
		return t.split('<')[0]
	if p[1] and p[0] != 'Union' and 'Union<' in t:
		return f"{p[0]}<Union>"
	return p[0]


# ---------------------------------------------------------------------------------------------
# comparison


def expression_nodes(module: Any) -> dict[Span, list[Any]]:
	import rogw.tranp.syntax.node.definition as defs
	ep = module.entrypoint
	nodes = ep._Node__nodes
	out: dict[Span, list[Any]] = {}
	keep = (defs.Literal, defs.Reference, defs.FuncCall, defs.Operator, defs.Group, defs.Generator, defs.Declable)
	for p in list(nodes._Nodes__entries._EntryCache__entries.keys()):
		try:
			n = ep.whole_by(p)
		except Exception:  # noqa: BLE001
			continue
		if not isinstance(n, keep) or isinstance(n, defs.Pair):
			continue
		sm = n.source_map
		b, e = sm['begin'], sm['end']
		if b == (0, 0):
			continue
		out.setdefault((b[0], b[1] - 1, e[0], e[1] - 1), []).append(n)
	return out


def has_template(r: Any, depth: int = 0) -> bool:
	"""the inferred type mentions a type variable (inside a generic class / function): nothing determined to compare"""
	import rogw.tranp.syntax.node.definition as defs
	if isinstance(r.types, defs.TemplateClass):
		return True
	return depth < 6 and any(has_template(a, depth + 1) for a in r.attrs)


def pick(nodes: list[Any], kind: str) -> Any:
	import rogw.tranp.syntax.node.definition as defs
	if kind == 'decl':
		for n in nodes:
			if isinstance(n, defs.Declable):
				return n
	for n in nodes:
		if not isinstance(n, defs.Declable):
			return n
	return nodes[0]


def op_name(n: ast.AST) -> str:
	if isinstance(n, ast.UnaryOp):
		return type(n.op).__name__
	if isinstance(n, ast.BinOp):
		return type(n.op).__name__
	if isinstance(n, ast.BoolOp):
		return type(n.op).__name__
	if isinstance(n, ast.Compare):
		return '/'.join(type(o).__name__ for o in n.ops)
	if isinstance(n, ast.Subscript):
		return 'slice' if isinstance(n.slice, ast.Slice) else 'index'
	if isinstance(n, ast.Call):
		if isinstance(n.func, ast.Attribute):
			return f'.{n.func.attr}'
		if isinstance(n.func, ast.Name):
			return n.func.id
	if isinstance(n, ast.Attribute):
		return f'.{n.attr}'
	return ''


# failing input classes listed as known findings (the other names computed below are repaired: listed as fixed)
UNDERSTOOD = {'dict-get-missing-key', 'list-literal-class-dedup', 'union-of-subclasses-attribute', 'ternary-union-of-containers',
	'tuple-slice-nonliteral-bounds', 'abs-of-bool', 'min-max-mixed-numeric', 'list-of-dict-items', 'boolop-nonbool-operands', 'explicit-init-call',
	'generic-method-on-indirect-subclass', 'generic-method-nested-type-argument', 'shift-reflected-user-operand', 'spread-first-type-argument', 'dict-literal-empty-first-value'}

CONTAINER_HEADS = ('list', 'dict', 'tuple')
ALIAS_PREFIX = re.compile(r'\b[A-Za-z_][A-Za-z_0-9]*=')
BINOP_DUNDER = {'Add': '__add__', 'Sub': '__sub__', 'Mult': '__mul__', 'Div': '__truediv__', 'Mod': '__mod__', 'BitOr': '__or__', 'BitAnd': '__and__',
	'BitXor': '__xor__', 'LShift': '__lshift__', 'RShift': '__rshift__'}


def union_members(r: str) -> list[list[str]]:
	"""member heads of every Union occurring in the short notation r"""
	out: list[list[str]] = []

	def walk(t: tuple[str, list[Any]]) -> None:
		if t[0] == 'Union':
			out.append([m[0] for m in t[1]])
		for a in t[1]:
			walk(a)
	try:
		walk(parse_ty(r))
	except ValueError:
		pass
	return out

GENERIC_OF_UNION = re.compile(r'(list|dict|tuple|Iterator|ItemsView|Pair)<[^<>]*(<[^<>]*>[^<>]*)*Union<')


def canonical_key(raw: str, site: dict[str, Any], real: str, runtime: list[str], kids: list[tuple[dict[str, Any], str]],
		descendants: list[tuple[dict[str, Any], str]], message: str, binder_reals: list[str], class_names: set[str] = frozenset(),  # type: ignore[assignment]
		class_info: dict[str, Any] | None = None) -> str:
	"""A stable name for a failing input class that is already understood (the predicate is on the failing site itself:
	node kind, operator, inferred operand types); otherwise the structural key."""
	n = site['node']
	kid_real = [r for _, r in kids]
	if raw.startswith('raises:Errors.Never') and 'Already set attibutes' in message:
		return 'list-literal-shared-union'
	if site['kind'] == 'expr':
		if isinstance(n, ast.UnaryOp) and isinstance(n.op, (ast.USub, ast.UAdd, ast.Invert)) and kid_real == ['bool']:
			return 'factor-on-bool'
		if isinstance(n, ast.BinOp) and isinstance(n.op, (ast.BitOr, ast.BitAnd)) and kid_real == ['bool', 'int']:
			return 'bitwise-bool-int'
		if isinstance(n, ast.Subscript) and isinstance(n.slice, ast.Slice) and kid_real and kid_real[0].startswith('tuple'):
			def literal(b: ast.expr | None) -> bool:
				# the bounds were instrumented in place: look through the recorder call
				while isinstance(b, ast.Call) and isinstance(b.func, ast.Name) and b.func.id == 'c03rec_':
					b = b.args[1]
				# a `+` / `-` directly over an integer literal is a literal bound too (da8b916)
				if isinstance(b, ast.UnaryOp) and isinstance(b.op, (ast.USub, ast.UAdd)):
					b = b.operand
					while isinstance(b, ast.Call) and isinstance(b.func, ast.Name) and b.func.id == 'c03rec_':
						b = b.args[1]
				return b is None or (isinstance(b, ast.Constant) and type(b.value) is int and b.value >= 0)
			# omitted, literal and signed literal bounds were repaired (c5f6dc1, da8b916); computed bounds still keep the whole tuple type
			return 'tuple-slice' if literal(n.slice.lower) and literal(n.slice.upper) and n.slice.step is None else 'tuple-slice-nonliteral-bounds'
		if isinstance(n, ast.List) and any(isinstance(x, ast.Starred) for x in n.elts):
			# a spread item whose type has several DIFFERENT type arguments that all describe the items: tuple<int, str>, ItemsView<K, V>
			for x in n.elts:
				if isinstance(x, ast.Starred):
					xr = next((r for s2, r in descendants if s2['span'] == (x.value.lineno, x.value.col_offset, x.value.end_lineno, x.value.end_col_offset)), '')
					try:
						pt = parse_ty(xr)
					except ValueError:
						continue
					if pt[0] in ('tuple', 'ItemsView') and len({repr(a) for a in pt[1]}) > 1:
						return 'spread-first-type-argument'
		if isinstance(n, ast.BinOp) and isinstance(n.op, (ast.LShift, ast.RShift)) and class_info and len(kid_real) == 2 and kid_real[0] in ('int', 'bool') and kid_real[1] in class_info:
			return 'shift-reflected-user-operand'
		if isinstance(n, ast.BinOp) and class_info and len(kid_real) == 2 and kid_real[0] in class_info and kid_real[1] in class_info:
			# an operand of a user class that is TWO or more levels below the class the operator method of the left operand takes:
			# try_operation looks at the operand's class and its direct bases only (traits.py:218-223)
			dunder = BINOP_DUNDER.get(type(n.op).__name__, '')

			def ancestors(c: str) -> list[str]:
				out2: list[str] = []
				todo = list(class_info[c][0]) if c in class_info else []
				while todo:
					x = todo.pop(0)
					if x and x not in out2:
						out2.append(x)
						todo = (list(class_info[x][0]) if x in class_info else []) + todo
				return out2
			decl_cls = next((c for c in [kid_real[0], *ancestors(kid_real[0])] if c in class_info and dunder in class_info[c][2]), None)
			if decl_cls is not None:
				prm = class_info[decl_cls][4].get(dunder, '')
				if prm and prm != kid_real[1] and prm not in class_info[kid_real[1]][0] and prm in ancestors(kid_real[1]):
					return 'operator-operand-indirect-subclass'
		if isinstance(n, ast.Call) and isinstance(n.func, ast.Attribute) and n.func.attr == '__init__' and 'None' in runtime:
			return 'explicit-init-call'
		if isinstance(n, ast.Call) and isinstance(n.func, ast.Attribute) and class_info and kid_real and kid_real[0].split('<')[0] in class_info:
			# a method of a generic class that returns its type variable, called on a non-generic descendant
			recv = kid_real[0].split('<')[0]
			cls, depth, below = recv, 0, recv
			while cls in class_info and n.func.attr not in class_info[cls][2] and class_info[cls][0]:
				below, cls, depth = cls, class_info[cls][0][0], depth + 1
			if cls in class_info and n.func.attr in class_info[cls][2] and class_info[cls][1]:
				if depth >= 2 and recv in real:
					# two or more levels below: the type variable is bound to the receiver class
					return 'generic-method-on-indirect-subclass'
				if depth == 1 and any(b.count('[') >= 2 for b in class_info[below][3]):
					# `class F(H[list[int]])`: the type variable is bound to the innermost argument
					return 'generic-method-nested-type-argument'
		if isinstance(n, ast.Call) and isinstance(n.func, ast.Name) and n.func.id == 'abs' and kid_real == ['bool']:
			return 'abs-of-bool'
		if isinstance(n, ast.Call) and isinstance(n.func, ast.Name) and n.func.id in ('min', 'max') and len(set(kid_real)) > 1 \
				and set(kid_real) <= {'int', 'float', 'bool'}:
			return 'min-max-mixed-numeric'
		if isinstance(n, ast.Call) and isinstance(n.func, ast.Name) and n.func.id == 'list' and kid_real and kid_real[0].startswith('ItemsView<'):
			return 'list-of-dict-items'
		if isinstance(n, ast.BoolOp) and any(r != 'bool' for r in kid_real):
			return 'boolop-nonbool-operands'
		if isinstance(n, ast.Call) and isinstance(n.func, ast.Attribute) and n.func.attr == 'get' and len(n.args) == 1 \
				and kid_real and (kid_real[0].startswith('dict<') or kid_real[0].startswith(('Union<dict<', 'Union<None, dict<'))) and 'None' in runtime:
			return 'dict-get-missing-key'
	if raw.startswith('raises:'):
		around = [real, *(r for _, r in kids), *(r for _, r in descendants), *binder_reals]
		# a ternary whose branches are inferred as different container types is a Union of containers: no operator/method resolves on it
		for ds, r in [*kids, *descendants]:
			if isinstance(ds['node'], ast.IfExp) and any(len(ms) > 1 and all(m in CONTAINER_HEADS for m in ms) for ms in union_members(r)[:1]):
				return 'ternary-union-of-containers'
		# min / max over int and float typed by its first argument, in a ternary with a float: a Union<int, float> no operator resolves on
		for ds, r in [*kids, *descendants]:
			dn = ds['node']
			if isinstance(dn, ast.Call) and isinstance(dn.func, ast.Name) and dn.func.id in ('min', 'max') and 'OperationNotAllowed' in raw:
				args = [r2 for s2, r2 in descendants if s2['parent'] == ds['id']]
				if len(set(args)) > 1 and set(args) <= {'int', 'float', 'bool'}:
					return 'min-max-mixed-numeric'
		# a Union of user classes (a list literal over a class and its subclass): no attribute resolves on it
		if 'UnresolvedSymbol' in raw and class_names:
			for r in around:
				if any(len(ms) > 1 and all(m in class_names for m in ms) for ms in union_members(r)):
					return 'union-of-subclasses-attribute'
	for r in binder_reals:
		if GENERIC_OF_UNION.search(r):
			return 'template-union-first-member'
	for ds, _ in [(site, real), *descendants]:
		dn = ds['node']
		if ds['kind'] == 'expr' and isinstance(dn, (ast.List, ast.Dict)):
			# (the items of the literal: the source of a spread item `*e` / `**e` is not one)
			srcs = [x.value for x in dn.elts if isinstance(x, ast.Starred)] if isinstance(dn, ast.List) else [v for k, v in zip(dn.keys, dn.values) if k is None]
			spread = {(x.lineno, x.col_offset, x.end_lineno, x.end_col_offset) for x in srcs}
			reals = [r for s2, r in sorted(((s2, r) for s2, r in descendants if s2['parent'] == ds['id'] and s2['span'] not in spread), key=lambda sr: sr[0]['id'])]
			if isinstance(dn, ast.Dict):
				reals = reals[len(reals) // 2:] if not spread and len(reals) % 2 == 0 else reals     # the values (ast visits all keys, then all values)
			heads = [r.split('<')[0] for r in reals]
			if isinstance(dn, ast.Dict) and reals and 'Unknown' in reals[0] and reals[0].split('<')[0] in CONTAINER_HEADS and any('Unknown' not in r for r in reals[1:]):
				# on_dict takes the first item whose value is not of class Unknown: an EMPTY container as the first value is one
				return 'dict-literal-empty-first-value'
			# on_list keeps one element type per class, the LAST one: the answer is wrong exactly when the last item of a class does not
			# cover an earlier one of that class (`[[1], []]`, `[[None], [1]]`); when it does (`[[], [1]]`) the code is right and a mismatch
			# there is not this finding
			for h in set(heads):
				same = [r for r in reals if r.split('<')[0] == h]
				if len(same) > 1 and isinstance(dn, ast.List):
					try:
						last = parse_ty(same[-1])
						if any(join(last, parse_ty(r)) != last for r in same[:-1]):
							return 'list-literal-class-dedup'
					except ValueError:
						return 'list-literal-class-dedup'
	if any(GENERIC_OF_UNION.search(r) for _, r in [*kids, *descendants]):
		return 'template-union-first-member'
	return raw


def compare(run: Run, refl: Any, module: Any) -> tuple[list[dict[str, Any]], dict[str, int]]:
	"""returns (disagreements: innermost only, statistics)"""
	by_span = expression_nodes(module)
	stats = {'sites': len(run.instr.sites), 'observed': 0, 'compared': 0, 'undetermined': 0, 'no_node': 0}
	real_of: dict[int, str] = {}
	bad: dict[int, dict[str, Any]] = {}
	for i, site in run.instr.sites.items():
		obs = run.observed.get(i)
		if not obs:
			continue
		stats['observed'] += 1
		cands = by_span.get(site['span'])
		if not cands:
			stats['no_node'] += 1
			continue
		node = pick(cands, site['kind'])
		origin, message = '', ''
		try:
			r0 = refl.type_of(node)
			if has_template(r0) and any(lo <= site['span'][0] <= hi for lo, hi in run.generic_ranges):
				# inside a generic class / function the type variable is free: nothing determined to compare
				stats['template'] = stats.get('template', 0) + 1
				continue
			# (a symbol typed through a type alias prints as `Alias=actual`: the alias name denotes the actual type)
			real = ALIAS_PREFIX.sub('', r0.pretty)
		except Exception as e:  # noqa: BLE001 - CPython evaluated this expression: inference must be total here
			real = f'!{exc_enum(e)}'
			message = str(e)[:300]
			origin = type(e.args[0]).__name__ if e.args and hasattr(e.args[0], 'full_path') else ''
		real_of[i] = real
		det = sorted(d for d in obs if X.determined(d))
		if real.startswith('!'):
			# CPython evaluated this expression, so the program is valid: inference has to answer, whatever the value was
			stats['compared'] += 1
			bad[i] = {'why': 'raises', 'real': real, 'runtime': sorted(obs), 'site': i, 'message': message, **({'origin': origin} if origin else {})}
			continue
		if not det:
			stats['undetermined'] += 1
			continue
		stats['compared'] += 1
		why = None
		if False:
			pass
		elif 'Unknown' in real:
			why = 'unknown'
		else:
			try:
				rt = parse_ty(real)
				if not all(denotes(rt, parse_ty(d)) for d in det):
					why = 'type'
			except ValueError:
				why = 'type'
		if why:
			bad[i] = {'why': why, 'real': real, 'runtime': det, 'site': i, 'message': message, **({'origin': origin} if origin else {})}
	# innermost: drop a disagreement that has a disagreeing descendant
	for i, site in run.instr.sites.items():
		site['id'] = i
	children: dict[int, list[int]] = {}
	for i, site in run.instr.sites.items():
		if site['parent'] is not None and site['kind'] == 'expr':
			children.setdefault(site['parent'], []).append(i)

	def real_at(j: int) -> str | None:
		if j not in real_of:
			cj = by_span.get(run.instr.sites[j]['span'])
			if not cj:
				return None
			try:
				real_of[j] = ALIAS_PREFIX.sub('', refl.type_of(pick(cj, 'expr')).pretty)
			except Exception as e:  # noqa: BLE001
				real_of[j] = f'!{exc_enum(e)}'
		return real_of[j]

	def descendants_of(i: int) -> list[int]:
		out: list[int] = []
		todo = list(children.get(i, []))
		while todo:
			j = todo.pop()
			out.append(j)
			todo.extend(children.get(j, []))
		return out

	has_bad_desc: set[int] = set()
	for i in bad:
		p = run.instr.sites[i]['parent']
		while p is not None:
			has_bad_desc.add(p)
			p = run.instr.sites[p]['parent']
	out = []
	key_of: dict[int, str] = {}

	def span_size(i: int) -> tuple[int, int]:
		l0, c0, l1, c1 = run.instr.sites[i]['span']
		return (l1 - l0, c1 - c0 if l1 == l0 else c1)

	for i, b in sorted(bad.items(), key=lambda kv: span_size(kv[0])):
		site = run.instr.sites[i]
		if i in has_bad_desc and b['why'] == 'type':
			continue
		if site['kind'] == 'decl' and site.get('value_site') in bad:
			continue
		n = site['node']
		root = site.get('value_site') if site['kind'] == 'decl' and site.get('value_site') is not None else i
		kids = [(run.instr.sites[j], real_at(j)) for j in sorted(children.get(root, []))]
		kids = [(s2, r) for s2, r in kids if r is not None]
		desc = [(run.instr.sites[j], real_at(j)) for j in descendants_of(root)]
		desc = [(s2, r) for s2, r in desc if r is not None]
		# (user class names are generated: the key names the kind, not the class)
		kid_heads = ['<class>' if head(r) in run.class_names else head(r) for _, r in kids]
		if isinstance(n, (ast.List, ast.Tuple, ast.Dict, ast.Set, ast.ListComp, ast.DictComp)):
			kid_heads = sorted(set(kid_heads))
		kindname = 'Decl' if site['kind'] == 'decl' else type(n).__name__
		opn = op_name(n) if site['kind'] != 'decl' else ''
		raw = f"{kindname}:{opn}:{','.join(kid_heads)}"
		if b['why'] == 'raises':
			raw = f"raises:{b['real'][1:]}:{b.get('origin', kindname)}"
		elif b['why'] == 'unknown':
			raw = f'unknown:{raw}'
		# the iterables that bind the names used at the failing site (loop / comprehension targets)
		used = {x.id for x in ast.walk(n) if isinstance(x, ast.Name)}
		binder_reals = []
		for _, names, it in run.binders:
			if names & used:
				sp = (it.lineno, it.col_offset, it.end_lineno, it.end_col_offset)
				for j, s2 in run.instr.sites.items():
					if s2['span'] == sp and s2['kind'] == 'expr':
						rj = real_at(j)
						if rj is not None:
							binder_reals.append(rj)
						binder_reals.extend(r for _, r in ((run.instr.sites[k], real_at(k)) for k in descendants_of(j)) if r is not None)
		key = canonical_key(raw, run.instr.sites[root] if site['kind'] == 'decl' else site, b['real'], b['runtime'], kids, desc, b.get('message', ''), binder_reals, run.class_names, run.class_info)
		if b['why'] == 'raises' and key == raw:
			# inference fails here because a sub-expression was already mis-typed: the finding belongs to that cause
			causes = [key_of[j] for j in descendants_of(root) if j in key_of]
			if causes:
				key = causes[0]
		key_of[i] = key
		l0, c0, l1, c1 = site['span']
		lines = run.src.split('\n')
		text = lines[l0 - 1][c0:c1] if l0 == l1 else lines[l0 - 1][c0:]
		out.append({**b, 'key': key, 'raw_key': raw, 'span': site['span'], 'text': text})
	return out, stats
