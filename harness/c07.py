"""C07 — Failures are always reported as tranp errors, never internal crashes.

Theorems: lean/Tranp/Props/C07.lean over lean/Tranp/Model/Errors.lean (+ generated lean/Tranp/Generated/ErrorsTable.lean).
Tie: translator translate/gen_errors.py (Errors hierarchy, builtin hierarchy, the except tables read from the AST) and the
correspondence streams `errors-hierarchy`, `errors-proc`, `errors-parse`, `errors-loop`, `errors-render` (driver family `errors`).
Search: the property's own fuzz oracle on the real pipeline `Modules.load -> transpile` (harness/c07_pipeline.py), in memory and on
disk: outcome in {ok} ∪ Errors.Error, `str(ErrorRender(e))` does not raise, 10 s wall cap. Finding key = (escaping class,
innermost frame inside rogw/tranp as `file:function`).
"""
from __future__ import annotations

import builtins
import contextlib
import io
import json
import os
import random
import shutil
import sys
import time
import warnings
from collections import Counter
from typing import Any

from harness import c07_pipeline as pl
from harness import c07_programs as gen
from harness import common
from harness.common import Ctx, Finding, SearchResult, Stream, hx

PROP = 'C07'

# ---------------------------------------------------------------------------------------------
# exception classes used by the correspondence streams


_DEADLINES: list[tuple[str, Any]] = []


def _deadline(ctx: Ctx, name: str, seconds: float) -> Any:
	"""total wall deadline of one generating loop; cases skipped after it are counted and reported by `_report_deadlines`"""
	dl = pl.Deadline(seconds)
	_DEADLINES.append((name, dl))
	return dl


def _report_deadlines(ctx: Ctx) -> None:
	for name, dl in _DEADLINES:
		if dl.skipped:
			ctx.notes.append(f'deadline: {dl.skipped} case(s) of {name} skipped after its wall deadline')
	_DEADLINES.clear()


def _errors() -> Any:
	from rogw.tranp.errors import Errors
	return Errors


_USER_CACHE: dict[str, type] = {}


def user_class(name: str, bases: tuple[type, ...], ctor1: bool = True) -> type | None:
	"""A user-defined exception class (None when CPython refuses the base combination: layout conflict / MRO)."""
	key = f'{name}:{[b.__name__ for b in bases]}:{ctor1}'
	if key in _USER_CACHE:
		return _USER_CACHE[key]
	ns: dict[str, Any] = {}
	if not ctor1:
		def __init__(self: Any, *args: Any) -> None:  # noqa: N807
			if len(args) == 1:
				raise TypeError(f'{name}() takes anything but exactly one argument')
		ns['__init__'] = __init__
	try:
		cls = type(name, bases, ns)
	except TypeError:
		return None
	_USER_CACHE[key] = cls
	return cls


def ctor1_of(cls: type) -> bool:
	try:
		cls(object())
		return True
	except Exception:  # noqa: BLE001
		return False


def cls_spec(cls: type) -> str:
	"""Class spec of the driver protocol, computed from the real class object by introspection."""
	Errors = _errors()
	if cls.__module__ == 'rogw.tranp.errors' and getattr(Errors, cls.__name__, None) is cls:
		return f'E {cls.__name__}'
	if cls.__module__ == 'builtins' and getattr(builtins, cls.__name__, None) is cls:
		return f'B {cls.__name__}'
	bases = [b for b in cls.__bases__ if b is not object]
	return f"U {hx(cls.__name__)} {1 if ctor1_of(cls) else 0} {len(bases)} {' '.join(cls_spec(b) for b in bases)}".rstrip()


def display(cls: type) -> str:
	Errors = _errors()
	if cls.__module__ == 'rogw.tranp.errors' and getattr(Errors, cls.__name__, None) is cls:
		return f'Errors.{cls.__name__}'
	if cls.__module__ == 'builtins':
		return cls.__name__
	return f'U:{cls.__name__}'


def arg0_of(e: BaseException) -> str:
	from rogw.tranp.syntax.node.node import Node
	if len(e.args) == 0:
		return 'none'
	return 'node' if isinstance(e.args[0], Node) else 'other'


def outcome_of(e: BaseException | None) -> str:
	if e is None:
		return 'ok'
	Errors = _errors()
	return f"raise {display(type(e))} {'E' if isinstance(e, Errors.Error) else '-'} {arg0_of(e)}"


def exception_classes() -> list[type]:
	"""≈ 35 classes: members of Errors, builtins (Exception and BaseException-only), third-party (lark), user-defined."""
	import lark
	Errors = _errors()
	out: list[type] = [
		Errors.Error, Errors.Never, Errors.Fatal, Errors.Logic, Errors.InvalidSchema, Errors.Syntax, Errors.NodeNotFound,
		Errors.UnresolvedSymbol, Errors.MustBeImplemented, Errors.OperationNotAllowed, Errors.NotSupported,
		TypeError, AssertionError, KeyError, IndexError, AttributeError, ValueError, RuntimeError, RecursionError, NotImplementedError,
		StopIteration, ZeroDivisionError, FileNotFoundError, LookupError, Exception,
		BaseException, KeyboardInterrupt, SystemExit, GeneratorExit,
		lark.exceptions.UnexpectedToken, lark.exceptions.UnexpectedCharacters, lark.exceptions.LarkError,
	]
	users = [
		user_class('MyError', (Exception,)),
		user_class('MyBase', (BaseException,)),
		user_class('MyLogic', (Errors.Logic,)),
		user_class('MySyntaxType', (Errors.Syntax, TypeError)),
		user_class('MyAssert', (AssertionError,)),
		user_class('MyFatalAssert', (Errors.Fatal, AssertionError)),
		user_class('MyBadCtor', (Errors.Logic,), ctor1=False),
		user_class('MyBadCtorType', (Errors.NotSupported, TypeError), ctor1=False),
		user_class('MyInterrupt', (KeyboardInterrupt,)),
		user_class('MyKeyIndex', (KeyError, IndexError)),
	]
	out.extend(u for u in users if u is not None)
	deep = user_class('MyDeep', (user_class('MyMid', (users[2], users[0])) or users[2],))  # type: ignore[arg-type]
	if deep is not None:
		out.append(deep)
	return out


def make_exception(cls: type, arg0: str, node: Any) -> BaseException | None:
	"""An instance whose args[0] is of the requested kind (None if the class cannot be built that way)."""
	import lark
	try:
		if cls is lark.exceptions.UnexpectedToken:
			tok = lark.Token('NAME', 'x')
			return {'none': None, 'node': cls(node, {'A'}), 'other': cls(tok, {'A'})}[arg0]
		if cls is lark.exceptions.UnexpectedCharacters:
			return {'none': None, 'node': None, 'other': cls('abc', 1, 1, 1)}[arg0]
		if not ctor1_of(cls):
			return {'none': cls(), 'node': cls(node, 'x'), 'other': cls('m', 'x')}[arg0]
		return {'none': cls(), 'node': cls(node), 'other': cls('m')}[arg0]
	except Exception:  # noqa: BLE001
		return None


def exc_spec(e: BaseException) -> str:
	return f'{arg0_of(e)} {cls_spec(type(e))}'


# ---------------------------------------------------------------------------------------------
# stream errors-hierarchy


def stream_hierarchy(ctx: Ctx) -> Stream:
	Errors = _errors()
	rng = ctx.sub_rng('hierarchy')
	cases = []
	atoms: list[type] = [v for v in vars(Errors).values() if isinstance(v, type) and issubclass(v, BaseException)]
	for k in sorted(vars(builtins)):
		v = getattr(builtins, k)
		if isinstance(v, type) and issubclass(v, BaseException) and v.__name__ == k and k != 'ExceptionGroup':
			atoms.append(v)
	for a in atoms:
		real = ','.join(display(c) for c in a.__mro__ if c is not object)
		cases.append(({'kind': 'mro', 'cls': display(a)}, [f'mro\t{cls_spec(a)}'], [real]))
	classes = exception_classes()
	# random user classes with multiple inheritance over the pool
	pool = list(classes)
	for i in range(ctx.scale(40, 400)):
		bases = tuple(rng.sample(pool, rng.randint(1, 3)))
		u = user_class(f'R{i}', bases, ctor1=rng.random() < 0.8)
		if u is not None:
			pool.append(u)
	targets = [Errors.Error, Errors.Logic, Errors.Syntax, Errors.Semantics, Exception, BaseException, TypeError, AssertionError, KeyboardInterrupt, LookupError, KeyError, OSError]
	for c in pool:
		ops, real = [], []
		for t in targets:
			ops.append(f'isa\t{cls_spec(c)}\t{cls_spec(t)}')
			real.append('true' if issubclass(c, t) else 'false')
		cases.append(({'kind': 'isa', 'cls': display(c)}, ops, real))
	st = common.correspond('errors-hierarchy', cases, 'errors', classify=lambda d: d['kind'])
	st.note = (f'__mro__ of all {len(atoms)} named classes (Errors.* and builtin exceptions) vs the generated parent tables; issubclass of {len(pool)} classes '
		'(named, lark, user-defined with multiple inheritance) against 12 named targets')
	return st


# ---------------------------------------------------------------------------------------------
# stream errors-proc: a test Procedure (public API: subclass + on()) over synthetic nodes


def _fake_node_base() -> type:
	from rogw.tranp.syntax.node.node import Node

	class FakeNode(Node):
		_classification = 'fake'
		_keys: list[str] = []

		def __init__(self, label: str) -> None:  # no Query / ModulePath: Procedure touches only the members below
			self._label = label
			self._flat: list[Any] = []
			self._procedural_raises: BaseException | None = None

		def __str__(self) -> str:
			return f'<FakeNode {self._label}>'

		def __repr__(self) -> str:
			return f'<FakeNode {self._label}>'

		def __hash__(self) -> int:
			return id(self)

		def __eq__(self, other: Any) -> bool:
			return self is other

		@property
		def classification(self) -> str:
			return self._classification

		@classmethod
		def prop_keys(cls) -> list[str]:
			return list(cls._keys)

		def procedural(self) -> list[Any]:
			if self._procedural_raises is not None:
				raise self._procedural_raises
			return list(self._flat)

	return FakeNode


def _make_node(FakeNode: type, label: str, props_visit_order: list[tuple[str, Any]]) -> Any:
	"""props_visit_order: ('s', None) | ('l', n) | ('r', exception) in the order __make_event visits them (reversed prop_keys)."""
	from rogw.tranp.syntax.node.node import Node
	ns: dict[str, Any] = {'_classification': label}
	keys_visit = []
	for i, (kind, val) in enumerate(props_visit_order):
		key = f'p{i}'
		keys_visit.append(key)

		def mk(kind: str = kind, val: Any = val) -> Any:
			if kind == 's':
				def fget(self: Any) -> Any:
					return self
				fget.__annotations__ = {'return': Node}
			elif kind == 'l':
				def fget(self: Any) -> Any:
					return [self] * val
				fget.__annotations__ = {'return': list[Node]}
			else:
				def fget(self: Any) -> Any:
					raise val
				# a raising property is declared as a list so that __make_event evaluates it (len(getattr(node, key)))
				fget.__annotations__ = {'return': list[Node]}
			return property(fget)

		ns[key] = mk()
	ns['_keys'] = list(reversed(keys_visit))
	cls = type(f'N_{label}', (FakeNode,), ns)
	return cls(label)


def proc_case(rng: random.Random, FakeNode: type, plan: dict[str, Any]) -> tuple[dict[str, Any], list[str], list[str]]:
	"""plan: {'procedural': exc|None, 'fallback': bool, 'events': [{'handler': own|fallback|missing, 'props': [...], 'behave': ...}]}

	behave: ('ok',) | ('raise', cls, arg0) | ('sig',) handler signature mismatch | ('next', cls, arg0) inner handler raises through next()
	"""
	from rogw.tranp.semantics.procedure import Procedure

	class TestProcedure(Procedure[str]):
		"""handlers are registered through the public Observable API"""

		def __init__(self) -> None:
			super().__init__(verbose=False)

	proc = TestProcedure()
	root = FakeNode('root')
	nodes = []
	tokens = []
	behaviours: dict[str, Any] = {}
	desc_kinds = []
	for i, ev in enumerate(plan['events']):
		label = f'n{i}'
		props_real = []
		props_tok = []
		for p in ev['props']:
			if p[0] == 's':
				props_real.append(('s', None))
				props_tok.append('s')
			elif p[0] == 'l':
				props_real.append(('l', p[1]))
				props_tok.append(f'l{p[1]}')
			else:
				exc = make_exception(p[1], p[2], root)
				if exc is None:
					exc = KeyError('k')
				props_real.append(('r', exc))
				props_tok.append(f'r {exc_spec(exc)}')
		node = _make_node(FakeNode, label, props_real)
		nodes.append(node)
		b = ev['behave']
		res_tok = 'ok'
		if b[0] in ('raise', 'next'):
			exc = make_exception(b[1], b[2], node)
			if exc is None:
				exc = make_exception(b[1], 'other', node) or KeyError('k')
			behaviours[label] = (b[0], exc)
			res_tok = exc_spec(exc)
		elif b[0] == 'sig':
			behaviours[label] = ('sig', None)
			# Python raises TypeError for the unexpected keyword arguments (only when the node has properties or always for `node=`)
			res_tok = 'other B TypeError'
		else:
			behaviours[label] = ('ok', None)
		desc_kinds.append(b[0])
		tokens.append(f"{ev['handler']}|{';'.join(props_tok) or '-'}|{res_tok}")

	def make_handler(label: str) -> Any:
		kind, exc = behaviours[label]
		if kind == 'sig':
			def bad_signature() -> str:  # accepts no `node` keyword → TypeError inside Middleware.emit
				return 'x'
			return [bad_signature]
		if kind == 'next':
			def inner(node: Any, **kw: Any) -> str:
				raise exc

			def outer(node: Any, next: Any, **kw: Any) -> str:  # noqa: A002 - Middleware looks for the annotation name `next`
				return next()
			outer.__annotations__ = {'next': Any}
			return [inner, outer]

		def handler(node: Any, **kw: Any) -> str:
			if kind == 'raise':
				raise exc
			return 'r'
		return [handler]

	for i, ev in enumerate(plan['events']):
		if ev['handler'] == 'own':
			for h in make_handler(f'n{i}'):
				proc.on(f'on_n{i}', h)
	if plan['fallback']:
		def on_fallback(node: Any, **kw: Any) -> str:
			kind, exc = behaviours[node._label]
			if kind in ('raise', 'next'):
				raise exc
			if kind == 'sig':
				raise TypeError('signature')
			return 'r'
		proc.on('on_fallback', on_fallback)
	# flatted = procedural() + [root]; the root is the last event
	root_ev = plan['events'][-1]
	root_node = nodes[-1]
	root_node._flat = nodes[:-1]
	proc_tok = 'ok'
	if plan['procedural'] is not None:
		exc = make_exception(plan['procedural'][0], plan['procedural'][1], root_node) or KeyError('k')
		root_node._procedural_raises = exc
		proc_tok = exc_spec(exc)
	caught: BaseException | None = None
	try:
		with pl.budget():
			proc.exec(root_node)
	except BaseException as e:  # noqa: BLE001 - the escaping class is the observation
		caught = e
	line = '\t'.join(['proc', proc_tok, *tokens])
	desc = {'kind': 'proc', 'events': len(tokens), 'behaves': '+'.join(sorted(set(desc_kinds))), 'procedural': proc_tok != 'ok', 'root': root_ev['handler']}
	return desc, [line], [outcome_of(caught)]


def stream_proc(ctx: Ctx) -> Stream:
	rng = ctx.sub_rng('proc')
	FakeNode = _fake_node_base()
	classes = exception_classes()
	cases = []
	# systematic: every class × arg0 kind × stage
	for cls in classes:
		for arg0 in ('none', 'node', 'other'):
			for stage in ('own', 'fallback', 'next', 'prop', 'procedural', 'own-after-child', 'own-stack-short'):
				ev_ok = {'handler': 'own', 'props': [], 'behave': ('ok',)}
				if stage == 'own':
					plan = {'procedural': None, 'fallback': False, 'events': [{'handler': 'own', 'props': [], 'behave': ('raise', cls, arg0)}]}
				elif stage == 'fallback':
					plan = {'procedural': None, 'fallback': True, 'events': [{'handler': 'fallback', 'props': [], 'behave': ('raise', cls, arg0)}]}
				elif stage == 'next':
					plan = {'procedural': None, 'fallback': False, 'events': [{'handler': 'own', 'props': [], 'behave': ('next', cls, arg0)}]}
				elif stage == 'prop':
					plan = {'procedural': None, 'fallback': False, 'events': [ev_ok, {'handler': 'own', 'props': [('s',), ('r', cls, arg0)], 'behave': ('ok',)}]}
				elif stage == 'procedural':
					plan = {'procedural': (cls, arg0), 'fallback': False, 'events': [ev_ok]}
				elif stage == 'own-after-child':
					plan = {'procedural': None, 'fallback': False, 'events': [ev_ok, ev_ok, {'handler': 'own', 'props': [('l', 2)], 'behave': ('raise', cls, arg0)}]}
				else:
					plan = {'procedural': None, 'fallback': False, 'events': [ev_ok, {'handler': 'own', 'props': [('l', 2)], 'behave': ('raise', cls, arg0)}]}
				d, ops, real = proc_case(rng, FakeNode, plan)
				d['stage'] = stage
				cases.append((d, ops, real))
	# random multi-node runs
	_dl_proc_random = _deadline(ctx, 'proc-random', ctx.scale(60, 600))
	for _ in range(ctx.scale(300, 3000)):
		if _dl_proc_random.over():
			continue
		n = rng.randint(1, 6)
		fallback = rng.random() < 0.5
		events = []
		for _i in range(n):
			r = rng.random()
			handler = 'own' if r < 0.6 else ('fallback' if fallback else 'missing')
			props = []
			for _p in range(rng.choice([0, 0, 1, 1, 2, 3])):
				q = rng.random()
				if q < 0.5:
					props.append(('s',))
				elif q < 0.9:
					props.append(('l', rng.randint(0, 3)))
				else:
					props.append(('r', rng.choice(classes), rng.choice(['none', 'node', 'other'])))
			b = rng.random()
			if b < 0.7:
				behave: tuple[Any, ...] = ('ok',)
			elif b < 0.9:
				behave = ('raise', rng.choice(classes), rng.choice(['none', 'node', 'other']))
			elif b < 0.95:
				behave = ('next', rng.choice(classes), rng.choice(['none', 'node', 'other'])) if handler == 'own' else ('raise', rng.choice(classes), 'other')
			else:
				behave = ('sig',)
			events.append({'handler': handler, 'props': props, 'behave': behave})
		procedural = (rng.choice(classes), rng.choice(['none', 'node', 'other'])) if rng.random() < 0.05 else None
		d, ops, real = proc_case(rng, FakeNode, {'procedural': procedural, 'fallback': fallback, 'events': events})
		d['stage'] = 'random'
		cases.append((d, ops, real))
	st = common.correspond('errors-proc', cases, 'errors', classify=lambda d: d['stage'])
	st.note = (f'a test Procedure subclass over synthetic Node subclasses; {len(classes)} exception classes × 3 argument shapes × 7 stages '
		'(own handler, on_fallback, next()-chain, node property, procedural(), after children, short stack) + random 1..6-node runs '
		'(missing handlers, list/single properties, stack under/overflow, signature mismatch); escaped class (name, in Errors.Error?, args[0] kind) vs model')
	return st


# ---------------------------------------------------------------------------------------------
# stream errors-parse: both branches of SyntaxParserOfLark.__load_entry

PARSE_SOURCES: list[tuple[str, str]] = [
	('valid', 'a: int = 1\n'),
	('valid', 'def f(x: int) -> int:\n\treturn x\n'),
	('valid', 'class A:\n\tdef m(self) -> None: ...\n'),
	('unexpected-token', 'a = = 1\n'),
	('unexpected-token', 'def f(:\n'),
	('unexpected-token', 'a = 1 +\n'),
	('unexpected-token', 'class :\n'),
	('unexpected-token', 'def f(x) -> :\n\tpass\n'),
	('unexpected-token', '@\ndef f() -> None: ...\n'),
	('unexpected-char', 'a = $\n'),
	('unexpected-char', 'a = 1 ? 2\n'),
	('unexpected-char', '\x00\n'),
	('dedent', 'def f() -> None:\n\t\ta = 1\n\tb = 2\n'),
	('dedent', 'if a:\n        x = 1\n    y = 2\n'),
	('eof', 'def f() -> None:'),
	('eof', 'a = (1,\n'),
	('eof', "s = 'abc\n"),
	('eof', 'x = [\n'),
	('no-trailing-newline', 'a = 1'),
	('empty', ''),
]


class ParseRig:
	"""A real App whose SourceProvider is a table (module path -> text | exception to raise) and whose source path contains a temp project."""

	def __init__(self, ctx: Ctx) -> None:
		from rogw.tranp.app.dir import tranp_dir
		from rogw.tranp.app.env import SourceEnvPath
		from rogw.tranp.lang.annotation import duck_typed
		from rogw.tranp.lang.module import to_fullyname
		from rogw.tranp.syntax.ast.parser import SourceProvider, SyntaxParser
		self.root = ctx.tmpdir()
		self.proj = os.path.join(self.root, 'proj')
		os.makedirs(os.path.join(self.proj, 'pz'))
		self.table: dict[str, Any] = {}
		self.n = 0
		table = self.table

		@duck_typed(SourceProvider)
		def provider(module_path: str) -> str:
			v = table[module_path]
			if isinstance(v, BaseException):
				raise v
			return v

		self._defs = lambda: common.tranp_definitions(os.path.join(self.root, 'cache'), {
			to_fullyname(SourceProvider): lambda: provider,
			to_fullyname(SourceEnvPath): lambda: SourceEnvPath([self.proj, tranp_dir(), os.path.join(tranp_dir(), 'rogw/tranp/compatible/libralies')]),
		})
		self._SyntaxParser = SyntaxParser
		self.parser = self.new_parser()
		self.lark_parser = self.parser.dirty_get_origin()

	def new_parser(self) -> Any:
		from rogw.tranp.app.app import App
		return App(self._defs()).resolve(self._SyntaxParser)

	def loaded_text(self, mod: str) -> str:
		"""the text the parser hands to lark: through the real `__load_source` when the tree has it, else the provider's text"""
		f = getattr(self.parser, '_SyntaxParserOfLark__load_source', None)
		return f(mod) if f is not None else self.table[mod]

	def raw_outcome(self, mod: str) -> str:
		"""what `parser.parse(<loaded source>)` does, observed on lark itself"""
		v = self.table[mod]
		if isinstance(v, BaseException):
			return exc_spec(v)
		try:
			self.lark_parser.parse(self.loaded_text(mod))
			return 'ok'
		except BaseException as e:  # noqa: BLE001
			return exc_spec(e)

	def new_module(self, v: Any, branch: str) -> str:
		self.n += 1
		mod = f'pz.m{self.n}'
		if branch == 'disk':
			with open(os.path.join(self.proj, 'pz', f'm{self.n}.py'), 'wb') as f:
				f.write(v.encode('utf-8') if isinstance(v, str) else b'# provider raises\n')
		self.table[mod] = v
		return mod

	def load(self, mod: str, parser: Any = None) -> BaseException | None:
		try:
			with pl.budget():
				(parser or self.parser)(mod)
			return None
		except BaseException as e:  # noqa: BLE001 - the escaping class is the observation
			return e


def stream_parse(ctx: Ctx) -> Stream:
	rng = ctx.sub_rng('parse')
	rig = ParseRig(ctx)
	classes = exception_classes()
	cases = []

	def one(kind: str, v: Any, branch: str, again: Any = None) -> None:
		mod = rig.new_module(v, branch)
		ops = [f'parse\t{branch}\t0\t{rig.raw_outcome(mod)}']
		caught = rig.load(mod)
		real = [outcome_of(caught)]
		if isinstance(v, str):
			ops.append(f'loadsrc\t{hx(v)}')
			try:
				real.append(hx(rig.loaded_text(mod)))
			except BaseException as e:  # noqa: BLE001
				real.append(outcome_of(e))
		if again is not None and branch == 'disk' and caught is None:
			# second load of a module whose tree is now cached: the source is not parsed at all (the provider would raise)
			rig.table[mod] = again
			ops.append(f'parse\tdisk\t1\t{rig.raw_outcome(mod)}')
			real.append(outcome_of(rig.load(mod, rig.new_parser())))
		cases.append(({'kind': kind, 'branch': branch}, ops, real))

	for kind, src in PARSE_SOURCES:
		one(kind, src, 'mem')
		one(kind, src, 'disk', again=KeyError('not read again'))
	for cls in classes:
		for arg0 in ('none', 'other'):
			exc = make_exception(cls, arg0, None)
			if exc is None:
				continue
			one(f'provider-raises', exc, 'mem')
			one(f'provider-raises', exc, 'disk')
	# mutated small programs through both branches
	_dl_parse_mutated = _deadline(ctx, 'parse-mutated', ctx.scale(30, 300))
	for _ in range(ctx.scale(60, 600)):
		if _dl_parse_mutated.over():
			continue
		src = rng.choice(gen.VALID_PROGRAMS)
		src = ''.join(gen.mutate_tokens(rng, gen.tokens_of(src)))
		one('mutated', src, rng.choice(['mem', 'disk']))
	st = common.correspond('errors-parse', cases, 'errors', classify=lambda d: f"{d['branch']}:{d['kind']}")
	st.note = ('SyntaxParserOfLark.__call__ on crafted sources (valid, unexpected token/character, dedent, EOF, empty), on a source provider raising each '
		'exception class, and on token-mutated programs — in-memory branch and on-disk branch (incl. the cached second load); input of the model op = what '
		'lark itself does with the text; escaped class vs model (mem branch uses the generated parserMemHandlers)')
	return st


# ---------------------------------------------------------------------------------------------
# stream errors-load: the real Modules (module/modules.py) over a scripted IModuleLoader


class LoadRig:
	"""Real `Modules` with a fake loader (public interface IModuleLoader) whose stages raise on request."""

	def __init__(self, libraries: list[str]) -> None:
		from rogw.tranp.module.loader import IModuleLoader
		from rogw.tranp.module.modules import Modules
		from rogw.tranp.module.types import ModulePath, ModulePaths
		rig = self
		self.imports: dict[str, list[str]] = {}
		self.on_load: dict[str, Any] = {}        # path -> exception to raise from loader.load (None: fine)
		self.on_preprocess: dict[str, Any] = {}
		self.on_unload: dict[str, Any] = {}
		self.calls: list[str] = []

		class _ImportPath:
			def __init__(self, tokens: str) -> None:
				self.tokens = tokens

		class _Import:
			def __init__(self, tokens: str) -> None:
				self.import_path = _ImportPath(tokens)

		class _Entrypoint:
			def __init__(self, path: str) -> None:
				self.path = path

			@property
			def imports(self) -> list[Any]:
				return [_Import(t) for t in rig.imports.get(self.path, [])]

		class _Module:
			def __init__(self, module_path: Any) -> None:
				self.module_path = module_path
				self.path = module_path.path
				self.entrypoint = _Entrypoint(module_path.path)
				self.depends: list[Any] = []

			def depends_on(self, modules: list[Any]) -> None:  # Module.depends_on (a383b4a); unused on older trees
				self.depends = list(modules)

		class FakeLoader(IModuleLoader):
			def load(self, module_path: Any) -> Any:
				rig.calls.append(f'load:{module_path.path}')
				exc = rig.on_load.get(module_path.path)
				if isinstance(exc, tuple):  # ('second', exc): only a repeated loader.load of that module raises
					exc = exc[1] if rig.calls.count(f'load:{module_path.path}') >= 2 else None
				if exc is not None:
					raise exc
				return _Module(module_path)

			def unload(self, module_path: Any) -> None:
				rig.calls.append(f'unload:{module_path.path}')
				exc = rig.on_unload.get(module_path.path)
				if exc is not None:
					raise exc

			def preprocess(self, module: Any) -> None:
				rig.calls.append(f'preprocess:{module.path}')
				exc = rig.on_preprocess.get(module.path)
				if exc is not None:
					raise exc

		self.modules = Modules(ModulePaths([ModulePath(p, language='py') for p in libraries]), ModulePaths(), FakeLoader())

	def load(self, path: str) -> BaseException | None:
		try:
			with pl.budget():
				self.modules.load(path)
			return None
		except BaseException as e:  # noqa: BLE001 - the escaping class is the observation
			return e


def _tok(e: BaseException | None) -> str:
	return 'ok' if e is None else exc_spec(e)


def load_cases(rng: random.Random, n_random: int) -> list[tuple[dict[str, Any], list[str], list[str]]]:
	classes = exception_classes()
	cases = []

	def mk(cls: type, arg0: str = 'other') -> BaseException:
		return make_exception(cls, arg0, None) or make_exception(cls, 'none', None) or KeyError('k')

	def one(kind: str, libs: Any, load: Any, pre: Any, dep: Any, unload: Any, registered: bool = False) -> None:
		"""libs / dep: exception raised by loader.load of the library / of an imported module; load / pre / unload: stages of `main`"""
		rig = LoadRig(['lib'] if libs is not None else [])
		if registered:
			rig.load('main')
		e_lib = None
		if libs is not None:
			rig.on_load['lib'] = libs
			e_lib = rig.load('lib')  # what the nested `load('lib')` lets escape, observed on its own
		rig.on_load['main'] = load
		rig.on_preprocess['main'] = pre
		rig.on_unload['main'] = unload
		body: BaseException | None = pre
		if dep is not None:
			rig.imports['main'] = ['dep']
			rig.on_load['dep'] = dep
			body = rig.load('dep')  # the dependency fails first (it is loaded before preprocess), observed on its own
		caught = rig.load('main')
		op = '\t'.join(['modload', '1' if registered else '0', '0', _tok(e_lib), _tok(load), _tok(body), _tok(unload)])
		cases.append(({'kind': kind}, [op], [outcome_of(caught)]))

	for cls in classes:
		one('load', None, mk(cls), None, None, None)
		one('preprocess', None, None, mk(cls, 'none'), None, None)
		one('dependency', None, None, None, mk(cls), None)
		one('library', mk(cls), None, None, None, None)
		one('rollback-fails', None, None, mk(KeyError), None, mk(cls))
		one('registered', None, mk(cls), mk(cls), None, None, registered=True)
	for _ in range(n_random):
		pick = lambda p: mk(rng.choice(classes), rng.choice(['none', 'other'])) if rng.random() < p else None  # noqa: E731
		one('random', pick(0.15), pick(0.3), pick(0.4), pick(0.3), pick(0.3), registered=rng.random() < 0.1)
	# the libraries load the module themselves: nothing is loaded a second time
	rig = LoadRig(['lib'])
	rig.imports['lib'] = ['main']
	rig.on_load['main'] = ('second', KeyError('loaded twice'))
	cases.append(({'kind': 'registered-by-libraries'}, ['modload\t0\t1\tok\tother B KeyError\tok\tok'], [outcome_of(rig.load('main'))]))
	return cases


def stream_load(ctx: Ctx) -> Stream:
	cases = load_cases(ctx.sub_rng('load'), ctx.scale(200, 2000))
	st = common.correspond('errors-load', cases, 'errors', classify=lambda d: d['kind'])
	st.note = ('the real Modules.load over a scripted IModuleLoader: every exception class raised by loader.load, by a preprocessor, by an imported module, '
		'by a library module, by the rollback unload; already registered modules; random stage combinations; escaped class vs model (generated modulesLoadHandlers)')
	return st


# ---------------------------------------------------------------------------------------------
# stream errors-graph: Modules.load / Modules.unload over import graphs (order of loader calls, registry) — the termination models


def stream_graph(ctx: Ctx) -> Stream:
	rng = ctx.sub_rng('graph')
	cases = []
	names = ['m0', 'm1', 'm2', 'm3', 'm4', 'l0', 'l1']
	_dl_graph = _deadline(ctx, 'graph', ctx.scale(30, 300))
	for i in range(ctx.scale(150, 1500)):
		if _dl_graph.over():
			continue
		libs = [n for n in ('l0', 'l1') if rng.random() < 0.5] if rng.random() < 0.6 else []
		k = rng.randint(2, 5)
		mods = names[:k] + libs
		graph: dict[str, list[str]] = {}
		for m in mods:
			deg = rng.choice([0, 0, 1, 1, 2, 3])
			# self-imports, mutual imports, libraries importing ordinary modules: all allowed
			graph[m] = [rng.choice(mods) for _ in range(deg)]
		rig = LoadRig(libs)
		rig.imports = graph
		gtok = ';'.join(f"{m}:{','.join(v)}" for m, v in graph.items()) or '-'
		ltok = ','.join(libs) or '-'
		ops, real = [], []

		def registry() -> list[str]:
			return [m.path for m in rig.modules.loaded()]

		for step in range(rng.randint(2, 5)):
			reg0 = registry()
			n0 = len(rig.calls)
			p = rng.choice(mods)
			if rng.random() < 0.6:
				ops.append('\t'.join(['loadg', gtok, ltok, ','.join(reg0) or '-', p, str(2 * len(mods) + 2)]))
				caught = rig.load(p)
				trace = [c[5:] for c in rig.calls[n0:] if c.startswith('load:')]
			else:
				ops.append('\t'.join(['unloadg', gtok, ltok, ','.join(reg0) or '-', p]))
				caught = None
				try:
					with pl.budget():
						rig.modules.unload(p)
				except BaseException as e:  # noqa: BLE001
					caught = e
				trace = [c[7:] for c in rig.calls[n0:] if c.startswith('unload:')]
			real.append(f"ok {','.join(registry()) or '-'} {','.join(trace) or '-'}" if caught is None else outcome_of(caught))
		cyc = any(m in graph[m] for m in graph) or any(a in graph.get(b, []) and b in graph.get(a, []) for a in graph for b in graph if a != b)
		cases.append(({'kind': ('cyclic' if cyc else 'acyclic') + ('+libs' if libs else '')}, ops, real))
	st = common.correspond('errors-graph', cases, 'errors', classify=lambda d: d['kind'])
	st.note = ('the real Modules.load / Modules.unload on random import graphs of 2..7 modules (self-imports, mutual imports, library modules that import ordinary '
		'ones) over a benign scripted loader, sequences of 2..5 loads/unloads per registry: resulting registry order and order of loader.load / loader.unload calls vs the '
		'fuel-bounded walks `loadFuel` / `unloadCurrent` (fuel of the termination theorems)')
	return st


# ---------------------------------------------------------------------------------------------
# stream errors-writer: Writer.flush with scripted attempts


def stream_writer(ctx: Ctx) -> Stream:
	import rogw.tranp.file.writer as wmod
	from rogw.tranp.file.writer import Writer
	root = ctx.tmpdir()
	classes = [c for c in exception_classes()] + [PermissionError, OSError, user_class('MyPermission', (PermissionError,)), user_class('MyPermKey', (PermissionError, KeyError))]
	classes = [c for c in classes if c is not None]
	attempts: list[Any] = []

	class ScriptedWriter(Writer):
		"""the real flush() over a scripted `_flush` (protected hook of the class)"""

		def _flush(self, filepath: str) -> None:
			exc = attempts.pop(0)
			if exc is not None:
				raise exc

	def mk(cls: type) -> BaseException:
		return make_exception(cls, 'other', None) or make_exception(cls, 'none', None) or KeyError('k')

	cases = []
	old_sleep = wmod.time.sleep
	wmod.time.sleep = lambda s: None  # the 0.1 s pause of the retry (harness process only)
	try:
		for a in [None, *classes]:
			for b in ([None] if a is None else [None, PermissionError, KeyError, a]):
				ea = None if a is None else mk(a)
				eb = None if b is None else mk(b)
				attempts[:] = [ea, eb]
				w = ScriptedWriter(os.path.join(root, 'out', 'x.h'))
				w.put('text')
				caught: BaseException | None = None
				try:
					with pl.budget():
						w.flush()
				except BaseException as e:  # noqa: BLE001
					caught = e
				cases.append(({'kind': 'first-ok' if a is None else ('retried' if issubclass(a, PermissionError) else 'not-retried')},
					['\t'.join(['wflush', 'ok', _tok(ea), _tok(eb)])], [outcome_of(caught)]))
	finally:
		wmod.time.sleep = old_sleep
	st = common.correspond('errors-writer', cases, 'errors', classify=lambda d: d['kind'])
	st.note = 'the real Writer.flush over a scripted _flush: every exception class on the first attempt × (ok / PermissionError / KeyError / the same class) on the second; escaped class vs `writerFlush` (retry table derived from the generated audit)'
	return st


# ---------------------------------------------------------------------------------------------
# stream errors-loop: the real Interactive.run with a scripted tty


class _Exhausted(BaseException):
	pass


class _BadStr:
	def __init__(self, exc: BaseException) -> None:
		self.exc = exc

	def __repr__(self) -> str:
		return f'<unprintable {type(self.exc).__name__}>'

	def __str__(self) -> str:
		raise self.exc


class LoopRig:
	"""The real bin/transpile.py Interactive on a real TranspileApp DI container, driven by a scripted tty."""

	def __init__(self, ctx: Ctx, cache_dir: str | None = None) -> None:
		import rogw.tranp.bin.transpile as tr
		from rogw.tranp.app.app import App
		from rogw.tranp.cache.cache import CacheSetting
		from rogw.tranp.lang.locator import Locator
		from rogw.tranp.lang.module import to_fullyname
		self.tr = tr
		root = ctx.tmpdir()
		cfg = os.path.join(root, 'config.yml')
		repo = common.REPO
		with open(cfg, 'w', encoding='utf-8') as f:
			f.write('\n'.join([
				f'grammar: {repo}/data/grammar.lark',
				'template_dirs:', f'  - {repo}/data/cpp/template',
				f'trans_mapping: {repo}/data/i18n.yml',
				'input_globs:', f'  - {repo}/example/json.py',  # never loaded by Interactive; the list only has to be non-empty
				'output_dirs:', f'  - {root}/out/',
				'output_language: cpp:h',
				'exclude_patterns: []',
				'env:', '  transpiler: {}', '  view:', '    immutable_param_types: []', '',
			]))
		defs = tr.TranspileApp.definitions(tr.Args(['-c', cfg, '-it']))
		# `cache_dir`: several rigs may share one cache directory (grammar and library caches are then warm; `__main__` is never cached)
		defs[to_fullyname(CacheSetting)] = lambda: CacheSetting(basedir=cache_dir or os.path.join(root, 'cache'))
		self.inter = tr.Interactive(App(defs).resolve(Locator))
		self.real_transpiler = self.inter.transpiler
		rig = self

		class Stub:
			"""replaces the transpiler for scripted outcomes (Interactive.transpiler is a public attribute)"""

			def __init__(self) -> None:
				self.plan: list[Any] = []

			def transpile(self, entrypoint: Any) -> str:
				v = self.plan.pop(0)
				if isinstance(v, BaseException):
					raise v
				return 'ok'

		self.stub = Stub()
		self.last_exc: BaseException | None = None
		_ = rig

	def run_script(self, script: list[tuple[str, Any]]) -> str:
		"""script items: ('exit',) | ('interrupt',) | ('stub', exc|None) | ('src', text) → '<running|quit|died X> <inputs consumed>'"""
		tr, inter, stub = self.tr, self.inter, self.stub
		feed = list(script)
		consumed = [0]

		def fake_tty(prompt: str = '') -> list[str]:
			self._mark()
			while feed and feed[0][0] == 'write':  # ('write', path relative to the cwd, text): the user edits a file between two prompts
				_, rel, text = feed.pop(0)
				os.makedirs(os.path.dirname(os.path.abspath(rel)), exist_ok=True)
				with open(rel, 'wb') as f:
					f.write(text.encode('utf-8'))
			if not feed:
				raise _Exhausted()
			item = feed.pop(0)
			consumed[0] += 1
			if item[0] == 'exit':
				return ['exit']
			if item[0] == 'interrupt':
				raise KeyboardInterrupt()
			if item[0] == 'ttyraise':  # tty()/readline itself raises
				raise item[1]
			if item[0] == 'stub':
				inter.transpiler = stub
				stub.plan = [item[1]]
				return ['pass']
			if item[0] == 'req':  # ('req', lines, exc|None): the request as a list of lines with a scripted transpile outcome
				inter.transpiler = stub
				stub.plan = [item[2]]
				return list(item[1])
			inter.transpiler = self.real_transpiler
			if item[0] == 'lines':  # a request exactly as tty() hands it over: a list of lines, possibly EMPTY
				return list(item[1])
			return item[1].split('\n')

		old = tr.tty
		tr.tty = fake_tty  # type: ignore[assignment]
		try:
			status = self._run(len(script))
		finally:
			tr.tty = old  # type: ignore[assignment]
		return f'{status} {consumed[0]}'

	def _mark(self) -> None:
		"""called at every tty() call: what was printed since the previous call is the output of the previous request"""
		self._marks.append(len(self._buf.getvalue()))

	def turn_outputs(self) -> list[str]:
		"""what the last session printed for each request (in order of the tty() calls that handed them over)"""
		text = self._buf.getvalue()
		cuts = [*self._marks, len(text)]
		return [text[cuts[i]:cuts[i + 1]] for i in range(len(self._marks))]

	def _run(self, n_budget: int) -> str:
		self.last_exc = None
		self._buf = io.StringIO()
		self._marks: list[int] = []
		try:
			with contextlib.redirect_stdout(self._buf), pl.budget(cpu_s=pl.CAP_S * max(1, n_budget)):
				self.inter.run()
			return 'quit'
		except _Exhausted:
			return 'running'
		except pl.WallCap as e:
			self.last_exc = e
			return 'timeout'
		except BaseException as e:  # noqa: BLE001
			self.last_exc = e
			return f'died {display(type(e))}'

	def run_keys(self, keys: list[str], transpiler: Any = None, strip: bool = True) -> str:
		"""The real tty() too: only bin/io.readline (the bash helper that reads ONE line from the terminal) is scripted; `keys` is what the
		user types line by line ('' = the bare Enter that submits a request) → '<running|quit|died X> <requests started> <keys consumed>'"""
		import rogw.tranp.bin.io as tio
		tr, inter = self.tr, self.inter
		feed = list(keys)
		used = [0, 0]

		def fake_readline(prompt: str = '') -> str:
			if not feed:
				raise _Exhausted()
			used[1] += 1
			k = feed.pop(0)
			return k.rstrip() if strip else k  # readline() strips what the helper printed (io.py:22)

		real_tty = tio.tty

		def counting_tty(prompt: str = '') -> list[str]:
			self._mark()
			used[0] += 1
			return real_tty(prompt)

		inter.transpiler = transpiler or self.real_transpiler
		old_tty, old_rl = tr.tty, tio.readline
		tr.tty, tio.readline = counting_tty, fake_readline  # type: ignore[assignment]
		try:
			status = self._run(len(keys))
		finally:
			tr.tty, tio.readline = old_tty, old_rl  # type: ignore[assignment]
		return f'{status} {used[0]} {used[1]}'


def stream_loop(ctx: Ctx) -> Stream:
	rng = ctx.sub_rng('loop')
	rig = LoopRig(ctx)
	run_script, run_keys = rig.run_script, rig.run_keys
	classes = exception_classes()
	Errors = _errors()

	def render_of(exc: BaseException | None) -> str:
		"""what `print(ErrorRender(e))` does for a scripted exception: observed on ErrorRender itself (the loop model takes it as input)"""
		from rogw.tranp.view.error_render import ErrorRender
		if exc is None or not isinstance(exc, Errors.Error):
			return 'ok'
		try:
			try:
				raise exc
			except BaseException as e:  # noqa: BLE001
				str(ErrorRender(e))  # type: ignore[arg-type]
			return 'ok'
		except BaseException as e2:  # noqa: BLE001
			return exc_spec(e2)
		finally:
			exc.__traceback__ = None

	cases = []

	def add(kind: str, script: list[tuple[str, Any]], model_inputs: list[str]) -> None:
		real = run_script(script)
		cases.append(({'kind': kind}, ['\t'.join(['loop', *model_inputs])], [real]))

	def stub_item(exc: BaseException | None) -> tuple[tuple[str, Any], str]:
		if exc is None:
			return ('stub', None), 'code|ok|ok'
		return ('stub', exc), f'code|{exc_spec(exc)}|{render_of(exc)}'

	# every class alone, then followed by an ok step and exit
	for cls in classes:
		for arg0 in ('none', 'other'):
			exc = make_exception(cls, arg0, None)
			if exc is None:
				continue
			it, tok = stub_item(exc)
			ok_it, ok_tok = stub_item(None)
			add('class', [it, ok_it, ('exit',)], [tok, ok_tok, 'exit'])
	# render failures: an Errors.Error whose argument cannot be printed
	for inner in (KeyError('k'), KeyboardInterrupt(), Errors.Logic('x'), RecursionError()):
		exc = Errors.Fatal(_BadStr(inner))
		it, tok = stub_item(exc)
		ok_it, ok_tok = stub_item(None)
		add('render-fails', [it, ok_it], [tok, ok_tok])
	add('interrupt', [stub_item(None)[0], ('interrupt',), stub_item(None)[0]], ['code|ok|ok', 'interrupt', 'code|ok|ok'])
	# one turn with a scripted `modules` (Interactive.modules is a public attribute): unload / load / transpile stages raise on request
	class StubModules:
		def __init__(self) -> None:
			self.on_unload: BaseException | None = None
			self.on_load: BaseException | None = None

		def unload(self, module_path: str) -> None:
			if self.on_unload is not None:
				raise self.on_unload

		def load(self, module_path: str, language: str = 'py') -> Any:
			if self.on_load is not None:
				raise self.on_load

			class _M:
				entrypoint = None
			return _M()

	real_modules = rig.inter.modules
	sm = StubModules()
	rig.inter.modules = sm
	try:
		for cls in classes:
			exc = make_exception(cls, 'other', None) or make_exception(cls, 'none', None)
			if exc is None:
				continue
			for stage in ('unload', 'load', 'transpile'):
				sm.on_unload = exc if stage == 'unload' else None
				sm.on_load = exc if stage == 'load' else None
				item = ('stub', exc if stage == 'transpile' else None)
				real = run_script([item]).split(' ')
				real_status = ' '.join(real[:-1])
				toks = ['ok', 'ok', 'ok']
				toks[('unload', 'load', 'transpile').index(stage)] = exc_spec(exc)
				cases.append(({'kind': f'turn-{stage}'}, ['\t'.join(['turn', *toks, render_of(exc)])], [real_status]))
		# the request boundary: what tty() hands over is a LIST of lines (possibly empty); the quit test of the model is generated from the source
		sm.on_unload = sm.on_load = None
		words = ['exit', 'exit', '', 'a = 1', 'exit ', ' exit', 'Exit', 'x', 'exit\u3000', '終了']

		def lines_tok(ls: list[str]) -> str:
			return ','.join(common.hx(x) for x in ls) if ls else '~'

		def req_item(ls: list[str], exc: BaseException | None) -> tuple[tuple[str, Any, Any], str]:
			return ('req', ls, exc), 'req|' + lines_tok(ls) + '|' + stub_item(exc)[1].split('|', 1)[1]

		boundary = [[], [''], ['exit'], ['exit', 'a = 1'], ['a = 1', 'exit'], ['exit '], [' exit'], ['Exit'], ['exit', 'exit'], ['', 'exit'], ['exit', ''], ['x'] * 400, ['exit'] + ['x'] * 400]
		for ls in boundary:
			for exc in (None, Errors.Syntax('s'), KeyError('k')):
				it, tok = req_item(ls, exc)
				ok_it, ok_tok = req_item(['b = 2'], None)
				cases.append(({'kind': 'request-boundary'}, ['\t'.join(['loopreq', tok, ok_tok])], [run_script([it, ok_it])]))
		_dl_loop_requests = _deadline(ctx, 'loop-requests', ctx.scale(30, 200))
		for exc in (UnicodeDecodeError('utf-8', b'a = 1\xff', 5, 6, 'invalid start byte'), Errors.Syntax('s'), OSError('bash'), KeyboardInterrupt()):
			ok_it, ok_tok = req_item(['b = 2'], None)
			cases.append(({'kind': 'tty-raises'}, ['\t'.join(['loopreq', ok_tok, 'raise|' + exc_spec(exc), ok_tok])], [run_script([ok_it, ('ttyraise', exc), ok_it])]))
		for _ in range(ctx.scale(60, 400)):
			if _dl_loop_requests.over():
				continue
			script, toks = [], []
			for _i in range(rng.randint(1, 4)):
				if rng.random() < 0.1:
					script.append(('interrupt',))
					toks.append('interrupt')
					continue
				if rng.random() < 0.1:
					exc = make_exception(rng.choice(classes), rng.choice(['none', 'other']), None)
					if exc is not None:
						script.append(('ttyraise', exc))
						toks.append('raise|' + exc_spec(exc))
						continue
				ls = [rng.choice(words) for _j in range(rng.choice([0, 0, 1, 1, 1, 2, 2, 3]))]
				exc = make_exception(rng.choice(classes), rng.choice(['none', 'other']), None) if rng.random() < 0.4 else None
				it, tok = req_item(ls, exc)
				script.append(it)
				toks.append(tok)
			cases.append(({'kind': 'request-random'}, ['\t'.join(['loopreq', *toks])], [run_script(script)]))
		# the real tty() on a scripted readline (raw results: the model has no rstrip — that is readline's)
		import rogw.tranp.bin.io as tio

		def real_tty(keys: list[str]) -> str:
			feed = list(keys)

			def fake_readline(prompt: str = '') -> str:
				if not feed:
					raise _Exhausted()
				return feed.pop(0)

			old_rl = tio.readline
			tio.readline = fake_readline  # type: ignore[assignment]
			try:
				with contextlib.redirect_stdout(io.StringIO()), pl.budget():
					got = tio.tty('p')
				return f'req {lines_tok(got)} {len(feed)}' if isinstance(got, list) and all(isinstance(x, str) for x in got) else f'unexpected {type(got).__name__}'
			except _Exhausted:
				return 'waiting'
			except pl.WallCap:
				return 'timeout'
			except BaseException as e:  # noqa: BLE001
				return f'raise {display(type(e))}'
			finally:
				tio.readline = old_rl  # type: ignore[assignment]

		for keys in ([], [''], ['exit'], ['a', ''], ['a', 'exit', 'b', ''], ['', ''], ['a'], ['exit ', ''], [' ', ''], ['a', 'b', 'c', '', 'd'], ['x'] * 300 + [''], ['a', 'exit']):
			cases.append(({'kind': 'tty-boundary'}, ['\t'.join(['tty', *[common.hx(k) for k in keys]])], [real_tty(keys)]))
		for _ in range(ctx.scale(60, 400)):
			if _dl_loop_requests.over():
				continue
			keys = [rng.choice(words) for _j in range(rng.randint(0, 6))]
			cases.append(({'kind': 'tty-random'}, ['\t'.join(['tty', *[common.hx(k) for k in keys]])], [real_tty(keys)]))
		# whole keyboard sessions: real tty() + real Interactive.run, the transpile outcome scripted per request text
		class ByText:
			def __init__(self) -> None:
				self.table: dict[str, BaseException | None] = {}

			def transpile(self, entrypoint: Any) -> str:
				exc = self.table.get(rig.inter.source_provider.source_code)
				if exc is not None:
					raise exc
				return 'ok'

		by_text = ByText()
		for n_case in range(ctx.scale(40, 300)):
			if _dl_loop_requests.over():
				continue
			keys = [rng.choice(words + ['', '']) for _j in range(rng.randint(0, 9))]
			if n_case == 0:
				keys = ['', 'a = 1', '', '', 'x', 'exit', 'b']
			# the requests an independent reading of the transcript finds (blank submits, the quit line quits); each gets a scripted outcome
			reqs, cur = [], []
			for k in keys:
				if k == '':
					reqs.append(cur)
					cur = []
				elif k == 'exit':
					break
				else:
					cur.append(k)
			by_text.table = {}
			entries = []
			for r in reqs:
				text = '\n'.join(r)
				if text not in by_text.table:
					exc = make_exception(rng.choice(classes), rng.choice(['none', 'other']), None) if rng.random() < 0.35 else None
					by_text.table[text] = exc
					entries.append(lines_tok(r) + '|' + stub_item(exc)[1].split('|', 1)[1])
			real = run_keys(keys, transpiler=by_text, strip=False).rsplit(' ', 1)[0]
			cases.append(({'kind': 'keys-session'}, ['\t'.join(['keys', str(len(entries)), *entries, *[common.hx(k) for k in keys]])], [real]))
	finally:
		sm.on_unload = sm.on_load = None
		rig.inter.modules = real_modules
	# real sources through the real pipeline: the model input is the outcome observed on a separate run of the same pipeline
	probe = pl.Pipeline('in-memory', ctx.tmpdir())
	real_sources = ['a: int = 1', 'def f(x: int) -> int:\n\treturn x', 'x = y', 'a = = 1', 'def f(:', 'a = $', 'if a:\n        x = 1\n    y = 2',
		'from nowhere.nothing import X', 'class A:\n\tdef f(self) -> int:\n\t\treturn self.z', 'def f() -> None:\n\tfor i in 3:\n\t\tpass']

	def src_item(src: str) -> tuple[tuple[str, Any], str]:
		o = probe.run(src + '\n')
		if o.kind == 'ok':
			return ('src', src), 'code|ok|ok'
		if o.kind == 'error':
			return ('src', src), f"code|node E {o.cls.split('.')[-1]}|ok"
		# an escape: name the class by introspection of the real class object
		parts = o.cls.split('.')
		obj: Any = builtins if len(parts) == 1 else __import__('.'.join(parts[:-1]), fromlist=[parts[-1]])
		cls = getattr(obj, parts[-1])
		return ('src', src), f'code|other {cls_spec(cls)}|ok'

	_dl_loop_mixed = _deadline(ctx, 'loop-mixed', ctx.scale(40, 300))
	for _ in range(ctx.scale(12, 80)):
		if _dl_loop_mixed.over():
			continue
		k = rng.randint(1, 5)
		script, toks = [], []
		for _i in range(k):
			if rng.random() < 0.6:
				it, tok = src_item(rng.choice(real_sources))
			else:
				exc = make_exception(rng.choice(classes), rng.choice(['none', 'other']), None) if rng.random() < 0.7 else None
				it, tok = stub_item(exc)
			script.append(it)
			toks.append(tok)
		if rng.random() < 0.5:
			script.append(('exit',))
			toks.append('exit')
		add('mixed', script, toks)
	probe.close()
	st = common.correspond('errors-loop', cases, 'errors', classify=lambda d: d['kind'])
	st.note = ('the real Interactive.run driven by a scripted tty (bin/transpile.tty patched in the harness process, no repo change): every exception class raised '
		'by a stub transpiler, unprintable error arguments (render failure), KeyboardInterrupt at the prompt, requests as LISTS of lines incl. the empty list and lists around the quit command (`loopreq`, generated quit test), the real tty() on a scripted readline (`tty`), whole keyboard sessions through real tty() + real Interactive.run (`keys`), and real sources through the real pipeline '
		'(valid, Errors.*, unparsable in-memory → raw lark exception, missing import); status + number of inputs consumed vs model')
	return st


# ---------------------------------------------------------------------------------------------
# stream errors-render: ErrorRender.__build_message / __build_quotation / Quotation


def stream_render(ctx: Ctx) -> Stream:
	from rogw.tranp.view.error_render import ErrorRender
	rng = ctx.sub_rng('render')
	FakeNode = _fake_node_base()
	Errors = _errors()
	root = ctx.tmpdir()
	cases = []

	class TextObj:
		def __init__(self, text: str) -> None:
			self.text = text

		def __str__(self) -> str:
			return self.text

	words = ['', 'a', 'x y', 'tab\there', 'q"uote', 'ünï', '日本', 'line\nbreak', '{}', '%s']
	_dl_render_msg = _deadline(ctx, 'render-msg', ctx.scale(30, 300))
	for _ in range(ctx.scale(120, 1500)):
		if _dl_render_msg.over():
			continue
		args: list[Any] = []
		toks = []
		for _a in range(rng.randint(0, 4)):
			r = rng.random()
			if r < 0.45:
				s = rng.choice(words)
				args.append(s)
				toks.append(f's:{hx(s)}')
			elif r < 0.65:
				v = rng.randint(-5, 1000)
				args.append(v)
				toks.append(f'o:{hx(str(v))}')
			elif r < 0.9:
				s = rng.choice(words)
				args.append(TextObj(s))
				toks.append(f'o:{hx(s)}')
			else:
				inner = rng.choice([KeyError('k'), IndexError('i'), Errors.Logic('l'), AttributeError('a'), KeyboardInterrupt(), user_class('MyBase', (BaseException,))('b')])
				bad = _BadStr(inner)
				args.append(bad)
				toks.append(f'x:{hx(repr(bad))}:{exc_spec(inner)}')
		e = rng.choice([Errors.Fatal, Errors.Logic, KeyError, Errors.Syntax])(*args)
		try:
			with pl.budget():
				real = 'ok ' + hx(ErrorRender(e)._ErrorRender__build_message())
		except BaseException as e2:  # noqa: BLE001
			real = f'raise {display(type(e2))}'
		cases.append(({'kind': 'msg'}, ['\t'.join(['msg', *toks])], [real]))

	# quotations: cwd = a temp project (the builder resolves `module_path -> file` relative to the cwd)
	class QNode(FakeNode):  # type: ignore[misc,valid-type]
		def __init__(self, module_path: str, sm: tuple[int, int, int, int]) -> None:
			super().__init__('q')
			self._mp = module_path
			self._sm = sm

		@property
		def module_path(self) -> str:
			return self._mp

		@property
		def source_map(self) -> Any:
			return {'begin': (self._sm[0], self._sm[1]), 'end': (self._sm[2], self._sm[3])}

	os.makedirs(os.path.join(root, 'qz'))
	line_pool = ['x = y', '\tz = 1', '\t\tdeep = [1, 2]', '', 'ünï = "日本"', '# c', 'def f() -> None:', '\tpass', 'a\tb\tc']
	old_cwd = os.getcwd()
	os.chdir(root)
	try:
		_dl_render_quote = _deadline(ctx, 'render-quote', ctx.scale(30, 300))
		for i in range(ctx.scale(150, 2000)):
			if _dl_render_quote.over():
				continue
			nlines = rng.choice([0, 1, 1, 2, 3, 5, 8])
			ls = [rng.choice(line_pool) for _ in range(nlines)]
			content = '\n'.join(ls) + ('\n' if ls and rng.random() < 0.8 else '')
			exists = rng.random() < 0.9
			name = f'q{i % 7}'  # a handful of paths, rewritten (or removed) again and again: the quotation reads the file as it is NOW
			path = os.path.join('qz', f'{name}.py')
			if exists:
				with open(os.path.join(root, path), 'wb') as f:
					f.write(content.encode('utf-8'))
			elif os.path.exists(os.path.join(root, path)):
				os.remove(os.path.join(root, path))
			raw_lines = [ln.decode('utf-8') for ln in content.encode('utf-8').splitlines(keepends=True)] if exists else []
			# readlines() of a binary file splits on b'\n' only
			raw_lines = [ln.decode('utf-8') for ln in io.BytesIO(content.encode('utf-8')).readlines()] if exists else []
			nl = max(1, len(raw_lines))
			bl = rng.choice([rng.randint(1, nl), rng.randint(1, nl), rng.randint(0, nl + 2), rng.randint(-2, nl + 3)])
			el = bl if rng.random() < 0.6 else bl + rng.randint(0, 3)
			bc = rng.randint(0, 12)
			ec = bc + rng.randint(-2, 10)
			arg0kind = rng.choice(['node', 'node', 'node', 'other', 'none'])
			node = QNode(f'qz.{name}', (bl, bc, el, ec))
			e = Errors.Logic(*([node, 'm'] if arg0kind == 'node' else (['m'] if arg0kind == 'other' else [])))
			try:
				with pl.budget():
					out = ErrorRender(e)._ErrorRender__build_quotation()
				real = 'ok' if not out else 'ok ' + '|'.join(hx(x) for x in out)
			except BaseException as e2:  # noqa: BLE001
				real = f'raise {display(type(e2))}'
			op = '\t'.join(['quote', arg0kind, '1' if exists else '0', hx(path), str(bl), str(bc), str(el), str(ec), *[hx(x) for x in raw_lines]])
			cases.append(({'kind': 'quote-in-range' if 1 <= bl <= len(raw_lines) else 'quote-out-of-range'}, [op], [real]))
	finally:
		os.chdir(old_cwd)
	st = common.correspond('errors-render', cases, 'errors', classify=lambda d: d['kind'])
	st.note = ('ErrorRender.__build_message on argument lists (str incl. non-ASCII, int, objects, objects whose __str__ raises) and '
		'ErrorRender.__build_quotation/Quotation.build on temp files (0..8 lines, tabs, non-ASCII, missing trailing newline, missing file) with source maps '
		'inside and outside the file; rendered text / raised class vs model')
	return st


# ---------------------------------------------------------------------------------------------
# stream errors-trace: ErrorRender.__build_stacktrace and the whole render()


def _trace_entries(e: BaseException) -> list[str]:
	"""protocol tokens for `traceback.format_exception(...)` (what rogw.tranp.lang.error.stacktrace returns) + the frame regexp's hits"""
	import re
	import traceback
	pattern = re.compile(r'File "([^"]+)", line (\d+), in ([\w\d]+)')  # the pattern of error_render.py:33 (CPython's engine does the matching)
	toks = []
	for t in traceback.format_exception(type(e), e, e.__traceback__):
		m = pattern.search(t)
		toks.append(f"{hx(t)}|{','.join(hx(x) for x in m.group(1, 2, 3)) if m else '-'}")
	return toks


def trace_exceptions(ctx: Ctx, rng: random.Random, n_pipeline: int) -> list[tuple[str, BaseException]]:
	"""Exceptions with very different tracebacks: frames outside tranp, chains, code without a source file, undecodable source lines,
	repeated frames, never raised, tranp errors from the real pipeline."""
	Errors = _errors()
	out: list[tuple[str, BaseException]] = []

	def caught(f: Any) -> BaseException:
		try:
			f()
		except BaseException as e:  # noqa: BLE001
			return e
		raise AssertionError('did not raise')

	def plain() -> None:
		raise Errors.Logic('m', 1)

	def chained() -> None:
		try:
			{}['k']
		except KeyError as e:
			raise Errors.Fatal('x', e) from e

	def context() -> None:
		try:
			[][0]
		except IndexError:
			raise Errors.Never('during handling')

	def chain3() -> None:
		try:
			chained()
		except Errors.Error as e:
			raise Errors.Syntax('p.py', e) from e

	def deep(n: int = 0) -> None:
		deep(n + 1)

	def no_source() -> None:
		exec(compile('def g():\n\traise ValueError("v")\ng()\n', '<string>', 'exec'), {})

	def missing_file() -> None:
		exec(compile('\n\nraise KeyError("gone")\n', os.path.join(ctx.tmpdir(), 'does_not_exist.py'), 'exec'), {})

	def bad_utf8() -> None:
		d = ctx.tmpdir()
		path = os.path.join(d, 'latin.py')
		with open(path, 'wb') as f:
			f.write(b'x = 1\nraise RuntimeError("caf\xe9")  # \xe9\xff\n')
		with open(path, 'rb') as f:
			code = f.read().decode('latin-1')
		exec(compile(code, path, 'exec'), {})

	def with_note() -> None:
		e = Errors.Logic('noted')
		e.add_note('a note\nin two lines')
		raise e

	def syntax_error() -> None:
		compile('a = = 1\n', 'bad.py', 'exec')

	for name, f in [('plain', plain), ('chained', chained), ('context', context), ('chain3', chain3), ('recursion', deep), ('no-source', no_source),
			('missing-file', missing_file), ('bad-utf8', bad_utf8), ('note', with_note), ('syntax-error', syntax_error)]:
		out.append((name, caught(f)))
	out.append(('never-raised', Errors.Logic('never raised')))
	out.append(('never-raised', KeyError('never raised')))
	# tranp's own errors through the real pipeline (frames inside rogw/tranp: the root directory is cut off)
	pipe = pl.Pipeline('in-memory', ctx.tmpdir())
	srcs = ['x = y\n', 'a = = 1\n', 'class A:\n\tdef f(self) -> int:\n\t\treturn self.z\n', 'a, b = 1\n', 'x = x\n'] + [rng.choice(gen.ILL_TYPED_TEMPLATES) for _ in range(n_pipeline)]
	for src in srcs:
		try:
			pipe._load_and_transpile(src)
		except Exception as e:  # noqa: BLE001
			out.append(('pipeline', e))
	pipe.close()
	return out


def stream_trace(ctx: Ctx) -> Stream:
	from rogw.tranp.view.error_render import ErrorRender
	rng = ctx.sub_rng('trace')
	cases = []
	root = f'{os.getcwd()}{os.path.sep}'
	for name, e in trace_exceptions(ctx, rng, ctx.scale(25, 250)):
		entries = _trace_entries(e)
		r = ErrorRender(e)  # type: ignore[arg-type]
		try:
			with pl.budget():
				real = 'ok ' + '|'.join(hx(x) for x in r._ErrorRender__build_stacktrace())
		except BaseException as e2:  # noqa: BLE001
			real = f'raise {display(type(e2))}'
		ops = ['\t'.join(['strace', hx(root), *entries])]
		reals = [real]
		# the whole render(): quotation observed on the real builder, arguments as far as the protocol can carry them
		arg_toks = []
		for a in e.args:
			if isinstance(a, str):
				arg_toks.append(f's:{hx(a)}')
			else:
				try:
					arg_toks.append(f'o:{hx(str(a))}')
				except BaseException as e3:  # noqa: BLE001
					arg_toks.append(f'x:{hx(repr(a))}:{exc_spec(e3)}')
		try:
			q = r._ErrorRender__build_quotation()
			qtok = 'ok' if not q else 'ok ' + '|'.join(hx(x) for x in q)
		except BaseException as e4:  # noqa: BLE001
			qtok = f'x:{exc_spec(e4)}'
		qual = f'{type(e).__module__}.{type(e).__qualname__}'
		ops.append('\t'.join(['render', hx(root), hx(qual), qtok, str(len(entries)), *entries, *arg_toks]))
		try:
			with pl.budget():
				reals.append('ok ' + hx(str(r)))
		except BaseException as e5:  # noqa: BLE001
			reals.append(f'raise {display(type(e5))}')
		cases.append(({'kind': name}, ops, reals))
	st = common.correspond('errors-trace', cases, 'errors', classify=lambda d: d['kind'])
	st.note = ('ErrorRender.__build_stacktrace and str(ErrorRender(e)) on exceptions raised in the harness (frames outside tranp), explicit and implicit chains, code without '
		'a source file, a missing source file, an undecodable source line, 1000 repeated frames, notes, SyntaxError, never-raised exceptions (1-entry trace → IndexError) and '
		'tranp errors from the real pipeline; the model gets traceback.format_exception\'s entries and the frame regexp\'s hits as input')
	return st


# ---------------------------------------------------------------------------------------------
# stream errors-main: the real `python -m rogw.tranp.bin.transpile` batch run (Runner under the `__main__` guard)


def stream_main(ctx: Ctx) -> Stream:
	import re
	import runpy
	import sys
	from harness import c07_stubs
	Errors = _errors()
	repo = common.REPO
	root = ctx.tmpdir()
	os.makedirs(os.path.join(root, 'bz'))
	sources = {'t1': 'a: int = 1\n', 't2': 'b: int = 2\n', 't3': 'c = = 3\n', 't4': 'd: int = 4\n'}
	for n, src in sources.items():
		with open(os.path.join(root, 'bz', f'{n}.py'), 'w', encoding='utf-8') as f:
			f.write(src)
	os.environ['C07_CACHE_DIR'] = os.path.join(root, 'cache')

	def config(targets: list[str]) -> str:
		cfg = os.path.join(root, 'config.yml')
		with open(cfg, 'w', encoding='utf-8') as f:
			f.write('\n'.join([
				f'grammar: {repo}/data/grammar.lark', 'template_dirs:', f'  - {repo}/data/cpp/template', f'trans_mapping: {repo}/data/i18n.yml',
				'input_globs:', *[f'  - bz/{t}.py' for t in targets], 'output_dirs:', f'  - {root}/out/', 'output_language: cpp:h', 'exclude_patterns: []',
				'di:', '  rogw.tranp.transpiler.types.ITranspiler: harness.c07_stubs.StubTranspiler', '  rogw.tranp.cache.cache.CacheSetting: harness.c07_stubs.cache_setting',
				'env:', '  transpiler: {}', '  view:', '    immutable_param_types: []', '']))
		return cfg

	classes = exception_classes()
	by_qual = {f'{c.__module__}.{c.__qualname__}': c for c in classes}

	def run(targets: list[str], plan: dict[str, BaseException]) -> str:
		import shutil
		shutil.rmtree(os.path.join(root, 'out'), ignore_errors=True)
		os.makedirs(os.path.join(root, 'out'))
		c07_stubs.PLAN.clear()
		c07_stubs.PLAN.update({f'bz.{k}': v for k, v in plan.items()})
		out = io.StringIO()
		argv, cwd = sys.argv, os.getcwd()
		sys.argv = ['transpile.py', '-c', config(targets), '-f']
		os.chdir(root)
		try:
			with contextlib.redirect_stdout(out), warnings.catch_warnings(), pl.budget(cpu_s=3 * pl.CAP_S):
				warnings.simplefilter('ignore', RuntimeWarning)  # runpy notes that the module is already imported (stream errors-loop)
				runpy.run_module('rogw.tranp.bin.transpile', run_name='__main__', alter_sys=True)
			text = out.getvalue()
			if 'Stacktrace:' in text:
				m = re.findall(r'\n([\w.<>]+): \(', text)
				cls = by_qual.get(m[-1]) if m else None
				return f'reported {display(cls) if cls is not None else (m[-1] if m else "?")}'
			written = sum(len(fs) for _, _, fs in os.walk(os.path.join(root, 'out')))
			return f'done {written}'
		except BaseException as e:  # noqa: BLE001
			return f'crashed {display(type(e))}'
		finally:
			sys.argv = argv
			os.chdir(cwd)

	def tok(targets: list[str], plan: dict[str, BaseException]) -> list[str]:
		out = []
		for t in targets:
			load = 'ok' if t != 't3' else 'other E Syntax'
			tr = exc_spec(plan[t]) if t in plan else 'ok'
			out.append(f'{load}|{tr}|ok')
		return out

	rng = ctx.sub_rng('main')
	cases = []
	plans: list[tuple[str, list[str], dict[str, BaseException]]] = [('all-ok', ['t1', 't2', 't4'], {}), ('unparsable-target', ['t1', 't3', 't2'], {}), ('unparsable-first', ['t3', 't1'], {})]
	picked = classes if ctx.thorough else [c for c in classes if c in (Errors.Logic, KeyError, TypeError, RecursionError, Exception, KeyboardInterrupt, SystemExit)] + classes[-2:]
	for cls in picked:
		exc = make_exception(cls, 'other', None) or make_exception(cls, 'none', None)
		if exc is None:
			continue
		plans.append(('transpile-raises', ['t1', 't2', 't4'], {rng.choice(['t1', 't2', 't4']): exc}))
	plans.append(('render-fails', ['t1', 't2'], {'t2': Errors.Fatal(_BadStr(KeyboardInterrupt()))}))
	plans.append(('render-falls-back', ['t1', 't2'], {'t2': Errors.Fatal(_BadStr(KeyError('k')))}))
	for kind, targets, plan in plans:
		render = 'ok'
		for exc in plan.values():
			for a in exc.args:
				if isinstance(a, _BadStr):
					try:
						from rogw.tranp.view.error_render import ErrorRender
						ErrorRender(exc)._ErrorRender__build_message()  # type: ignore[arg-type]
					except BaseException as e:  # noqa: BLE001
						render = exc_spec(e)
		real = run(targets, plan)
		cases.append(({'kind': kind}, ['\t'.join(['main', render, *tok(targets, plan)])], [real]))
	st = common.correspond('errors-main', cases, 'errors', classify=lambda d: d['kind'])
	st.note = ('the real batch entry `runpy.run_module("rogw.tranp.bin.transpile", run_name="__main__")` on a temp project (config.yml, 2-3 on-disk targets, one unparsable) with a '
		'stub ITranspiler bound through the config\'s `di:` section raising each exception class at one target: files written / error printed / exception leaving the process vs '
		'`mainRun` (generated `mainCatch`)')
	return st


# ---------------------------------------------------------------------------------------------
# search: the fuzz oracle on the real pipeline

F3_WITNESS = 'a = = 1\n'
# (mode or 'both', text): moderately deep inputs that must simply work, and inputs deeper than CPython's recursion limit allows the
# recursive tree walks to follow (RecursionError is an Exception like any other: the property wants an Errors.Error)
DEEP_NESTING: list[tuple[str, str]] = [
	('both', 'x = ' + '(' * 400 + '1' + ')' * 400 + '\n'),
	('both', 'x = ' + '[' * 300 + ']' * 300 + '\n'),
	('both', 'x = ' + '-' * 600 + '1\n'),
	('both', 'x = 1' + ' + 1' * 1500 + '\n'),
	('both', 'x = ' + '(' * 2000 + '1' + ')' * 2000 + '\n'),
	('on-disk', ''.join('\t' * i + 'if True:\n' for i in range(300)) + '\t' * 300 + 'pass\n'),
]


def _as_text(data: str | bytes) -> str:
	return data if isinstance(data, str) else data.decode('utf-8', errors='replace')


def _replay_payload(mode: str, data: str | bytes, o: pl.Outcome) -> dict[str, Any]:
	return {
		'mode': mode,
		'source': _as_text(data),
		'source_hex': data.hex() if isinstance(data, bytes) else None,
		'outcome': o.kind, 'class': o.cls, 'message': o.message, 'tranp_frames': o.frames,
		'render': o.render, 'render_message': o.render_message,
	}


def minimise(p: pl.Pipeline, data: str | bytes, key: str, budget: int = 60) -> str | bytes:
	"""Greedy line- then token-level reduction that keeps the finding key (bounded number of pipeline runs)."""
	if isinstance(data, bytes):
		try:
			text = data.decode('utf-8')
		except UnicodeDecodeError:
			return data
	else:
		text = data
	runs = [0]

	def still(t: str) -> bool:
		runs[0] += 1
		return key in p.run(t).keys()

	if not still(text):
		return data
	lines = text.split('\n')
	i = 0
	while i < len(lines) and runs[0] < budget:
		cand = lines[:i] + lines[i + 1:]
		if cand and still('\n'.join(cand)):
			lines = cand
		else:
			i += 1
	text = '\n'.join(lines)
	toks = gen.tokens_of(text)
	i = 0
	while i < len(toks) and runs[0] < budget + 40 and len(toks) < 80:
		if toks[i].strip(' ') == '':
			i += 1
			continue
		cand = toks[:i] + toks[i + 1:]
		if cand and still(''.join(cand)):
			toks = cand
		else:
			i += 1
	return ''.join(toks)


def load_fatal_baseline() -> set[str]:
	"""Sites (`<inner class>@<innermost tranp frame>`) at which an unexpected exception is known to be normalised into Errors.Fatal — the crash
	sites repaired by normalisation (8079937 / Procedure.__emit). Committed; a run only compares against it (new site = new crash site)."""
	path = os.path.join(common.CORPUS_DIR, PROP, 'fatal_sites_baseline.txt')
	if not os.path.exists(path):
		return set()
	with open(path, encoding='utf-8') as f:
		return {ln.strip() for ln in f if ln.strip() and not ln.startswith('#')}


def load_corpus() -> list[dict[str, Any]]:
	d = os.path.join(common.CORPUS_DIR, PROP)
	out = []
	if os.path.isdir(d):
		for fn in sorted(os.listdir(d)):
			if fn.endswith('.json'):
				with open(os.path.join(d, fn), encoding='utf-8') as f:
					rec = json.load(f)
				rec['_file'] = fn
				out.append(rec)
	return out


def make_syntax_oracle(pipe: pl.Pipeline) -> Any:
	"""Extra oracle of the fuzz: "unparsable text is reported as Errors.Syntax whether the module lives on disk or only in memory".
	lark itself (the grammar's parser, taken from the App of `pipe`) decides what is unparsable; undecodable bytes are unparsable too."""
	from rogw.tranp.syntax.ast.parser import SyntaxParser
	lark_parser = pipe.resolve(SyntaxParser).dirty_get_origin()

	def rejects(text: str) -> bool:
		if text == '':
			return False
		try:
			lark_parser.parse(text if text.endswith('\n') else f'{text}\n')
			return False
		except Exception:  # noqa: BLE001
			return True

	def unparsable(mode: str, data: str | bytes) -> bool:
		# multi-file input (main + imported siblings, all in the import closure by construction of gen.PROJECT_SHAPES): the load fails with
		# the first file of the closure that the grammar rejects or that is missing — "unparsable text is reported as Errors.Syntax" holds for
		# imported modules as well. Import lines only (`from … import …` + class headers) in every file but the leaf: nothing else can fail first.
		if isinstance(data, str) and '\n#%%' in data:
			parts = data.split('\n#%%')
			if any(p.startswith('MISSING ') for p in parts[1:]):
				return True
			return rejects(parts[0] + '\n') or any(rejects(p.partition('\n')[2]) for p in parts[1:] if p.startswith('FILE '))
		# the text the pipeline really handed over: an in-memory source is a str (the harness decodes mutated bytes with
		# errors='replace'), an on-disk source is the file's bytes, which tranp decodes strictly
		try:
			text = data if isinstance(data, str) else (data.decode('utf-8', errors='replace') if mode == 'in-memory' else data.decode('utf-8'))
		except UnicodeDecodeError:
			return True
		if text == '':
			return False
		try:
			lark_parser.parse(text if text.endswith('\n') else f'{text}\n')
			return False
		except Exception:  # noqa: BLE001 - any failure of the grammar's own parser
			return True

	def syntax_oracle(mode: str, data: str | bytes, o: pl.Outcome) -> None:
		if o.kind == 'error' and not o.cls.endswith('Errors.Syntax') and unparsable(mode, data):
			o.message = f'text rejected by the grammar came out as {o.cls}, not Errors.Syntax: {o.message}'[:300]
			o.key = f"unparsable-not-syntax:{o.cls.split('.')[-1]}[{mode}]"
			o.kind = 'escape'
		elif o.kind == 'ok' and unparsable(mode, data):
			# e.g. the tree of an EARLIER input of the session was transpiled instead (a history effect: confirmed with the previous input as prefix)
			o.message = 'text rejected by the grammar was loaded and transpiled without any error'
			o.key = f'unparsable-accepted[{mode}]'
			o.kind = 'escape'

	return syntax_oracle


# boundary texts (both modes): nothing at all, blanks only, comments only, line-end and control characters, byte-order marks, bytes that are
# not UTF-8, a lone continuation, unterminated strings, one very long line / name — the inputs "nobody wrote down" at the small end
BOUNDARY_TEXTS: list[str | bytes] = ['', '\n', '\n\n\n', ' ', '    ', '\t\n', '# c', '# c\n', '\ufeffa = 1\n', 'a = 1\r\n', 'a = 1\rb = 2\n', '\x0c', 'a = 1\n\x0c\nb = 2\n', '\x00', '\x1a',
	'\u2028', 'a\xa0= 1\n', 'pass', '\\\n', '\\', 'a = 1 \\', '"""', "'", ';', 'a = 1;', '...', 'a: int\n', 'if True:\n', '\tpass\n', 'a = 1\n\n\n\n   ',
	b'\xff\xfe', b'\xef\xbb\xbf', b'\xef\xbb\xbfa = 1\n', b'a = "\xe7\xb5"\n', b'\x80', 'x' * 100000 + ' = 1\n']


def fuzz_inputs(ctx: Ctx) -> list[tuple[str, str, str | bytes]]:
	"""(kind, mode, data) — deterministic per seed. The fixed part (corpus, witnesses, seeds, templates) is seed independent."""
	rng = ctx.sub_rng('fuzz')
	out: list[tuple[str, str, str | bytes]] = []
	both = ('in-memory', 'on-disk')
	for rec in load_corpus():
		if rec.get('kind') in ('cli-session', 'file-edit-session'):  # replayed by search_cli_sessions / search_session_file_edits
			continue
		data: str | bytes = bytes.fromhex(rec['source_hex']) if rec.get('source_hex') else rec['source']
		for m in ([rec['mode']] if rec.get('mode') in both else both):
			out.append(('corpus', m, data))
	for m in both:
		out.append(('witness-F3', m, F3_WITNESS))
		for b in [*BOUNDARY_TEXTS, 'a = ' + '1 + ' * ctx.scale(200, 3000) + '1\n']:  # one long line: ~1 ms per term
			out.append(('boundary', m, b))
	# the same small files as modules that are not transpile targets: the error (Errors.Fatal of the entrypoint handler) carries the ROOT node,
	# which has no parent and, for an empty file, no source position — and must be rendered like every other error
	for b in [*BOUNDARY_TEXTS[:-1], *gen.VALID_PROGRAMS[:3]]:
		out.append(('boundary-nontarget', 'on-disk-nontarget', b))
	seeds = list(gen.VALID_PROGRAMS) + [s for _, s in gen.fixture_programs()]
	chunks = [s for _, s in gen.big_fixture_chunks()]
	for m in both:
		for s in seeds:
			out.append(('seed', m, s))
	seeds = seeds + gen.SELF_IMPORT_PROGRAMS  # mutation bases of the random part
	for i, s in enumerate(chunks):
		if ctx.thorough or i % 4 == ctx.seed % 4:  # ~0.2 s each: the quick tier takes every fourth chunk (which quarter depends on the seed)
			out.append(('seed-chunk', both[i % 2], s))
	for s in gen.ILL_TYPED_TEMPLATES:
		# both modes: an on-disk load also stores the symbol table (StoreSymbols), which forces every lazy type resolution outside any
		# Procedure — the same text can be an Errors.* in memory and a raw exception on disk
		for m in both:
			out.append(('ill-typed', m, s))
	for k, (md, s) in enumerate(DEEP_NESTING):
		modes = both if md == 'both' else (md,)
		if not ctx.thorough and k < 4:
			modes = (both[k % 2],)  # the moderately deep inputs that must simply work: one mode each in the quick tier
		if not ctx.thorough and k == 4:
			modes = ('in-memory',)  # 2000 parentheses cost 1.5 s per mode
		for m in modes:
			out.append(('deep-nesting', m, s))
	# depth stress: the reported node sits 10..600 levels deep (printing it is what needs care)
	for md, s in gen.depth_cases(ctx.thorough):
		for m in (both if md == 'both' else (md,)):
			out.append(('depth-stress', m, s))
	# import chains: the unparsable / missing module sits 1..3 imports away from the main module (in memory and on disk)
	for label, text, _ in gen.project_inputs(ctx.sub_rng('projects'), ctx.scale(30, 400)):
		for m in both:
			out.append((f'project:{label}', m, text))
	# histories: a program that imports from its own module stays registered; the next input of the session unloads it
	for m in both:
		for s in gen.SELF_IMPORT_PROGRAMS:
			out.append(('self-import', m, s))
			out.append(('after-self-import', m, gen.VALID_PROGRAMS[0]))
	# ends of file (the on-disk text is parsed as written; an in-memory text always gets a final line feed): programs whose error
	# lands on a node that ends at EOF (class / function / block), with every tail
	eof_bases = [
		'class A:\n\tdef f(self) -> int:\n\t\treturn self.y\n',
		'class A:\n\tx: int = 1\n\tdef f(self) -> str:\n\t\treturn self.x.y\n',
		'def f() -> int:\n\tif True:\n\t\treturn g()\n',
		'def f(a: Unknown) -> None:\n\tfor i in range(1):\n\t\tpass\n',
		'class A(Unknown):\n\tclass B:\n\t\tdef m(self) -> None:\n\t\t\tpass\n',
		gen.VALID_PROGRAMS[1], gen.VALID_PROGRAMS[2], gen.VALID_PROGRAMS[5],
	]
	for b in (eof_bases if ctx.thorough else eof_bases[:3] + eof_bases[5:7]):
		for tail in gen.EOF_TAILS:
			out.append(('eof-tail', 'on-disk', gen.with_tail(b, tail)))
	for i, t in enumerate(gen.ILL_TYPED_TEMPLATES):
		if t.strip() and (ctx.thorough or i % 2 == ctx.seed % 2):
			out.append(('eof-tail', 'on-disk', gen.with_tail(t, gen.EOF_TAILS[1 + i % 7])))
	if ctx.thorough:
		for name, s in gen.large_sources():
			out.append(('seed-large', 'in-memory', s))
	n = ctx.scale(420, 15000)
	big = [s for _, s in gen.large_sources()] if ctx.thorough else []
	chunk_share = 0.06 if ctx.thorough else 0.03  # a chunk costs ~0.2 s per run, a small seed ~0.02 s
	for i in range(n):
		m = both[i % 2]
		r = rng.random()
		pick = rng.random()
		base = rng.choice(seeds) if pick >= chunk_share else (rng.choice(chunks) if pick >= 0.001 or not big else rng.choice(big))
		if r < 0.18:
			out.append(('byte-mutation', m, gen.mutate_bytes(rng, base.encode('utf-8'))))
		elif r < 0.50:
			out.append(('token-mutation', m, ''.join(gen.mutate_tokens(rng, gen.tokens_of(base)))))
		elif r < 0.60:
			out.append(('line-mutation', m, gen.mutate_lines(rng, base)))
		elif r < 0.68:
			out.append(('token-soup', m, gen.token_soup(rng)))
		elif r < 0.86:
			out.append(('ill-typed', m, gen.ill_typed(rng)))
		else:
			g = gen.generated_program(rng)
			if rng.random() < 0.4:
				out.append(('generated', m, g))
			else:
				out.append(('generated-mutation', m, ''.join(gen.mutate_tokens(rng, gen.tokens_of(g)))))
		if m == 'on-disk' and rng.random() < 0.15:
			k, mm, d = out[-1]
			if isinstance(d, str):
				out[-1] = (f'{k}+eof-tail', mm, gen.with_tail(d, rng.choice(gen.EOF_TAILS)))
	return out


def search_fuzz(ctx: Ctx) -> SearchResult:
	res = SearchResult('fuzz: Modules.load -> Py2Cpp.transpile in {ok} ∪ Errors.Error, ErrorRender total, 10 s CPU cap (in memory + on disk)')
	base = ctx.tmpdir()
	pipes = {'in-memory': pl.Pipeline('in-memory', base), 'on-disk': pl.Pipeline('on-disk', base), 'on-disk-nontarget': pl.Pipeline('on-disk-nontarget', base)}
	inputs = fuzz_inputs(ctx)
	syntax_oracle = make_syntax_oracle(pipes['in-memory'])
	for p in pipes.values():
		p.post = syntax_oracle
	hist: Counter[str] = Counter()
	first: dict[str, tuple[str, str, str | bytes, pl.Outcome, str | bytes | None]] = {}
	seen: set[int] = set()
	quoted = 0
	t0 = time.time()
	budget_s = ctx.scale(240, 3000)  # safety net only: the plan is sized to finish well inside it (a cut would make the key set machine dependent)
	prev: dict[str, str | bytes | None] = {'in-memory': None, 'on-disk': None, 'on-disk-nontarget': None}
	recent: dict[str, list[str | bytes]] = {'in-memory': [], 'on-disk': [], 'on-disk-nontarget': []}  # the last 8 inputs of the session, per mode
	earliest: dict[str, tuple[str, str, str | bytes, pl.Outcome, list[str | bytes]]] = {}  # first occurrence of each key with the inputs before it
	fatal_sites: Counter[str] = Counter()
	for kind, mode, data in inputs:
		if time.time() - t0 > budget_s:
			ctx.notes.append(f'fuzz stopped by the time budget after {res.cases} of {len(inputs)} inputs')
			break
		p = pipes[mode]
		o = p.run(data)
		res.cases += 1
		seen.add(hash((mode, data)))
		label = o.kind if o.kind != 'error' else f"error:{o.cls.split('.')[-1]}"
		hist[f'{kind}/{label}'] += 1
		hist[f'mode:{mode}'] += 1
		if o.fatal_site:
			fatal_sites[o.fatal_site] += 1
		if o.quoted:
			quoted += 1
		if o.render == 'fail':
			hist['render-fail'] += 1
		for k in o.keys():
			hist[f'key:{k}'] += 1
			cur = first.get(k)
			if cur is None:
				earliest[k] = (kind, mode, data, o, list(recent[mode]))
			if cur is None or len(_as_text(data)) < len(_as_text(cur[2])):
				first[k] = (kind, mode, data, o, prev[mode])
		prev[mode] = data
		recent[mode] = [*recent[mode][-7:], data]
		if len(res.samples) < 3 and kind in ('token-mutation', 'ill-typed'):
			res.samples.append({'kind': kind, 'mode': mode, 'source': _as_text(data)[:120], 'outcome': label})
	hist['rendered-with-quotation'] = quoted
	# confirm each key on a fresh App (history-free), minimise, report
	for k in sorted(first):
		kind, mode, data, o, before = first[k]
		# corpus witnesses are already minimal, deep-nesting inputs are what they are (and each run of them costs seconds)
		small = data if kind in ('corpus', 'witness-F3', 'boundary', 'boundary-nontarget', 'deep-nesting', 'depth-stress') or kind.startswith('project:') else minimise(pipes[mode], data, k)
		history: list[str | bytes] = []
		conf = pl.fresh_outcome(mode, base, small, post=syntax_oracle)
		if k not in conf.keys():
			conf = pl.fresh_outcome(mode, base, data, post=syntax_oracle)
			small = data
		if k not in conf.keys() and before is not None:
			# a history effect: the property quantifies over sessions too (interactive mode) — replay the previous input of the session first
			conf = pl.fresh_outcome(mode, base, data, prefix=[before], post=syntax_oracle)
			history = [before]
		if k not in conf.keys() and k in earliest:
			# a history effect that started earlier in the session: the FIRST input that showed the key, after the last 2 / 4 / 8 inputs before it
			kind, mode, data, o, before_list = earliest[k]
			for n in (1, 2, 4, 8):
				if n > len(before_list) and n > 1 and n // 2 >= len(before_list):
					break
				conf = pl.fresh_outcome(mode, base, data, prefix=before_list[-n:], post=syntax_oracle)
				if k in conf.keys():
					small, history = data, list(before_list[-n:])
					break
		if k not in conf.keys():
			ctx.notes.append(f'escape {k} seen during the run did not reproduce on a fresh App, alone or after the previous input of the session; input kept in the evidence notes only: {_as_text(data)[:200]!r}')
			hist[f'unconfirmed:{k}'] += 1
			continue
		what = f'{conf.cls or "render"}: {(conf.message or conf.render_message)[:100]} — input kind {kind}, {mode}; minimal input {_as_text(small)[:160]!r}'
		if history:
			what += f' after the session input {_as_text(history[0])[:120]!r}'
		res.findings.append(Finding(key=k, what=what, replay={**_replay_payload(mode, small, conf), 'history': [_as_text(h) for h in history]}))
		ctx.notes.append(f'finding key={k} | {what}')
	for p in pipes.values():
		p.close()
	# regression baseline (informational, never a verdict): crash sites that are repaired by normalisation only — Errors.Fatal('Unhandled error', inner)
	baseline = load_fatal_baseline()
	for site, cnt in fatal_sites.items():
		hist[f'fatal:{site}'] = cnt
	new_sites = sorted(set(fatal_sites) - baseline)
	ctx.notes.append(f'Errors.Fatal(Unhandled error) normalisations: {sum(fatal_sites.values())} outcomes at {len(fatal_sites)} sites; '
		f'{len(new_sites)} site(s) not in corpus/C07/fatal_sites_baseline.txt' + (f': {new_sites}' if new_sites else ''))
	res.distinct = len(seen)
	res.histogram = dict(sorted(hist.items()))
	res.note = (f'{len(inputs)} inputs planned; kinds: corpus, F3 witness, valid seeds (15 hand-written + fixtures + fixture_py2cpp chunks), '
		'byte/token/line mutations, token soups over the grammar alphabet, grammar-valid ill-typed templates, generated programs (+mutations), deep nesting; '
		'each key is re-confirmed on a fresh App and minimised')
	return res


def search_f3_replay(ctx: Ctx) -> SearchResult:
	"""The Lean counterexample `parse_mem_counterexample` replayed on the real code: Modules.load of an unparsable `__main__`."""
	res = SearchResult('replay of C07.parse_mem_counterexample: unparsable in-memory module must raise Errors.Syntax from Modules.load')
	Errors = _errors()
	base = ctx.tmpdir()
	for mode in ('in-memory', 'on-disk'):
		p = pl.Pipeline(mode, base)
		o = p.run(F3_WITNESS)
		res.cases += 1
		res.histogram[f'{mode}:{o.cls}'] = 1
		if not (o.kind == 'error' and o.cls.endswith('Errors.Syntax')):
			if o.kind == 'escape':
				res.findings.append(Finding(key=o.key, what=f'{o.cls} escapes Modules.load for the {mode} module {F3_WITNESS!r} (property: Errors.Syntax)', replay=_replay_payload(mode, F3_WITNESS, o)))
			else:
				res.findings.append(Finding(key=f'unparsable-not-syntax[{mode}]', what=f'{mode}: outcome {o.kind} {o.cls} for {F3_WITNESS!r}', replay=_replay_payload(mode, F3_WITNESS, o)))
		p.close()
	_ = Errors
	res.distinct = res.cases
	return res


# ---------------------------------------------------------------------------------------------
# search: the sentences of the property on the real Procedure / parser / Interactive (no model involved)


def search_laws(ctx: Ctx) -> SearchResult:
	"""The property statement itself, evaluated on the real code with injected exception classes:

	* Procedure: whatever class a handler raises, exec ends ok / with an Errors.Error / with the same non-Exception object;
	* parser: every Exception raised while reading or parsing becomes Errors.Syntax — on disk for every injected class, in both
	  branches for crafted unparsable texts (the in-memory escapes are the F3 keys);
	* Interactive: after an outcome in {ok} ∪ Errors.Error the loop asks for the next input.
	"""
	Errors = _errors()
	res = SearchResult('laws on the real code: Procedure normalises handler exceptions; parser branches report Errors.Syntax; Interactive survives Errors.Error')
	rng = ctx.sub_rng('laws')
	hist: Counter[str] = Counter()
	classes = [c for c in exception_classes() if ctor1_of(c)]
	FakeNode = _fake_node_base()
	ev_ok = {'handler': 'own', 'props': [], 'behave': ('ok',)}
	# -- Procedure
	plans = []
	for cls in classes:
		for arg0 in ('none', 'node', 'other'):
			plans.append(('own', cls, {'procedural': None, 'fallback': False, 'events': [{'handler': 'own', 'props': [], 'behave': ('raise', cls, arg0)}]}))
			plans.append(('fallback', cls, {'procedural': None, 'fallback': True, 'events': [ev_ok, {'handler': 'fallback', 'props': [('s',)], 'behave': ('raise', cls, arg0)}]}))
			plans.append(('next', cls, {'procedural': None, 'fallback': False, 'events': [ev_ok, ev_ok, {'handler': 'own', 'props': [('l', 2)], 'behave': ('next', cls, arg0)}]}))
	for _ in range(ctx.scale(100, 1500)):
		n = rng.randint(1, 5)
		events = [{'handler': 'own', 'props': [('s',)] if i else [], 'behave': ('ok',)} for i in range(n)]
		k = rng.randrange(n)
		cls = rng.choice(classes)
		events[k]['behave'] = (rng.choice(['raise', 'next']), cls, rng.choice(['none', 'node', 'other']))
		plans.append(('random', cls, {'procedural': None, 'fallback': rng.random() < 0.5, 'events': events}))
	_dl_laws_proc = _deadline(ctx, 'laws-proc', ctx.scale(40, 400))
	for stage, cls, plan in plans:
		if _dl_laws_proc.over():
			continue
		res.cases += 1
		try:
			_, ops, real = proc_case(rng, FakeNode, plan)
		except BaseException as e:  # noqa: BLE001
			res.findings.append(Finding(key=f'proc-law-crash:{pl.class_name(e)}', what=f'building/running the test Procedure raised {e!r}', replay={'plan': str(plan)}))
			continue
		out = real[0]
		hist[f'proc/{out.split(" ")[0]}' + ('/E' if ' E ' in out else '')] += 1
		ok = out == 'ok' or ' E ' in out or (not issubclass(cls, Exception) and out.startswith(f'raise {display(cls)} '))
		if not ok:
			res.findings.append(Finding(key=f'proc:{out.split(" ")[1]}@{stage}', what=f'Procedure.exec let {out} escape for a handler raising {display(cls)} ({stage})', replay={'op': ops[0], 'real': out}))
	# -- parser
	rig = ParseRig(ctx)
	for cls in exception_classes():
		if not issubclass(cls, Exception):
			continue
		for arg0 in ('none', 'other'):
			exc = make_exception(cls, arg0, None)
			if exc is None:
				continue
			res.cases += 1
			caught = rig.load(rig.new_module(exc, 'disk'))
			hist[f'parse-disk/{display(type(caught)) if caught else "ok"}'] += 1
			if not isinstance(caught, Errors.Syntax):
				res.findings.append(Finding(key=f'parse-disk:{display(type(caught)) if caught else "ok"}', what=f'on-disk branch: {display(cls)} raised while reading/parsing came out as {outcome_of(caught)}', replay={'class': display(cls)}))
	for kind, src in PARSE_SOURCES:
		for branch, mode in (('mem', 'in-memory'), ('disk', 'on-disk')):
			res.cases += 1
			caught = rig.load(rig.new_module(src, branch))
			hist[f'parse-{branch}/{display(type(caught)) if caught else "ok"}'] += 1
			if caught is not None and not isinstance(caught, Errors.Syntax):
				key = pl.escape_key(caught, mode) if not isinstance(caught, Errors.Error) else f'parse-{branch}:{display(type(caught))}'
				res.findings.append(Finding(key=key, what=f'{mode} branch: unparsable text ({kind}) {src!r} came out as {outcome_of(caught)}, not Errors.Syntax',
					replay={'mode': mode, 'source': src, 'class': pl.class_name(caught), 'tranp_frames': pl.tranp_frames(caught)}))
	# -- Modules.load: whatever Exception a loader stage raises, load ends ok / in the hierarchy (non-Exceptions pass through)
	for d, ops, real in load_cases(rng, ctx.scale(60, 600)):
		res.cases += 1
		out = real[0]
		hist[f"load/{d['kind']}/{out.split(' ')[0]}" + ('/E' if ' E ' in out else '')] += 1
		raised = [t for t in ops[0].split('\t')[3:] if t != 'ok']
		passthrough = any(t.split(' ', 1)[1].startswith(('B BaseException', 'B KeyboardInterrupt', 'B SystemExit', 'B GeneratorExit', f"U {hx('MyBase')}", f"U {hx('MyInterrupt')}")) for t in raised)
		if not (out == 'ok' or ' E ' in out or passthrough):
			res.findings.append(Finding(key=f"load:{out.split(' ')[1]}@{d['kind']}", what=f'Modules.load let {out} escape ({d["kind"]} stage)', replay={'op': ops[0], 'real': out}))
	# -- Modules.load / Modules.unload on import graphs (benign loader): no call raises; after unload(p) neither p nor any module that imports
	#    p is registered (an importer would keep a reference to the stale module); after load(p) p and its import closure are registered
	names = ['m0', 'm1', 'm2', 'm3', 'l0']
	_dl_laws_graph = _deadline(ctx, 'laws-graph', ctx.scale(30, 300))
	for i in range(ctx.scale(120, 1200)):
		if _dl_laws_graph.over():
			continue
		libs = ['l0'] if rng.random() < 0.4 else []
		mods = names[:rng.randint(2, 4)] + libs
		if i % 3 == 0:
			graph = {m: ([mods[k + 1]] if k + 1 < len(mods) - len(libs) else []) for k, m in enumerate(mods)}  # a chain main -> … -> leaf
		else:
			graph = {m: [rng.choice(mods) for _ in range(rng.choice([0, 1, 1, 2]))] for m in mods}
		rig = LoadRig(libs)
		rig.imports = graph
		steps = []
		bad = None
		for _step in range(rng.randint(2, 5)):
			p = rng.choice(mods)
			op = 'load' if rng.random() < 0.55 or not rig.modules.loaded() else 'unload'
			steps.append(f'{op} {p}')
			try:
				with pl.budget():
					getattr(rig.modules, op)(p)
			except BaseException as e:  # noqa: BLE001
				bad = (f'graph-{op}:{pl.class_name(e)}@{(pl.tranp_frames(e) or ["no-tranp-frame"])[-1]}', f'Modules.{op}({p!r}) raised {pl.class_name(e)}: {e}')
				break
			reg = [m.path for m in rig.modules.loaded()]
			if op == 'unload' and (p in reg or any(p in graph[q] for q in reg)):
				bad = ('graph-unload:stale-importer', f'after Modules.unload({p!r}) the registry is {reg}: the module or one of its importers is still registered')
				break
			if op == 'load' and p not in reg:
				bad = ('graph-load:not-registered', f'after Modules.load({p!r}) the registry is {reg}')
				break
		res.cases += 1
		hist['graph/' + ('ok' if bad is None else bad[0])] += 1
		if bad is not None:
			res.findings.append(Finding(key=bad[0], what=f'{bad[1]} — import graph {graph}, libraries {libs}, calls {steps}', replay={'graph': graph, 'libs': libs, 'calls': steps}))
	# -- explicit unload of imported modules on the real pipeline (real loader, real files): load a valid chain, unload the leaf / the middle
	chain = gen.PROJECT_SHAPES['depth2'].replace('{LEAF}', f'FILE leaf\n{gen.LEAF_VALID}')
	for mode in ('in-memory', 'on-disk'):
		from rogw.tranp.module.modules import Modules as _Modules
		pipe = pl.Pipeline(mode, ctx.tmpdir())
		o = pipe.run(chain)
		mods_real = pipe.resolve(_Modules)
		stem = f'fz.m{pipe.n}_'
		for target in (f'{stem}leaf', f'{stem}mid', f'{stem}leaf'):
			res.cases += 1
			try:
				with pl.budget():
					mods_real.unload(target)
				left = [m.path for m in mods_real.loaded() if m.path.startswith(stem) or m.path == '__main__']
				hist[f'unload-imported/{mode}/ok'] += 1
				if target in left:
					res.findings.append(Finding(key=f'unload-imported:still-registered[{mode}]', what=f'{target} is still registered after Modules.unload', replay={'mode': mode, 'source': chain, 'unload': target}))
			except BaseException as e:  # noqa: BLE001
				hist[f'unload-imported/{mode}/raise'] += 1
				res.findings.append(Finding(key=f'unload-imported:{pl.escape_key(e, mode)}', what=f'Modules.unload({target!r}) after loading main -> mid -> leaf ({mode}, load outcome {o.kind}) raised {pl.class_name(e)}: {e}',
					replay={'mode': mode, 'source': chain, 'unload': target, 'tranp_frames': pl.tranp_frames(e)[-5:]}))
				break
		pipe.close()
	# -- ErrorRender (public API): an argument whose str() raises any Exception must not make the render raise
	from rogw.tranp.view.error_render import ErrorRender
	unprintable = [RecursionError('deep'), KeyError('k'), TypeError('t'), UnicodeDecodeError('utf-8', b'\\xff', 0, 1, 'bad'), UnicodeEncodeError('ascii', 'é', 0, 1, 'bad'),
		ValueError('v'), AttributeError('a'), IndexError('i'), AssertionError('as'), ZeroDivisionError('z'), Errors.Logic('l'), Errors.IllegalConvertion('c')]
	for inner in unprintable:
		for outer_cls in (Errors.Fatal, Errors.UnresolvedSymbol, KeyError):
			for shape in ('only', 'first', 'last'):
				bad = _BadStr(inner)
				args = {'only': [bad], 'first': [bad, 'm', 1], 'last': ['m', 1, bad]}[shape]
				res.cases += 1
				try:
					try:
						raise outer_cls(*args)
					except BaseException as e:  # noqa: BLE001
						text = str(ErrorRender(e))  # type: ignore[arg-type]
					hist['render/ok'] += 1
					if repr(bad) not in text:
						res.findings.append(Finding(key=f'render-law:no-repr[{type(inner).__name__}]', what=f'render of {outer_cls.__name__} with an argument whose str() raises {type(inner).__name__} does not show its repr', replay={'inner': type(inner).__name__, 'shape': shape}))
				except BaseException as e2:  # noqa: BLE001
					hist[f'render/raise:{display(type(e2))}'] += 1
					res.findings.append(Finding(key=f'render-law:{display(type(e2))}[str raises {type(inner).__name__}]',
						what=f'str(ErrorRender({outer_cls.__name__}(…))) raised {display(type(e2))}: the argument ({shape}) has a __str__ that raises {type(inner).__name__}',
						replay={'outer': outer_cls.__name__, 'inner': type(inner).__name__, 'shape': shape, 'tranp_frames': pl.tranp_frames(e2)[-4:]}))
	# -- Interactive
	loop = LoopRig(ctx)
	for inner in unprintable:
		res.cases += 1
		exc = Errors.Fatal(_BadStr(inner), 'm')
		out = loop.run_script([('stub', exc), ('stub', None)])
		hist[f'loop-unprintable/{out}'] += 1
		if out != 'running 2':
			res.findings.append(Finding(key=f'loop:unprintable[{type(inner).__name__}]', what=f'Interactive.run did not survive printing an Errors.Fatal whose argument has a __str__ raising {type(inner).__name__}: {out}', replay={'inner': type(inner).__name__, 'status': out}))
			loop = LoopRig(ctx)
	for cls in exception_classes():
		if not issubclass(cls, Errors.Error) or not ctor1_of(cls):
			continue
		for arg0 in ('none', 'other'):
			exc = make_exception(cls, arg0, None)
			if exc is None:
				continue
			res.cases += 1
			out = loop.run_script([('stub', exc), ('stub', None), ('stub', exc)])
			hist[f'loop/{out}'] += 1
			if out != 'running 3':
				res.findings.append(Finding(key=f'loop:{display(cls)}', what=f'Interactive.run did not survive {display(cls)}: {out}', replay={'class': display(cls), 'status': out}))
	res.distinct = res.cases
	res.histogram = dict(sorted(hist.items()))
	return res


# ---------------------------------------------------------------------------------------------
# search: "the error rendering itself never fails" — whatever node of a real tree an error carries

RENDER_NODE_TEXTS: list[str] = ['', '\n', '\n\n', ' ', '\t\n', '# c', '# c\n', '\x0c', 'pass', 'pass\n', '...\n', 'a: int = 1\n', 'a: int = 1', 'if True:\n\tpass\n',
	'class A:\n\tdef f(self) -> int:\n\t\treturn 1\n', 'def f(s: str = "\u65e5\u672c") -> None:\n\tprint(s)\n', 'a = 1\r\nb = 2\r\n', 'x: list[int] = [\n\t1,\n\t2,\n]\n',
	'\n\n# only a comment after blank lines\n\n', 'def f() -> None:\n\t"""doc"""\n\t...']


def search_render_nodes(ctx: Ctx, only: tuple[str, str] | None = None) -> SearchResult:
	"""For real modules (on disk and in memory; empty, blank, comment-only, one statement, nested) and EVERY node of their trees — the root
	first: it has no parent and, for an empty file, no source position — an application error that carries the node renders:
	`str(ErrorRender(e))` returns a string. The oracle is the property sentence itself; no model involved."""
	from rogw.tranp.view.error_render import ErrorRender
	Errors = _errors()
	res = SearchResult('render law on real trees: str(ErrorRender(Errors.X(node, …))) is defined for every node (root included) of real modules on disk and in memory')
	hist: Counter[str] = Counter()
	base = ctx.tmpdir()
	seen: set[str] = set()
	dl = _deadline(ctx, 'render-nodes', ctx.scale(30, 300))
	texts = RENDER_NODE_TEXTS + [s for s in gen.VALID_PROGRAMS[:(12 if ctx.thorough else 3)]]
	if only is not None:  # replay of one finding
		texts = [only[1]]
	for mode in (('on-disk', 'in-memory') if only is None else (only[0],)):
		pipe = pl.Pipeline(mode, base)
		try:
			for text in texts:
				if dl.over():
					continue
				module, exc = pipe.load_module(text)
				if module is None:
					hist[f'{mode}/load:{type(exc).__name__}'] += 1  # the outcome of loading is the business of the fuzz
					continue
				try:
					with pl.budget():
						root = module.entrypoint
						nodes = [root, *root.procedural()]
				except BaseException as e:  # noqa: BLE001 — enumerating the tree is not what this law is about
					hist[f'{mode}/enumerate:{type(e).__name__}'] += 1
					continue
				old_cwd = os.getcwd()
				if mode != 'in-memory':
					os.chdir(pipe.proj)
				try:
					for i, node in enumerate(nodes[:ctx.scale(60, 400)]):
						for make in (lambda n: Errors.Logic(n, 'm'), lambda n: Errors.Fatal(n)):
							res.cases += 1
							try:
								try:
									raise make(node)
								except Errors.Error as e:
									with pl.budget():
										out = str(ErrorRender(e))
								if not isinstance(out, str):
									raise TypeError(f'str(ErrorRender) returned {type(out).__name__}')
								hist[f"{mode}/{'root' if i == 0 else 'inner'}/{'quoted' if 'via Node:' in out else 'plain'}"] += 1
							except (KeyboardInterrupt, SystemExit):
								raise
							except BaseException as e2:  # noqa: BLE001
								which = 'root' if i == 0 else type(node).__name__
								key = f'render-node:{pl.escape_key(e2, mode)}[{which}]'
								hist[key] += 1
								if key in seen:
									continue
								seen.add(key)
								res.findings.append(Finding(key=key, what=f'str(ErrorRender(Errors.…(node))) raised {display(type(e2))} for the {which} node of the {mode} module {text!r}',
									replay={'kind': 'render-node', 'mode': mode, 'source': text, 'node_index': i, 'tranp_frames': pl.tranp_frames(e2)[-5:]}))
								ctx.notes.append(f'finding key={key} | {mode} module {text!r}, node #{i} ({which})')
				finally:
					os.chdir(old_cwd)
		finally:
			pipe.close()
	res.distinct = res.cases
	res.histogram = dict(sorted(hist.items()))
	res.note = f'{len(texts)} module texts × 2 modes (on disk, in memory), every node of the tree (root first), Errors.Logic(node, msg) and Errors.Fatal(node)'
	return res


# ---------------------------------------------------------------------------------------------
# search: render histories in ONE process — the same module path with other content, rendered again (fresh App in between), and
# errors that carry a node of an EARLIER version of the file

_RH_BAD = 'def f(a: Undefined) -> None: ...'
RENDER_VERSION_CHAINS: list[list[str]] = [
	[f'{_RH_BAD}\n', f'class A:\n\tdef __init__(self, n: int) -> None:\n\t\tself.n: int = n\n\n\n{_RH_BAD}\n'],           # the file grows, the error moves down
	['# 1\n# 2\n# 3\n# 4\na: int = 1\nb: int = 2\n', 'a: int = 1\n', ''],                                                    # the file shrinks, then is emptied (loads succeed: stale nodes)
	[f'# 1\n# 2\n# 3\n# 4\n{_RH_BAD}\n', f'{_RH_BAD}\n', 'a: int = 1\n\n\n\nb: int = 2\n'],                                 # the load error moves up; then a valid longer file
	['a: int = 1\nb: int = 2\nc: int = 3\n', 'x: str = "s"\ny: str = "t"\nz: str = "u"\n'],                              # same shape, other text
	['', 'a: int = 1\n', '\n\n\na: int = 1\n', 'a: int = 1'],                                                          # from nothing; leading blanks; no final line feed
	['if True:\n\tx: int = 1\n\ty: int = 2\n', 'if True:\n\tx: int = 1\n'],
]


def search_render_histories(ctx: Ctx) -> SearchResult:
	"""`str(ErrorRender(e))` is a function of the error and of what the quoted file holds NOW: defined whatever node the error carries
	(also a node of an earlier version of the file — an imported module edited while the session keeps it loaded), the same text when
	rendered twice, and the quoted line is the line the file holds now (own reading of the file)."""
	from rogw.tranp.view.error_render import ErrorRender
	Errors = _errors()
	res = SearchResult('render histories in one process: versions of the same module path (fresh App per version) — every render defined, repeatable, quoting the CURRENT file')
	rng = ctx.sub_rng('render-histories')
	hist: Counter[str] = Counter()
	seen: set[str] = set()
	base = ctx.tmpdir()
	dl = _deadline(ctx, 'render-histories', ctx.scale(30, 300))
	# a fresh App per version costs ~1 s: the quick tier takes the three chains with a growing / shrinking file; the synthetic part below
	# (no App: a node is a module path + a source map) rewrites a few paths again and again
	chains = [list(c) for c in (RENDER_VERSION_CHAINS if ctx.thorough else RENDER_VERSION_CHAINS[:3])]
	pool = [t for t in RENDER_NODE_TEXTS if isinstance(t, str)] + [s for s in gen.VALID_PROGRAMS[:6]] + [f'{_RH_BAD}\n', f'\n\n{_RH_BAD}\n']
	for _ in range(ctx.scale(0, 60)):
		chains.append([rng.choice(pool) for _i in range(rng.randint(2, 4))])

	def check(chain_no: int, version: int, which: str, node: Any, path: str, chain: list[str]) -> None:
		res.cases += 1
		texts = []
		try:
			for _k in range(2):
				try:
					raise Errors.Logic(node, 'm')
				except Errors.Error as e:
					with pl.budget():
						out = str(ErrorRender(e))
				if not isinstance(out, str):
					raise TypeError(f'str(ErrorRender) returned {type(out).__name__}')
				texts.append(out.split('\nStacktrace:')[0] if False else out)
		except (KeyboardInterrupt, SystemExit):
			raise
		except BaseException as e2:  # noqa: BLE001
			key = f'render-history:{pl.escape_key(e2, "on-disk")}[{which}]'
			hist[key] += 1
			if key not in seen:
				seen.add(key)
				res.findings.append(Finding(key=key, what=f'str(ErrorRender(Errors.Logic(node, …))) raised {display(type(e2))} for a {which} node of version {version} of the chain {chain[:version + 1]!r} (same module path, fresh App per version)',
					replay={'kind': 'render-history', 'chain': chain[:version + 1], 'which': which, 'tranp_frames': pl.tranp_frames(e2)[-5:]}))
				ctx.notes.append(f'finding key={key} | version chain {chain[:version + 1]!r}')
			return
		quoted = [ln for ln in texts[0].split('\n') if ln.startswith('    >>> ')]
		hist[f"{which}/{'quoted' if 'via Node:' in texts[0] else 'plain'}"] += 1
		problem = ''
		# the stack trace part names the raise site above (the same both times); the whole text must repeat
		if texts[0] != texts[1]:
			problem = 'rendered twice, two different texts'
		elif 'via Node:' in texts[0] and which == 'current':
			# own reading: line `begin line` of the file as it is now, tabs shown as blanks
			try:
				with open(path, 'rb') as f:
					now = f.read().decode('utf-8').split('\n')
				want = now[node.source_map['begin'][0] - 1].replace('\t', ' ')
			except Exception:  # noqa: BLE001
				want = None
			cause = texts[0].split('via Node:\n', 1)[1].split('\n')[1] if 'via Node:\n' in texts[0] else ''
			if want is not None and cause != f'    >>> {want}':
				problem = f'quoted {cause!r}, the file holds {want!r} on that line'
		_ = quoted
		if problem:
			key = f"render-history:{'unrepeatable' if 'twice' in problem else 'stale-quotation'}[{which}]"
			hist[key] += 1
			if key not in seen:
				seen.add(key)
				res.findings.append(Finding(key=key, what=f'{problem} — {which} node of version {version} of the chain {chain[:version + 1]!r} (same module path, fresh App per version)',
					replay={'kind': 'render-history', 'chain': chain[:version + 1], 'which': which}))
				ctx.notes.append(f'finding key={key} | version chain {chain[:version + 1]!r}: {problem}')

	for chain_no, chain in enumerate(chains):
		if dl.over():
			continue
		first = pl.Pipeline('on-disk', base)
		pipes = [first]
		old_nodes: list[Any] = []
		old_cwd = os.getcwd()
		try:
			for version, text in enumerate(chain):
				# every version is written to the SAME path (fz/m1.py of the shared project) and loaded by a brand-new App
				pipe = first if version == 0 else pl.Pipeline('on-disk', base, share=(first.proj, os.path.join(first.root, 'cache')))
				if version:
					pipes.append(pipe)
				module, exc = pipe.load_module(text)
				path = os.path.join(first.proj, 'fz', 'm1.py')
				os.chdir(first.proj)
				# errors that still carry a node of the PREVIOUS version (the module stayed loaded somewhere while the file changed)
				for node in old_nodes[:ctx.scale(12, 60)]:
					check(chain_no, version, 'stale', node, path, chain)
				# an application error of the load itself carries a node of this version
				if exc is not None and isinstance(exc, Errors.Error):
					res.cases += 1
					try:
						with pl.budget():
							str(ErrorRender(exc))
						hist['load-error/rendered'] += 1
					except (KeyboardInterrupt, SystemExit):
						raise
					except BaseException as e2:  # noqa: BLE001
						key = f'render-history:{pl.escape_key(e2, "on-disk")}[load-error]'
						hist[key] += 1
						if key not in seen:
							seen.add(key)
							res.findings.append(Finding(key=key, what=f'str(ErrorRender(e)) raised {display(type(e2))} for the {type(exc).__name__} of loading version {version} of the chain {chain[:version + 1]!r} (same module path, fresh App per version)',
								replay={'kind': 'render-history', 'chain': chain[:version + 1], 'which': 'load-error', 'tranp_frames': pl.tranp_frames(e2)[-5:]}))
							ctx.notes.append(f'finding key={key} | version chain {chain[:version + 1]!r}')
				os.chdir(old_cwd)
				if module is None:
					hist[f'load:{type(exc).__name__}'] += 1
					# the half-loaded module's nodes are not reachable from here; keep the previous version's nodes
					continue
				try:
					with pl.budget():
						root = module.entrypoint
						nodes = [root, *root.procedural()]
				except BaseException as e:  # noqa: BLE001
					hist[f'enumerate:{type(e).__name__}'] += 1
					continue
				os.chdir(first.proj)
				for node in nodes[:ctx.scale(25, 120)]:
					check(chain_no, version, 'current', node, path, chain)
				os.chdir(old_cwd)
				old_nodes = nodes
		finally:
			os.chdir(old_cwd)
			for pp in reversed(pipes):
				pp.close()
	# synthetic nodes (module path + source map on a real Node subclass) over a handful of paths whose files are rewritten every round:
	# spans INSIDE the current content (what a fresh parse of it yields) — the node kind is irrelevant for the quotation
	FakeNode = _fake_node_base()

	class SpanNode(FakeNode):  # type: ignore[misc,valid-type]
		def __init__(self, module_path: str, sm: tuple[int, int, int, int]) -> None:
			super().__init__('span')
			self._mp = module_path
			self._sm = sm

		@property
		def module_path(self) -> str:
			return self._mp

		@property
		def source_map(self) -> Any:
			return {'begin': (self._sm[0], self._sm[1]), 'end': (self._sm[2], self._sm[3])}

	sroot = ctx.tmpdir()
	os.makedirs(os.path.join(sroot, 'sz'))
	line_pool = ['x = y', '\tz = 1', '\t\tdeep = [1, 2]', 'ünï = "日本"', '# c', 'def f() -> None:', '\tpass', 'a\tb\tc', 'q: int = 0']
	old_cwd = os.getcwd()
	os.chdir(sroot)
	try:
		for i in range(ctx.scale(120, 1500)):
			if dl.over():
				continue
			name = f'p{i % 3}'
			n = rng.choice([1, 1, 2, 3, 5, 8, 13])
			ls = [rng.choice(line_pool) for _ in range(n)]
			with open(os.path.join(sroot, 'sz', f'{name}.py'), 'wb') as f:
				f.write(('\n'.join(ls) + ('\n' if rng.random() < 0.8 else '')).encode('utf-8'))
			for _j in range(2):
				bl = rng.randint(1, n)
				el = bl if rng.random() < 0.7 else rng.randint(bl, n)
				bc = rng.randint(1, max(1, len(ls[bl - 1])))
				ec = rng.randint(bc, max(bc, len(ls[el - 1]) + 1))
				check(-1, i, 'current', SpanNode(f'sz.{name}', (bl, bc, el, ec)), os.path.join(sroot, 'sz', f'{name}.py'), [f'<{n} lines written to sz/{name}.py, round {i}>'])
	finally:
		os.chdir(old_cwd)
	res.distinct = res.cases
	res.histogram = dict(sorted(hist.items()))
	res.note = f'{len(chains)} chains of 2..4 versions of one on-disk module (grows, shrinks, same shape / other text, emptied, from nothing); per version: nodes of the previous version (stale), the load error, every node of the new tree; each rendered twice; plus synthetic in-range spans over three paths rewritten every round'
	return res


# ---------------------------------------------------------------------------------------------
# search: sessions of the real interactive loop (the property's history quantifier)

HISTORY_POOL_EXTRA = ['x = y', 'a = = 1', 'def f(:', 'a = $', 'if a:\n        x = 1\n    y = 2', 'from nowhere import X', 'a, b = 1', 'x = x', 'x = lambda a, b: a',
	'class A([int]):\n\tpass', 'def f(self) -> None:\n\tpass', 'from typing import Generic\nclass T(Generic[T]):\n\tdef g(self) -> T: ...', 'b = 2', 'pass']


def _requests_of(text: str) -> list[str]:
	"""the request tty() hands over when `text` is typed: a blank line ends a request at the real prompt, so a request holds none — and
	typing nothing at all gives the EMPTY request []"""
	return [ln for ln in text.split('\n') if ln.strip()]


def _expected_session(requests: list[list[str]]) -> str:
	"""the prompt's contract ("Type `exit` to quit"): the request ['exit'] ends the session, every other request is served"""
	for i, r in enumerate(requests):
		if r == ['exit']:
			return f'quit {i + 1}'
	return f'running {len(requests)}'


def _expected_keys(keys: list[str]) -> str:
	"""own reading of bin/io.py's docstring for a keyboard transcript (one entry per Enter): a blank line submits the request typed so far,
	the line `exit` quits → '<status> <requests started> <keys consumed>'"""
	started = 1
	for i, k in enumerate(keys):
		k = k.rstrip()
		if k == 'exit':
			return f'quit {started} {i + 1}'
		if k == '':
			started += 1
	return f'running {started} {len(keys)}'


def _turn_outcome(text: str) -> tuple[str, str]:
	"""what Interactive.run printed for one request → ('ok', <the transpiled text>) | ('<Errors class>', '') | ('nothing', '')"""
	import re
	if '\nResult:\n---------------\n' in '\n' + text:
		return 'ok', text.split('Result:\n---------------\n', 1)[1]
	m = re.findall(r'^rogw\.tranp\.errors\.Errors\.(\w+): ', text, re.M)
	return (m[-1], '') if m else ('nothing', '')


# requests that declare nothing (no class, function, variable, import): no row of the symbol table belongs to their module
DECLARATION_FREE = ['print(1)', 'pass', 'if True:\n\tprint(1)', '...', '1 + 1', 'for i in range(1):\n\tpass', '# nothing']
# loads that fail after the parse, in a preprocessor (before / while the symbols of the module are expanded)
FAIL_IN_PREPROCESS = ['def f(a) -> None: ...', 'from nowhere import X', 'class A(B): ...']
RESUBMIT_SECONDS = ['print(2', 'print(2)', 'a: int = 1', '', 'x = y', 'def f(:']


def search_loop_histories(ctx: Ctx) -> SearchResult:
	"""Every session of the real Interactive.run must consume all of its inputs: each input ends ok or in an Errors.Error that is
	printed, whatever was submitted before (modules of earlier inputs stay registered and are unloaded by the next one). A session is
	a list of requests (lists of lines, the EMPTY request included) handed over by a scripted tty, or a keyboard transcript read by the
	real tty() through a scripted readline."""
	res = SearchResult('sessions of the real Interactive.run (real pipeline, scripted tty): every history of inputs is consumed completely')
	rng = ctx.sub_rng('histories')
	selfs = [s.replace('__SELF__', '__main__').rstrip('\n') for s in gen.SELF_IMPORT_PROGRAMS]
	pool = [s.rstrip('\n') for s in gen.VALID_PROGRAMS[:8]] + HISTORY_POOL_EXTRA + [t.rstrip('\n') for t in gen.ILL_TYPED_TEMPLATES if t.strip()][:60]
	histories: list[list[str]] = []
	# boundary requests first: nothing typed at all (before, between and after other requests, after a failed one, repeatedly)
	for h in (['', 'b = 2'], ['a: int = 1', '', ''], ['def f(:', '', 'x = y', ''], ['   ', '\t', 'b = 2']):
		histories.append(list(h))
	# re-submissions: the module path `__main__` is loaded again and again — whatever the previous request left behind (nothing declared,
	# a load that failed half way), the next request is served as if it were the first: same outcome as alone in a fresh session
	firsts = DECLARATION_FREE + FAIL_IN_PREPROCESS
	for i, first in enumerate(firsts):
		for j in ((0, 1, 2, 3, 4, 5) if ctx.thorough else (0, 1 + i % 5)):
			histories.append([first, RESUBMIT_SECONDS[j]])
	histories.append([firsts[0], firsts[1], RESUBMIT_SECONDS[0], firsts[2], RESUBMIT_SECONDS[1]])
	n_compared_fixed = len(histories)
	for s in selfs:  # every self-import followed by something, and twice in a row
		histories.append([s, 'b = 2'])
		histories.append([s, s, pool[0]])
	for kind in (gen.DEPTH_KINDS if ctx.thorough else ('paren', 'list', 'minus')):
		for d in (((10, 100, 250, 300, 600) if ctx.thorough else (100, 300)) if kind in ('paren', 'list', 'minus', 'tuple') else (100, 300)):
			histories.append([gen.DEPTH_KINDS[kind](d), 'b = 2'])
	for _ in range(ctx.scale(22, 400)):
		n = rng.randint(2, 6)
		h = [rng.choice(selfs) if rng.random() < 0.25 else rng.choice(pool) for _ in range(n)]
		if rng.random() < 0.35:
			h[rng.randrange(n)] = rng.choice(firsts)
		if rng.random() < 0.3:
			k = rng.randrange(n)
			h[k] = ''.join(gen.mutate_tokens(rng, gen.tokens_of(h[k]))).strip('\n')
		if rng.random() < 0.2:
			h[rng.randrange(n)] = rng.choice(['', '', ' ', '\n\n'])
		histories.append(h)
	# keyboard transcripts for the real tty(): requests separated by the blank line, plus what a keyboard can do to the separators
	transcripts: list[list[str]] = [['', 'b = 2', ''], ['', '', ''], ['a: int = 1', '', '', 'x = y', ''], ['b = 2', '', 'a = 1', 'exit', 'c = 3', ''], ['exit'],
		['x = y', '', ' exit', '', 'exit ', 'b = 2', ''], ['def f() -> None:', '\tpass', '  ', 'pass', '', '']]
	for _ in range(ctx.scale(6, 80)):
		keys: list[str] = []
		for _i in range(rng.randint(1, 4)):
			r = rng.random()
			keys += [] if r < 0.25 else _requests_of(rng.choice(pool[:30])) if r < 0.9 else ['b = 2', 'exit', 'c = 3']
			keys += rng.choice([[''], [''], ['', ''], ['  '], ['\t', '']])
		transcripts.append(keys)
	rig = LoopRig(ctx)
	hist: Counter[str] = Counter()
	seen_keys: set[str] = set()
	_dl_sessions = _deadline(ctx, 'sessions', ctx.scale(60, 600))

	def report(kind: str, payload: Any, out: str, expected: str, died_at: int, rerun: Any) -> None:
		e = rig.last_exc
		key = 'loop:' + (pl.escape_key(e, 'in-memory') if e is not None else f'{kind}:{out.split(" ")[0]}-instead-of-{expected.split(" ")[0]}')
		if key in seen_keys:
			return
		seen_keys.add(key)
		# shortest suffix of the consumed part that still ends a fresh session the same way
		consumed = payload[:died_at]
		minimal = consumed
		if e is not None:
			for start in range(len(consumed) - 1, -1, -1):
				probe = LoopRig(ctx)
				o2 = rerun(probe, consumed[start:])
				if o2.startswith('died') and probe.last_exc is not None and 'loop:' + pl.escape_key(probe.last_exc, 'in-memory') == key:
					minimal, out = consumed[start:], o2
					break
		expected = _expected_session(minimal) if kind == 'requests' else _expected_keys(minimal)
		res.findings.append(Finding(key=key, what=f'Interactive.run ended with {out!r} (expected {expected!r}) on the {kind} session {minimal!r}',
			replay={'kind': 'session', kind: minimal, 'status': out, 'expected': expected, 'tranp_frames': pl.tranp_frames(e)[-6:] if e is not None else []}))
		ctx.notes.append(f'finding key={key} | {kind} session {minimal!r} → {out} (expected {expected})')

	# the outcome of a request ALONE: first and only request of a brand-new Interactive (its own App; the cache directory is shared between
	# the reference rigs only — grammar and library caches warm, `__main__` is never cached)
	ref_cache = os.path.join(ctx.tmpdir(), 'reference-cache')
	alone: dict[tuple[str, ...], tuple[str, str]] = {}
	max_refs = ctx.scale(22, 600)

	def alone_outcome(req: list[str]) -> tuple[str, str] | None:
		k = tuple(req)
		if k not in alone:
			if len(alone) >= max_refs:
				return None
			ref = LoopRig(ctx, cache_dir=ref_cache)
			st = ref.run_script([('lines', req)])
			alone[k] = _turn_outcome(ref.turn_outputs()[0]) if st == 'running 1' else ('nothing', st)
		return alone[k]

	fed: list[list[str]] = []  # every request the current rig has served
	for n_hist, h in enumerate(histories):
		if _dl_sessions.over():
			continue
		res.cases += 1
		reqs = [_requests_of(x) for x in h]
		expected = _expected_session(reqs)
		out = rig.run_script([('lines', r) for r in reqs])
		hist[out.split(' ')[0]] += 1
		hist['with-empty-request'] += any(not r for r in reqs)
		if out == expected:
			# every request was served: was it served as ITSELF? (depth-stress requests are left out: their outcome is a matter of stack depth)
			outs = rig.turn_outputs()
			for i, r in enumerate(reqs):
				if r == ['exit'] or i >= len(outs) or any(len(ln) > 2000 for ln in r):
					continue
				want = alone_outcome(r)
				if want is None:
					hist['outcome/unreferenced'] += 1
					continue
				got = _turn_outcome(outs[i])
				if got == want:
					hist['outcome/same-as-alone'] += 1
					continue
				key = f'history:{got[0]}-instead-of-{want[0]}' if got[0] != want[0] else 'history:different-result'
				hist[key] += 1
				if key in seen_keys:
					continue
				seen_keys.add(key)
				# shortest history in front of the request that still changes its outcome on a fresh rig (the rig serves session after session:
				# the history reaches back to its creation)
				full = [*fed, *reqs[:i + 1]]
				minimal = full[-13:]
				for start in range(len(full) - 2, max(-1, len(full) - 14), -1):
					probe = LoopRig(ctx, cache_dir=ref_cache)
					part = full[start:]
					if probe.run_script([('lines', x) for x in part]) == f'running {len(part)}' and _turn_outcome(probe.turn_outputs()[len(part) - 1]) == got:
						minimal = part
						break
				res.findings.append(Finding(key=key, what=f'the request {r!r} alone in a fresh session ends {want[0]}, after {minimal[:-1]!r} in the same session it ends {got[0]}'
					+ (' (another program is transpiled)' if got[0] == want[0] else ''),
					replay={'kind': 'session', 'requests': minimal, 'status': out, 'expected': _expected_session(minimal), 'alone': want[0], 'in_session': got[0]}))
				ctx.notes.append(f'finding key={key} | session {minimal!r}: last request alone → {want[0]}, in the session → {got[0]}')
			fed.extend(reqs)
			if out.startswith('quit'):
				rig, fed = LoopRig(ctx), []
			continue
		report('requests', reqs, out, expected, int(out.rsplit(' ', 1)[1]), lambda probe, part: probe.run_script([('lines', r) for r in part]))
		rig, fed = LoopRig(ctx), []  # the session is over; start a new one
	for keys in transcripts:
		if _dl_sessions.over():
			continue
		res.cases += 1
		expected = _expected_keys(keys)
		out = rig.run_keys(keys)
		hist['keys/' + out.split(' ')[0]] += 1
		if out == expected:
			if out.startswith('quit'):
				rig = LoopRig(ctx)
			continue
		report('keys', keys, out, expected, int(out.rsplit(' ', 1)[1]), lambda probe, part: probe.run_keys(part))
		rig = LoopRig(ctx)
	res.distinct = len({tuple(h) for h in histories}) + len({tuple(k) for k in transcripts})
	res.histogram = dict(hist)
	res.note = (f'{len(histories)} sessions of 2..6 requests handed over by a scripted tty: valid programs, ill-typed templates, unparsable texts, programs importing from their '
		f'own module (one-module import cycle), token mutations, EMPTY requests; {len(transcripts)} keyboard transcripts read by the real tty() (scripted readline): blank and '
		'whitespace-only lines, repeated Enter, `exit` inside a request')
	return res


# ---------------------------------------------------------------------------------------------
# search: interactive sessions in which the user edits an IMPORTED on-disk module between two prompts

_FE_BAD = 'def f(a: Undefined) -> None: ...\n'
_FE_USE = ['from pkg.m import f', 'x = f + 1']
FILE_EDIT_SESSIONS: list[list[tuple[str, Any]]] = [
	# the imported module is shortened: the session keeps the module (and its nodes) of the first load
	[('write', 'pkg/m.py', '# 1\n# 2\n# 3\n# 4\n' + _FE_BAD), ('lines', _FE_USE), ('write', 'pkg/m.py', _FE_BAD), ('lines', _FE_USE), ('lines', ['b = 2'])],
	# … grows (the error moves down), … is emptied, … is removed
	[('write', 'pkg/m.py', _FE_BAD), ('lines', _FE_USE), ('write', 'pkg/m.py', 'class A: ...\n\n\n\n' + _FE_BAD), ('lines', _FE_USE), ('lines', ['b = 2'])],
	[('write', 'pkg/m.py', '\n\n' + _FE_BAD), ('lines', _FE_USE), ('write', 'pkg/m.py', ''), ('lines', _FE_USE), ('lines', [])],
	# a valid module whose user fails: the error carries a node of the imported module's function
	[('write', 'pkg/m.py', '# c\n# c\n# c\ndef f() -> int:\n\treturn 1\n'), ('lines', ['from pkg.m import f', 'x: int = f().nothing']), ('write', 'pkg/m.py', 'def f() -> int: ...\n'),
		('lines', ['from pkg.m import f', 'x: int = f().nothing']), ('lines', ['from pkg.m import f', 'x: int = f()'])],
]


def _run_file_edit_session(ctx: Ctx, script: list[tuple[str, Any]]) -> tuple[str, str, BaseException | None]:
	"""a brand-new Interactive in a brand-new working directory (modules and quotations are resolved relative to the cwd) → (status, expected, exception)"""
	root = ctx.tmpdir()
	os.makedirs(os.path.join(root, 'pkg'))
	with open(os.path.join(root, 'pkg', '__init__.py'), 'w', encoding='utf-8') as f:
		f.write('')
	old_cwd = os.getcwd()
	os.chdir(root)  # before the App exists: its source paths start at the cwd
	try:
		rig = LoopRig(ctx)
		out = rig.run_script([tuple(x) for x in script])  # type: ignore[misc]
	finally:
		os.chdir(old_cwd)
	return out, f"running {sum(1 for x in script if x[0] != 'write')}", rig.last_exc


def search_session_file_edits(ctx: Ctx) -> SearchResult:
	res = SearchResult('interactive sessions with an imported on-disk module edited between two prompts (shortened, grown, emptied): every request is served, every error printed')
	hist: Counter[str] = Counter()
	seen: set[str] = set()
	dl = _deadline(ctx, 'file-edit-sessions', ctx.scale(30, 200))
	witnesses = [[tuple(x) for x in rec['script']] for rec in load_corpus() if rec.get('kind') == 'file-edit-session']
	for script in [*witnesses, *(FILE_EDIT_SESSIONS if ctx.thorough else FILE_EDIT_SESSIONS[1:3])]:
		if dl.over():
			continue
		res.cases += 1
		out, expected, e = _run_file_edit_session(ctx, script)
		hist[out.split(' ')[0]] += 1
		if out == expected:
			continue
		key = 'loop:' + (pl.escape_key(e, 'on-disk') if e is not None else f'file-edit:{out.split(" ")[0]}-instead-of-running')
		hist[key] += 1
		if key in seen:
			continue
		seen.add(key)
		res.findings.append(Finding(key=key, what=f'Interactive.run ended with {out!r} (expected {expected!r}) on the session {script!r}',
			replay={'kind': 'file-edit-session', 'script': [list(x) for x in script], 'status': out, 'tranp_frames': pl.tranp_frames(e)[-6:] if e is not None else []}))
		ctx.notes.append(f'finding key={key} | session {script!r} → {out}')
	res.distinct = res.cases
	res.histogram = dict(hist)
	return res


# ---------------------------------------------------------------------------------------------
# search: the interactive mode end to end — a fresh `python -m rogw.tranp.bin.transpile -it` process fed raw bytes on stdin
# (the real bin/_input.sh, readline, tty, Interactive.run and the module's __main__ block; nothing is patched)

PROMPT_LINE = 'Python code here. Type `exit` to quit:'
CLI_CPU_S = 60      # CPU seconds of the child (RLIMIT_CPU: immune to machine load; the kernel ends a looping child)
CLI_WALL_S = 300.0  # wall safety net: a session cut by it is counted as skipped, never reported


def _cli_run(root: str, cfg: str, stdin: bytes) -> tuple[str, str]:
	"""→ (status, stdout): status = 'exit <code>' | 'cpu-cap' | 'wall-cap' (wall safety net or a foreign signal: skipped with a count)"""
	import resource
	import signal
	import subprocess
	env = dict(os.environ)
	env['PYTHONPATH'] = os.pathsep.join([os.path.join(common.VERIF, 'compat'), common.REPO, common.VERIF])
	env['PYTHONDONTWRITEBYTECODE'] = '1'
	env['PYTHONIOENCODING'] = 'utf-8'

	def limits() -> None:
		os.setsid()
		resource.setrlimit(resource.RLIMIT_CPU, (CLI_CPU_S, CLI_CPU_S + 5))

	proc = subprocess.Popen([sys.executable, '-m', 'rogw.tranp.bin.transpile', '-c', cfg, '-it'], cwd=root, env=env, stdin=subprocess.PIPE, stdout=subprocess.PIPE,
		stderr=subprocess.STDOUT, preexec_fn=limits)
	try:
		out, _ = proc.communicate(stdin, timeout=CLI_WALL_S)
	except subprocess.TimeoutExpired:
		with contextlib.suppress(Exception):
			os.killpg(proc.pid, signal.SIGKILL)
		with contextlib.suppress(Exception):
			proc.communicate(timeout=10)
		return 'wall-cap', ''
	text = out.decode('utf-8', errors='replace')
	if proc.returncode == -signal.SIGXCPU:
		return 'cpu-cap', text
	if proc.returncode < 0:  # ended by another signal (the machine's OOM killer, an operator): not an observation of the code
		return 'wall-cap', text
	return f'exit {proc.returncode}', text


def _cli_verdict(lines: list[bytes], status: str, out: str) -> tuple[str, str] | None:
	"""None when the session was served to its end; else (key, what). Expected: one prompt per tty() call that an independent reading
	of the transcript starts, `Quit` as the last line (the transcript always ends with the quit line), exit code 0."""
	import re
	keys = [ln.decode('utf-8', errors='replace') for ln in lines]
	expected = _expected_keys(keys)
	want_prompts = int(expected.split(' ')[1])
	got_prompts = sum(1 for ln in out.split('\n') if ln == PROMPT_LINE)
	tail = [ln for ln in out.split('\n') if ln.strip()]
	if status == 'exit 0' and expected.startswith('quit') and got_prompts == want_prompts and tail and tail[-1] == 'Quit':
		return None
	if status == 'cpu-cap':
		return 'cli:cpu-cap', f'the interactive process used more than {CLI_CPU_S} s of CPU after {got_prompts} of {want_prompts} prompts'
	# what ended the session: `finally: print('Quit')` comes first, then the module's __main__ block prints the exception that left
	# Interactive.run (ErrorRender: stack of `  file:line func` entries, `module.Class: (args)` last) or CPython prints a traceback
	last_quit = max((i for i, ln in enumerate(tail) if ln == 'Quit'), default=-1)
	after = tail[last_quit + 1:] if last_quit >= 0 else tail  # no `Quit` at all: the loop was never entered
	what = f'the interactive process ended with {status} after {got_prompts} of {want_prompts} prompts; last lines {tail[-3:]!r}'
	m = re.match(r'^([A-Za-z_][\w.]*): ', after[-1]) if after else None
	if m is None:
		return f'cli:requests-not-served[{status}]', what
	cls = m.group(1).split('.')[-1]
	frames = [fm.group(1) + ':' + fm.group(2) for ln in after for fm in [re.match(r'^\s+(?:\S*?rogw/tranp/)(\S+?\.py):\d+ (\S+)$', ln)] if fm]
	return f'cli:{cls}@{frames[-1] if frames else "?"}', what


def cli_transcripts(ctx: Ctx, rng: random.Random) -> list[list[bytes]]:
	"""keyboard transcripts as raw byte lines (a terminal delivers bytes): requests separated by a bare Enter, the quit line last.
	No backslash: bash `read` without -r treats it as an escape / line continuation, which changes where a request ends."""
	pool = [x for x in (HISTORY_POOL_EXTRA + [s.rstrip('\n') for s in gen.VALID_PROGRAMS[:6]]) if '\\' not in x]
	out: list[list[bytes]] = [
		[b'a: int = 1', b'', b'', b'x = y', b'', b'def f(:', b'', b'  ', b'b = 2', b'\t', b'exit'],
		[b'', b'b = 2  ', b'', 'c: str = "\u7d42\u4e86"'.encode(), b'', b'exit  '],
	]
	# byte-level mutations of a valid line: bytes that are not UTF-8 (lone start / continuation bytes, a cut multi-byte character)
	base = 'a: str = "\u7d42"'.encode()
	# (never at the very end of a line: in a UTF-8 locale bash `read` completes a started character with the following bytes, the line feed included)
	bad = [b'a = 1\xff', b'a: str = "\xe7\xb5"', b'\x80abc = 1', b'b = "\xc3("', base.replace(b'\xe7', b'\xe7\xe7')]
	for b in (bad if ctx.thorough else [bad[rng.randrange(len(bad))], bad[0]]):
		out.append([b'b = 2', b'', b, b'', b'c = 3', b'', b'exit'])
	for _ in range(ctx.scale(2, 30)):
		lines: list[bytes] = []
		for _i in range(rng.randint(1, 4)):
			r = rng.random()
			if r < 0.2:
				pass
			elif r < 0.85:
				lines += [ln.encode() for ln in _requests_of(rng.choice(pool))]
			else:
				raw = bytearray(rng.choice(pool).split('\n')[0].encode() + b' # end')
				raw[rng.randrange(len(raw) - 5)] = rng.choice([0xff, 0x80, 0xc3, 0xe7, 0x0d])
				lines.append(bytes(raw))
			lines += rng.choice([[b''], [b''], [b'', b''], [b'   ']])
		out.append([*lines, b'exit'])
	return out


def _cli_config(root: str) -> str:
	repo = common.REPO
	cfg = os.path.join(root, 'config.yml')
	with open(cfg, 'w', encoding='utf-8') as f:
		f.write('\n'.join([
			f'grammar: {repo}/data/grammar.lark',
			'template_dirs:', f'  - {repo}/data/cpp/template',
			f'trans_mapping: {repo}/data/i18n.yml',
			'input_globs:', f'  - {repo}/example/json.py',  # never loaded in the interactive mode; the list only has to be non-empty
			'output_dirs:', f'  - {root}/out/',
			'output_language: cpp:h',
			'exclude_patterns: []',
			'env:', '  transpiler: {}', '  view:', '    immutable_param_types: []', '',
		]))
	return cfg


def search_cli_sessions(ctx: Ctx) -> SearchResult:
	res = SearchResult('interactive mode end to end: a fresh `python -m rogw.tranp.bin.transpile -it` process with raw bytes on stdin serves every request and leaves through the quit line')
	rng = ctx.sub_rng('cli-sessions')
	root = ctx.tmpdir()
	cfg = _cli_config(root)
	hist: Counter[str] = Counter()
	seen: set[str] = set()
	skipped = 0
	dl = _deadline(ctx, 'cli-sessions', ctx.scale(45, 400))
	transcripts = [[bytes.fromhex(h) for h in rec['lines_hex']] for rec in load_corpus() if rec.get('kind') == 'cli-session'] + cli_transcripts(ctx, rng)
	for lines in transcripts:
		if dl.over():
			continue
		res.cases += 1
		try:
			status, out = _cli_run(root, cfg, b'\n'.join(lines) + b'\n')
		except Exception as e:  # noqa: BLE001 — the harness could not start the process: not an observation of the code
			skipped += 1
			hist[f'not-started:{type(e).__name__}'] += 1
			continue
		if status == 'wall-cap':
			skipped += 1
			hist['wall-cap or foreign signal (skipped)'] += 1
			continue
		v = _cli_verdict(lines, status, out)
		hist['served' if v is None else v[0]] += 1
		if v is None or v[0] in seen:
			continue
		seen.add(v[0])
		res.findings.append(Finding(key=v[0], what=v[1] + f' — stdin lines {lines!r}', replay={'kind': 'cli-session', 'lines_hex': [ln.hex() for ln in lines], 'status': status}))
		ctx.notes.append(f'finding key={v[0]} | stdin lines {lines!r}')
	if skipped:
		ctx.notes.append(f'cli-sessions: {skipped} session(s) skipped (process not started, ended by a foreign signal, or {CLI_WALL_S:.0f} s wall cap)')
	res.distinct = len({tuple(t) for t in transcripts})
	res.histogram = dict(hist)
	res.note = (f'{len(transcripts)} keyboard transcripts as raw bytes (blank and whitespace-only lines, trailing blanks, non-ASCII text, bytes that are not UTF-8, control bytes); '
		'oracle: one prompt per request an independent reading of the transcript finds, `Quit` last, exit code 0; child CPU capped by RLIMIT_CPU')
	return res


# ---------------------------------------------------------------------------------------------
# search: run-to-run histories over a shared cache directory


def search_cache_history(ctx: Ctx) -> SearchResult:
	"""Run 1 loads an on-disk module (caches on); the file is rewritten; run 2 — a fresh App over the same project and cache directory —
	loads it again. The outcome class of run 2 must be the outcome class the new text has with an empty cache (in particular: text the
	grammar rejects is Errors.Syntax). The rewrite keeps the mtime inside the same whole second (sub-second difference), moves it by
	seconds, or leaves the size equal — the cases a coarse cache identity would confuse."""
	res = SearchResult('run-to-run histories: rewrite an on-disk module between two runs sharing the cache directory; run 2 reports the NEW text (unparsable → Errors.Syntax)')
	rng = ctx.sub_rng('cache-history')
	valid = ['a: int = 1\n', 'def f(x: int) -> int:\n\treturn x\n', 'class A:\n\tdef m(self) -> int:\n\t\treturn 1\n']
	changed = ['a = = 1\n', 'def f(:\n', 'class A(:\n', 'a: int = $\n', 'x = y\n', 'class A:\n\tdef m(self) -> int:\n\t\treturn self.z\n', 'b: str = "s"\n']
	base = ctx.tmpdir()
	hist: Counter[str] = Counter()
	t_sec = int(time.time()) - 1000
	plans = [(v, c, dt) for v in valid for c in changed for dt in ('same-second', 'next-second')]
	plans += [(c, v, 'same-second') for v in valid[:1] for c in changed[:4]]  # broken first, then repaired
	if not ctx.thorough:
		plans = [pl_ for i, pl_ in enumerate(plans) if i % 15 == ctx.seed % 15 or (pl_[0] == valid[0] and pl_[1] in (changed[0], changed[4]) and pl_[2] == 'same-second')]
	# one project and one cache directory for the whole search (the library modules' caches stay warm: an App start costs ~0.2 s instead
	# of ~1.3 s); every plan uses its own module names, so the module under test is cold in run 1 and in the reference run
	home = pl.Pipeline('on-disk', base)
	shared = (home.proj, os.path.join(home.root, 'cache'))
	home.run('a: int = 0\n')  # warms the library caches

	def fresh_run(module_file: str) -> pl.Outcome:
		p = pl.Pipeline('on-disk', base, share=shared)
		try:
			return p.load_existing(f'fz.{module_file}')
		finally:
			shutil.rmtree(p.root, ignore_errors=True)

	_dl_cache_history = _deadline(ctx, 'cache-history', ctx.scale(60, 600))
	for k, (first, second, dt) in enumerate(plans):
		if _dl_cache_history.over():
			continue
		res.cases += 1
		path = os.path.join(home.proj, 'fz', f'h{k}.py')
		with open(path, 'wb') as f:
			f.write(first.encode('utf-8'))
		os.utime(path, ns=(t_sec * 10**9 + 100_000_000, t_sec * 10**9 + 100_000_000))
		o1 = fresh_run(f'h{k}')
		with open(path, 'wb') as f:
			f.write(second.encode('utf-8'))
		t2 = t_sec * 10**9 + 600_000_000 if dt == 'same-second' else (t_sec + 1) * 10**9 + 100_000_000
		os.utime(path, ns=(t2, t2))
		o2 = fresh_run(f'h{k}')
		with open(os.path.join(home.proj, 'fz', f'c{k}.py'), 'wb') as f:
			f.write(second.encode('utf-8'))
		oc = fresh_run(f'c{k}')
		got, want = (o2.cls or o2.kind).split('.')[-1], (oc.cls or oc.kind).split('.')[-1]
		hist[f'{dt}/{want}'] += 1
		if got != want:
			res.findings.append(Finding(key=f'stale-cache:{want}->{got}[{dt}]',
				what=f'run 1 loaded {first!r} ({(o1.cls or o1.kind).split(".")[-1]}); the file was rewritten as {second!r} ({dt}); run 2 over the same cache directory reports {got}, an empty cache reports {want}',
				replay={'kind': 'cache-history', 'first': first, 'second': second, 'mtime': dt, 'run2': got, 'cold': want}))
	home.close()
	_ = rng
	res.distinct = res.cases
	res.histogram = dict(sorted(hist.items()))
	return res


# ---------------------------------------------------------------------------------------------

STATEMENTS = {
	'proc': 'for every list of nodes and every handler behaviour (return / raise any class — named, user-defined, multiply inheriting — with any arguments): exec ends ok, or with a member of Errors.Error, or with the handler\'s own exception when that is not an Exception; hyp.: node properties do not raise, Errors.Error subclasses accept one-argument construction',
	'proc_passthrough': 'an exception that is not an Exception (KeyboardInterrupt, SystemExit, user BaseException) leaves exec unchanged — for every such class',
	'proc_full_counterexample': 'NEGATIVE: without the node-property hypothesis the statement is false — a KeyError raised while __make_event evaluates a node property escapes exec raw',
	'parse_disk': 'the on-disk branch of __load_entry turns every Exception into Errors.Syntax (nothing is parsed on a cache hit)',
	'parse_mem_counterexample': 'NEGATIVE (pinned tree): with no except clause around the in-memory branch the raw parser exception escapes (witness: lark UnexpectedToken)',
	'parse_mem_fixed': 'with the on-disk except clauses around the in-memory branch (proposed fix) every Exception becomes Errors.Syntax',
	'load_normalised': 'Modules.load with the clauses `except Errors.Error: raise` / `except Exception: raise Errors.Fatal` ends ok, in the Errors.Error hierarchy, or with a non-Exception — whatever libraries, loader, dependencies, preprocessors and the rollback raise',
	'load_unnormalised_counterexample': 'NEGATIVE (pinned tree, no clauses): an IndexError of a preprocessor leaves Modules.load raw',
	'exec_steps_bounded': '__exec_impl hands each node of the finite list to __process at most once',
	'unload_terminates': 'Modules.unload terminates on EVERY import graph (cycles, self-imports) with fuel registered+1: removal precedes the cascade',
	'unload_cascade_first_counterexample': 'NEGATIVE (order of seeded/C07-4, not HEAD): cascade before removal exhausts every fuel on a self-importing module',
	'load_walk_terminates': 'Modules.load without a pending library phase terminates on every import graph with fuel unregistered+1 (registration precedes the imports)',
	'load_terminates': 'the full Modules.load (library modules loaded before the module registers itself, re-check, imports) terminates on every import graph over a closed finite module set with fuel 2·unregistered',
	'loop_steps_bounded': 'Interactive.run consumes a history of n inputs in at most n steps; parser-side termination is C11.T1_termination (self-hosted) / assumed for lark',
	'transpile_normalised': 'Py2Cpp.transpile = one Procedure.exec without except clause of its own: inherits proc (hyp.: node properties do not raise)',
	'transpile_full_counterexample': 'NEGATIVE: an exception of procedural() / a node property during __make_event leaves Py2Cpp.transpile raw (nothing in Py2Cpp.transpile, Runner or Interactive converts it)',
	'main_reports': 'batch mode: the first failing target ends Runner._run_impl; every Exception is printed by __main__ through ErrorRender (process ends normally if the render succeeds); non-Exceptions and render failures leave the process',
	'render_stacktrace_total': '__build_stacktrace is total when format_exception returned ≥ 2 entries, each containing a line feed (frames outside tranp, missing/undecodable source lines only change the text)',
	'render_total_all': 'render() is defined iff stack trace, quotation and message are',
	'tables_are_audit_projections': 'the ten except tables the model interprets equal the clauses the generated audit lists for those functions (one source of truth)',
	'audit_no_hidden_swallow': 'over ALL except clauses of rogw/tranp on the audited paths: a clause that does not re-raise catches members of the Errors.Error hierarchy only, or is one of four named sinks (prompt KeyboardInterrupt, __main__ report, renderer repr fallback, writer retry)',
	'audit_dynamic_clause_unique': 'the only clause with a dynamic class list is lang/error.py raises(), unused on the audited paths (translator check)',
	'normalising_sites_convert_all': 'Procedure.__emit and Modules.load convert EVERY Exception class (any class, CtorOk) into the hierarchy, both parser branches into Errors.Syntax — from the generated tables via the decidable criterion coversException',
	'ctorOk_named / proc_named': 'the constructor hypothesis of proc holds for every named class; proc without it for handlers raising named classes',
	'loop_handles_all_errors': 'every member of the generated Errors hierarchy with every argument shape is printed and the loop continues',
	'turn_survives': 'a turn (unload ok, load and transpile ok or in the hierarchy) returns to the prompt',
	'quit_test_total': 'the quit test of Interactive.run (generated from the source as a ReqTest term) raises for NO request — the empty one included — and is true exactly for the quit command tty() returns',
	'request_step': 'one pass of the loop for a request given as a list of lines = the abstract step: quit on the quit command, otherwise the outcome decides (so loop / loop_history / turn_survives cover every request)',
	'request_survives': 'every request other than the quit command with an outcome in {ok} ∪ Errors.Error returns to the prompt',
	'quit_test_unguarded_counterexample': 'NEGATIVE: `lines[0] == quit line` without the length guard raises IndexError on the empty request outside the inner try and ends the session',
	'render_quotation_stale_counterexample': 'NEGATIVE (pinned shape, position guard only): a node on line 5 of a file that holds one line NOW makes __build_quotation raise IndexError — the hypothesis of render_total is not established by the code (finding loop:IndexError@view/error_render.py:ErrorRender.Quotation.__load_line)',
	'render_quotation_guarded_total': 'with the position guard and the line guard (generated flag quotationLineGuard; proposed/C07-quotation-stale-line.diff) __build_quotation never raises: for every argument kind, file content and source map it returns a quotation or nothing',
	'tty_raise_unprotected': 'NEGATIVE (the hazard behind finding cli:UnicodeDecodeError@bin/io.py:readline): `lines = tty(prompt)` is outside the inner try — every exception of tty()/readline other than KeyboardInterrupt, Errors.Error included, ends the session',
	'tty_request_shape': 'for every keyboard transcript tty() hands over a request without empty lines, containing the quit line only as the whole quit command, and consumes at least one key',
	'tty_quit_typed': 'the keys left by tty() are keys of the transcript; the quit command is handed over only when the quit line was typed',
	'session_survives': 'for EVERY keyboard transcript and every serving of requests — depending on the request and on everything served before — with outcomes in {ok} ∪ Errors.Error (printable), Interactive.run ends at the prompt or through the quit command, and the latter only when the quit line was typed',
	'session_fuel_irrelevant': 'the fuel of the session model is never the reason a session stops (any two fuels above the number of keys agree)',
	'turn_unload_unprotected': 'the unload stage of rebuild_module runs outside Modules.load: a non-hierarchy Exception raised there ends the loop (hazard; not reachable by input on HEAD)',
	'unload_clears_importers': 'for a duplicate-free registry Modules.unload(p) ends with p gone and no registered module importing p (no non-library module left when p is a library) — the law searched on the real code as graph-unload:stale-importer',
	'writer_flush_outcome': 'Writer.flush ends ok, or with the exception of the directory creation, of a first attempt that is not retried, or of the second attempt',
	'writer_retry_table': 'the retry clause of the audit at Writer.flush catches PermissionError only',
	'loop': 'an Interactive step returns to the prompt for every outcome in {ok} ∪ Errors.Error (any subclass) when printing the error succeeds',
	'loop_history': 'every history of such steps is consumed completely and the loop is still running',
	'loop_dies': 'any other Exception ends Interactive.run (what the raw parser exception does on the pinned tree)',
	'loop_parse_fixed': 'after the in-memory fix every parser failure keeps the loop alive',
	'render_message_total': '__build_message is defined iff str(arg) succeeds for every non-str argument',
	'render_quotation_total': 'Quotation(...) is defined iff -#lines ≤ begin_line < #lines (exact guard); otherwise IndexError',
	'render_total': 'in lark terms: a node on line 1..#lines (or line 0 with a non-empty file) is always quotable',
}


def _guarded(ctx: Ctx, fn: Any, crashes: SearchResult) -> Any:
	"""Safety net: a stream / search that cannot complete on THIS tree (an exception of the real code in a place no oracle wraps, e.g.
	while the rig builds the App) must not end the check with exit 2 — that would be a missed change. The unchanged tree completes every
	one of them, so the crash itself is the observation: reported as a finding with the innermost frames, the other streams still run."""
	import traceback
	crashes.cases += 1
	try:
		return fn(ctx)
	except (KeyboardInterrupt, SystemExit, common.InfraError):
		raise
	except BaseException as e:  # noqa: BLE001
		frames = traceback.extract_tb(e.__traceback__)
		inner = [f for f in frames if 'rogw' + os.sep + 'tranp' in f.filename]
		where = (inner[-1].filename.split('rogw' + os.sep + 'tranp' + os.sep)[-1] + ':' + inner[-1].name) if inner else 'harness'
		key = f'crash:{fn.__name__}:{type(e).__name__}@{where}'
		tail = [f'{os.path.basename(f.filename)}:{f.lineno} {f.name}' for f in frames[-6:]]
		crashes.findings.append(Finding(key=key, what=f'{fn.__name__} could not complete on this tree: {type(e).__name__}: {str(e)[:200]} — frames {tail}',
			replay={'kind': 'crash', 'stage': fn.__name__, 'frames': tail}))
		ctx.notes.append(f'finding key={key} | {fn.__name__} raised {type(e).__name__}: {str(e)[:200]}')
		return None


def run(ctx: Ctx) -> int:
	translate_ok, translate_msg = True, ''
	with ctx.timed('translate'):
		try:
			from translate import gen_errors
			ctx.generated_tables.extend(gen_errors.generate())
		except Exception as e:  # noqa: BLE001
			translate_ok, translate_msg = False, f'{type(e).__name__}: {e}'
			ctx.notes.append(f'translator failed: {translate_msg}')
			print(f'[{PROP}] translator failed (the tie is broken): {translate_msg}', file=sys.stderr)
	proof = common.prove(ctx, PROP, leanchecker=ctx.thorough)
	streams: list[Stream] = []
	crashes = SearchResult('every stream and search completes on this tree (an exception of the real code outside every oracle is reported, not an infrastructure failure)')
	if proof.built:
		with ctx.timed('correspondence'):
			streams = []
			for fn in (stream_hierarchy, stream_proc, stream_parse, stream_load, stream_graph, stream_writer, stream_loop, stream_render, stream_trace, stream_main):
				with ctx.timed(f'stream:{fn.__name__}'):
					st = _guarded(ctx, fn, crashes)
					if st is not None:
						streams.append(st)
	with ctx.timed('search'):
		searches = []
		for fn in (search_f3_replay, search_laws, search_render_nodes, search_render_histories, search_cache_history, search_loop_histories, search_session_file_edits, search_cli_sessions, search_fuzz):
			with ctx.timed(f'search:{fn.__name__}'):
				sr = _guarded(ctx, fn, crashes)
				if sr is not None:
					searches.append(sr)
	crashes.distinct = crashes.cases
	crashes.histogram = {'completed': crashes.cases - len(crashes.findings), 'crashed': len(crashes.findings)}
	searches.append(crashes)
	_report_deadlines(ctx)
	wrapped = bool(ctx.generated_tables and ctx.generated_tables[0].get('mem_branch_wrapped'))
	ctx.notes.append('in-memory parser branch on this tree: ' + ('wrapped (parse_mem_fixed applies)' if wrapped else 'NOT wrapped (parse_mem_counterexample applies; F3)'))
	return common.finish(ctx, proof, streams, searches,
		translate_ok=translate_ok, translate_msg=translate_msg,
		statements=STATEMENTS,
		partial={
			'proved': 'exception normalisation of Procedure (handlers), both parser branches, the Interactive loop catch set, the request boundary of the interactive mode (generated quit test total on every request incl. the empty one; tty() request shape; whole keyboard sessions end at the prompt or through the quit line), message/quotation totality guards — on the model',
			'false_on_pinned_tree': 'parse_mem (in-memory parser branch, F3) and proc_full (node properties raising inside __make_event) — counterexamples proved, F3 replayed on the real code',
			'correspondence_only': 'Python semantics assumed by the model (issubclass via __mro__, except-clause order, keyword-mismatch TypeError) — exercised by the streams',
			'search_only': 'absence of raising node properties during transpile (the hypothesis of proc / transpile_normalised: 0 transpile-stage escapes in the fuzz); termination of lark and of the recursive tree walks on deep inputs (10 s CPU cap; RecursionError is normalised to Errors.Fatal); the regression baseline corpus/C07/fatal_sites_baseline.txt lists the crash sites that are repaired by normalisation only',
		},
		assumptions=[
			'exception classes have single-argument construction unless they define their own __init__ (generated table definesCtor; checked for Errors.*)',
			'source files are valid UTF-8 when a Node-carrying error is rendered (a Node exists only after a successful parse of the decoded file)',
			'cache files written by tranp itself are intact (a corrupted AST cache is outside the input quantifier)',
			'session_survives: bin/io.py readline returns a str for every typed line (the keys of the model are strings) — FALSE for a line that is not UTF-8 on the pinned tree: finding cli:UnicodeDecodeError@bin/io.py:readline, exhibited end to end by search_cli_sessions',
		],
		trusted=['lark (raises only Exception subclasses from parse; terminates)', 'the four stand-alone tools bin/{j2_check,gram_check,ast_check,analyze}.py, compatible/ and test/ are outside the except-clause audit (on no path from the public entry points)', 'CPython traceback.format_exception (every entry ends with a line feed) and the re engine (frame pattern)', 'self-hosted parser termination: Tranp.C11.T1_termination'])


def replay(ctx: Ctx, path: str) -> int:
	with open(path, encoding='utf-8') as f:
		rec = json.load(f)
	print(json.dumps({k: v for k, v in rec.items() if k != 'input'}, indent=1)[:2000])
	if rec.get('kind') == 'failing-input' and rec['input'].get('kind') == 'crash':
		fn = globals().get(str(rec['input'].get('stage')))
		crashes = SearchResult('')
		if callable(fn) and str(rec['input'].get('stage')).startswith(('stream_', 'search_')):
			_guarded(ctx, fn, crashes)
		known = {k['key'] for k in common.load_known(PROP) if k.get('status') == 'known'}
		bad = [f for f in crashes.findings if f.key not in known]
		print(f"replay: stage {rec['input'].get('stage')} -> {'; '.join(f.what[:300] for f in crashes.findings) or 'completed'}")
		if bad:
			print(f'VIOLATION property={PROP} replay={os.path.relpath(path, common.VERIF)}')
		ctx.cleanup()
		return 1 if bad else 0
	if rec.get('kind') == 'failing-input' and rec['input'].get('kind') == 'render-node':
		r = search_render_nodes(ctx, only=(rec['input']['mode'], rec['input']['source']))
		known = {k['key'] for k in common.load_known(PROP) if k.get('status') == 'known'}
		bad = [f for f in r.findings if f.key not in known]
		print(f"replay: render law on the {rec['input']['mode']} module {rec['input']['source']!r}: {r.cases} renders, {'; '.join(f.key for f in r.findings) or 'all defined'}")
		if bad:
			print(f'VIOLATION property={PROP} replay={os.path.relpath(path, common.VERIF)}')
		ctx.cleanup()
		return 1 if bad else 0
	if rec.get('kind') == 'failing-input' and rec['input'].get('kind') == 'render-history':
		# the history reaches back over the chains rendered before (one process): re-run the search of that tier and seed, look for the key
		ctx2 = Ctx(PROP, rec.get('tier', 'quick'), int(rec.get('seed', 0)))
		r = search_render_histories(ctx2)
		ctx2.cleanup()
		known = {k['key'] for k in common.load_known(PROP) if k.get('status') == 'known'}
		hit = [f for f in r.findings if f.key == rec.get('key')]
		print(f"replay: render histories -> {'reproduced: ' + hit[0].what[:400] if hit else 'key not reproduced'}; all keys {[f.key for f in r.findings]}")
		for f in hit:
			if f.key in known:
				print(f'KNOWN-FINDING: property={PROP} [key={f.key}]')
		bad = [f for f in hit if f.key not in known]
		if bad:
			print(f'VIOLATION property={PROP} replay={os.path.relpath(path, common.VERIF)}')
		ctx.cleanup()
		return 1 if bad else 0
	if rec.get('kind') == 'failing-input' and rec['input'].get('kind') == 'file-edit-session':
		out, expected, e = _run_file_edit_session(ctx, [tuple(x) for x in rec['input']['script']])
		key = 'loop:' + (pl.escape_key(e, 'on-disk') if e is not None else f'file-edit:{out.split(" ")[0]}-instead-of-running')
		print(f"replay: session {rec['input']['script']!r} -> {out} (expected {expected})" + (f' key {key}' if out != expected else ''))
		known = {k['key'] for k in common.load_known(PROP) if k.get('status') == 'known'}
		if out != expected and key in known:
			print(f'KNOWN-FINDING: property={PROP} [key={key}]')
		bad = out != expected and key not in known
		if bad:
			print(f'VIOLATION property={PROP} replay={os.path.relpath(path, common.VERIF)}')
		ctx.cleanup()
		return 1 if bad else 0
	if rec.get('kind') == 'failing-input' and rec['input'].get('kind') == 'cli-session':
		lines = [bytes.fromhex(h) for h in rec['input']['lines_hex']]
		root = ctx.tmpdir()
		status, out = _cli_run(root, _cli_config(root), b'\n'.join(lines) + b'\n')
		v = None if status == 'wall-cap' else _cli_verdict(lines, status, out)
		print(f'replay: cli session {lines!r} -> {status}: {v[0] + " | " + v[1] if v else "served"}')
		known = {k['key'] for k in common.load_known(PROP) if k.get('status') == 'known'}
		if v and v[0] in known:
			print(f'KNOWN-FINDING: property={PROP} [key={v[0]}]')
		bad = bool(v) and v[0] not in known
		if bad:
			print(f'VIOLATION property={PROP} replay={os.path.relpath(path, common.VERIF)}')
		ctx.cleanup()
		return 1 if bad else 0
	if rec.get('kind') == 'failing-input' and (rec['input'].get('kind') == 'cache-history' or 'source' not in rec['input']) and rec['input'].get('kind') != 'session':
		# law / history findings carry their own description; re-evaluate the searches they come from and look for the key again
		ctx2 = Ctx(PROP, 'thorough' if rec['input'].get('kind') == 'cache-history' else rec.get('tier', 'quick'), int(rec.get('seed', 0)))
		found = [f for srch in (search_cache_history(ctx2), search_laws(ctx2)) for f in srch.findings if f.key == rec.get('key')]
		ctx2.cleanup()
		print(f"replay: key {rec.get('key')} {'reproduced: ' + found[0].what[:300] if found else 'not reproduced'}")
		known = {k['key'] for k in common.load_known(PROP) if k.get('status') == 'known'}
		if found and rec.get('key') not in known:
			print(f'VIOLATION property={PROP} replay={os.path.relpath(path, common.VERIF)}')
			return 1
		return 0
	if rec.get('kind') == 'failing-input' and rec['input'].get('kind') == 'session':
		rig = LoopRig(ctx)
		inp = rec['input']
		if 'keys' in inp:
			out, expected = rig.run_keys(inp['keys']), _expected_keys(inp['keys'])
		elif 'requests' in inp:
			out, expected = rig.run_script([('lines', r) for r in inp['requests']]), _expected_session(inp['requests'])
		else:
			out, expected = rig.run_script([('src', x) for x in inp['session']]), f"running {len(inp['session'])}"
		print(f"replay: session {inp.get('keys') or inp.get('requests') or inp.get('session')!r} -> {out} (expected {expected})")
		known = {k['key'] for k in common.load_known(PROP) if k.get('status') == 'known'}
		bad = out != expected and rec.get('key') not in known
		if 'alone' in inp and 'requests' in inp and out == expected:
			# a history finding: the last request must end as it does alone in a fresh session
			got = _turn_outcome(rig.turn_outputs()[len(inp['requests']) - 1])
			ref = LoopRig(ctx)
			ref.run_script([('lines', inp['requests'][-1])])
			want = _turn_outcome(ref.turn_outputs()[0])
			print(f'replay: last request in the session -> {got[0]}; alone in a fresh session -> {want[0]}' + ('' if got == want else '  (DIFFERENT)'))
			bad = got != want and rec.get('key') not in known
		if bad:
			print(f'VIOLATION property={PROP} replay={os.path.relpath(path, common.VERIF)}')
		ctx.cleanup()
		return 1 if bad else 0
	if rec.get('kind') == 'failing-input':
		inp = rec['input']
		data: str | bytes = bytes.fromhex(inp['source_hex']) if inp.get('source_hex') else inp['source']
		helper = pl.Pipeline('in-memory', ctx.tmpdir())
		o = pl.fresh_outcome(inp['mode'], ctx.tmpdir(), data, prefix=list(inp.get('history') or []), post=make_syntax_oracle(helper))
		helper.close()
		print(f"replay: mode={inp['mode']} outcome={o.kind} class={o.cls} keys={o.keys()} render={o.render}")
		print(f'source: {_as_text(data)!r}')
		known = {k['key'] for k in common.load_known(PROP) if k.get('status') == 'known'}
		bad = [k for k in o.keys() if k not in known]
		for k in o.keys():
			if k in known:
				print(f'KNOWN-FINDING: property={PROP} [key={k}]')
		if bad:
			print(f'VIOLATION property={PROP} replay={os.path.relpath(path, common.VERIF)}')
			ctx.cleanup()
			return 1
		ctx.cleanup()
		return 0
	ctx2 = Ctx(PROP, rec.get('tier', 'quick'), int(rec.get('seed', 0)))
	return run(ctx2)
