"""On-disk tranp projects in a temp directory (C15/C16): modules that exist as files go through the syntax-tree cache
(`SyntaxParserOfLark.__load_entry` → `EntryStored.save/load`), in-memory modules never do.

Every App made here binds `CacheSetting` to a private temp directory (never /repo/.cache), `DataEnvPath` to /repo (grammar)
and `SourceEnvPath` to [project dir, /repo, /repo/rogw/tranp/compatible/libralies].
"""
from __future__ import annotations

import os
from typing import Any

from harness.common import REPO, tranp_definitions


class DiskProject:
	def __init__(self, root: str, cache_dir: str) -> None:
		self.root = root
		self.cache_dir = cache_dir
		os.makedirs(root, exist_ok=True)
		os.makedirs(cache_dir, exist_ok=True)

	def write(self, module_path: str, source: str | bytes) -> str:
		rel = module_path.replace('.', os.sep) + '.py'
		full = os.path.join(self.root, rel)
		os.makedirs(os.path.dirname(full), exist_ok=True)
		with open(full, 'wb') as f:
			f.write(source.encode('utf-8') if isinstance(source, str) else source)
		return rel

	def app(self, module_paths: list[str]) -> Any:
		"""A fresh App (fresh DI container, nothing memoised in-process) on the same cache directory."""
		from rogw.tranp.app.app import App
		from rogw.tranp.app.env import DataEnvPath, SourceEnvPath
		from rogw.tranp.lang.module import to_fullyname
		from rogw.tranp.module.types import ModulePath, ModulePaths
		defs = tranp_definitions(self.cache_dir, {
			to_fullyname(ModulePaths): lambda: [ModulePath(p, language='py') for p in module_paths],
			to_fullyname(DataEnvPath): lambda: DataEnvPath([REPO]),
			to_fullyname(SourceEnvPath): lambda: SourceEnvPath([self.root, REPO, os.path.join(REPO, 'rogw/tranp/compatible/libralies')]),
		})
		return App(defs)

	def parse(self, module_path: str) -> Any:
		"""Root EntryOfLark of a module through the real parser (fresh parse on a cold cache, restored tree on a warm one)."""
		from rogw.tranp.syntax.ast.parser import SyntaxParser
		return self.app([module_path]).resolve(SyntaxParser)(module_path)

	def entrypoint(self, module_path: str) -> Any:
		from rogw.tranp.syntax.ast.entrypoints import Entrypoints
		return self.app([module_path]).resolve(Entrypoints).load(module_path)

	def tree_cache_files(self) -> list[str]:
		out = []
		for root, _, files in os.walk(self.cache_dir):
			out.extend(os.path.join(root, f) for f in files if f.endswith('.json'))
		return sorted(out)


def is_restored(root_entry: Any) -> bool:
	"""True iff the lark tree behind the entry was built by Serialization.loads rather than by the parser: the lexer stamps
	`start_pos` on every token, `lark.Token(name, value)` in `__loads` leaves it None (independent of the position
	attributes the properties are about). A tree without any token counts as not restored."""
	import lark
	stack = [root_entry.source]
	while stack:
		e = stack.pop()
		if type(e) is lark.Token:
			return e.start_pos is None
		if type(e) is lark.Tree:
			stack.extend(reversed(e.children))
	return False


def all_paths(entrypoint: Any) -> list[str]:
	nodes = entrypoint._Node__nodes
	return list(nodes._Nodes__entries._EntryCache__entries.keys())


def nodes_of(entrypoint: Any) -> Any:
	return entrypoint._Node__nodes


# ---------------------------------------------------------------------------------------------
# budgets: a slow or non-terminating case becomes a finding / a disagreement, never a hang


import signal
import time


class CaseTimeout(Exception):
	"""a single case (real-code call) exceeded its budget"""


CURRENT: dict[str, Any] = {'case': None, 'stats': {}}


def bounded(items: Any, per_case_s: float, deadline_s: float, label: Any = None) -> Any:
	"""Iterates `items`; arms a per-case timer before every item (SIGALRM → CaseTimeout inside the loop body) and stops
	handing out items once the total wall deadline has passed (the number cut is counted in CURRENT['stats'])."""
	t_end = time.time() + deadline_s
	items = list(items)
	try:
		for k, it in enumerate(items):
			if time.time() > t_end:
				CURRENT['stats']['cut-by-wall-deadline'] = CURRENT['stats'].get('cut-by-wall-deadline', 0) + len(items) - k
				break
			CURRENT['case'] = (label(it) if label else repr(it))[:200]
			signal.setitimer(signal.ITIMER_REAL, per_case_s)
			yield it
	finally:
		signal.setitimer(signal.ITIMER_REAL, 0)


def guarded(fn: Any, ctx: Any, on_timeout: Any, on_error: Any = None) -> Any:
	"""Runs one stream/search function with the SIGALRM handler installed; a CaseTimeout that escapes the function is turned
	into its result by `on_timeout(case label)` (a Stream with a disagreement / a SearchResult with a finding). Safety net:
	any other exception that escapes the function (a result of the real code that the harness could not read or format) is
	turned into its result by `on_error(case label, description)` instead of crashing the check (a crash would be exit 2 =
	no verdict); infrastructure failures keep propagating."""
	from harness.common import InfraError

	def handler(signum: int, frame: Any) -> None:
		raise CaseTimeout(CURRENT['case'])

	CURRENT['stats'] = {}
	CURRENT['case'] = None
	old = signal.signal(signal.SIGALRM, handler)
	try:
		out = fn(ctx)
	except CaseTimeout:
		out = on_timeout(CURRENT['case'])
	except InfraError:
		raise
	except Exception as e:  # noqa: BLE001
		if on_error is None:
			raise
		import traceback
		signal.setitimer(signal.ITIMER_REAL, 0)
		frames = traceback.extract_tb(e.__traceback__)[-3:]
		where = ' <- '.join(f'{os.path.basename(f.filename)}:{f.lineno} {f.name}' for f in reversed(frames))
		out = on_error(CURRENT['case'], f'{type(e).__name__}: {str(e)[:300]} [{where}]')
	finally:
		signal.setitimer(signal.ITIMER_REAL, 0)
		signal.signal(signal.SIGALRM, old)
	for r in (out if isinstance(out, tuple) else (out,)):
		for k, v in CURRENT['stats'].items():
			r.histogram[k] = r.histogram.get(k, 0) + v
	return out


def budgets(ctx: Any) -> tuple[float, float]:
	"""(per-case seconds, wall deadline seconds of one stream/search)"""
	return (120.0, 900.0) if ctx.thorough else (60.0, 80.0)
