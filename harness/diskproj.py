"""On-disk tranp projects in a temp directory (C15/C16): modules that exist as files go through the syntax-tree cache
(`SyntaxParserOfLark.__load_entry` → `EntryStored.save/load`), in-memory modules never do.

Every App made here binds `CacheSetting` to a private temp directory (never /repo/.cache), `DataEnvPath` to /repo (grammar)
and `SourceEnvPath` to [project dir, /repo, /repo/rogw/tranp/compatible/libralies].
"""
from __future__ import annotations

import os
from typing import Any

from harness.common import REPO, tranp_definitions


class DiskProject:
	def __init__(self, root: str, cache_dir: str) -> None:
		self.root = root
		self.cache_dir = cache_dir
		os.makedirs(root, exist_ok=True)
		os.makedirs(cache_dir, exist_ok=True)

	def write(self, module_path: str, source: str | bytes) -> str:
		rel = module_path.replace('.', os.sep) + '.py'
		full = os.path.join(self.root, rel)
		os.makedirs(os.path.dirname(full), exist_ok=True)
		with open(full, 'wb') as f:
			f.write(source.encode('utf-8') if isinstance(source, str) else source)
		return rel

	def app(self, module_paths: list[str]) -> Any:
		"""A fresh App (fresh DI container, nothing memoised in-process) on the same cache directory."""
		from rogw.tranp.app.app import App
		from rogw.tranp.app.env import DataEnvPath, SourceEnvPath
		from rogw.tranp.lang.module import to_fullyname
		from rogw.tranp.module.types import ModulePath, ModulePaths
		defs = tranp_definitions(self.cache_dir, {
			to_fullyname(ModulePaths): lambda: [ModulePath(p, language='py') for p in module_paths],
			to_fullyname(DataEnvPath): lambda: DataEnvPath([REPO]),
			to_fullyname(SourceEnvPath): lambda: SourceEnvPath([self.root, REPO, os.path.join(REPO, 'rogw/tranp/compatible/libralies')]),
		})
		return App(defs)

	def parse(self, module_path: str) -> Any:
		"""Root EntryOfLark of a module through the real parser (fresh parse on a cold cache, restored tree on a warm one)."""
		from rogw.tranp.syntax.ast.parser import SyntaxParser
		return self.app([module_path]).resolve(SyntaxParser)(module_path)

	def entrypoint(self, module_path: str) -> Any:
		from rogw.tranp.syntax.ast.entrypoints import Entrypoints
		return self.app([module_path]).resolve(Entrypoints).load(module_path)

	def tree_cache_files(self) -> list[str]:
		out = []
		for root, _, files in os.walk(self.cache_dir):
			out.extend(os.path.join(root, f) for f in files if f.endswith('.json'))
		return sorted(out)


def is_restored(root_entry: Any) -> bool:
	"""True iff the lark tree behind the entry was built by Serialization.loads rather than by the parser: the lexer stamps
	`start_pos` on every token, `lark.Token(name, value)` in `__loads` leaves it None (independent of the position
	attributes the properties are about). A tree without any token counts as not restored."""
	import lark
	stack = [root_entry.source]
	while stack:
		e = stack.pop()
		if type(e) is lark.Token:
			return e.start_pos is None
		if type(e) is lark.Tree:
			stack.extend(reversed(e.children))
	return False


def all_paths(entrypoint: Any) -> list[str]:
	nodes = entrypoint._Node__nodes
	return list(nodes._Nodes__entries._EntryCache__entries.keys())


def nodes_of(entrypoint: Any) -> Any:
	return entrypoint._Node__nodes
