"""Stream `infer-programs` of property C03: the model's typing of whole function bodies vs the real code.

For a generated program (harness/c03_progs.py without Enum / Generic) the user classes are read from the SOURCE with CPython's
`ast` (name, base, members with their declared types) and sent to the Lean driver as a class table; then every function and
method body is walked on tranp's node tree and turned into driver ops over a growing environment:

    env <typed parameters>           (self: the class)
    decl v <expr>                    `v = expr`      real: type_of(declaration of v)        model: infer, env extended
    for ( x y ) <expr>               `for x, y in e` real: type_of of each target           model: iterates + target binding
    here <expr>                      `return expr`, expression statements, conditions       real: type_of(expr)
    bind v <type>                    a declaration whose right-hand side the model does not cover (real type taken over)
    lam <lamctx> ( x y ) <expr>|-    a lambda inside the statement that follows: real: type_of of each parameter symbol and of the
                                     lambda body; model: lambdaParam from where the lambda stands (annotated assignment, argument of a
                                     function / closure / method / constructor, return, immediate call — read from the SOURCE with
                                     CPython's ast, callees found by name) + the body typed with the parameters in scope

This covers, beyond single expressions: attribute / property / method access on user classes through the single-inheritance
chain, constructors, `self.x`, for-loops and comprehensions over list / dict / views / range / enumerate and over user classes
implementing either form of the iterator protocol, and the declaration typing of resolve_unknown (a declaration takes its value's
type; later statements see it).
"""
from __future__ import annotations

import ast
from typing import Any

from harness import c03_expr as X
from harness.c03_search import parse_ty
from harness.common import exc_enum

BUILTIN = {'int': 'int', 'float': 'float', 'bool': 'bool', 'str': 'str'}


def annot_sexp(n: ast.expr | None, classes: set[str]) -> str:
	"""annotation (CPython ast) -> type s-expression of the driver"""
	if n is None:
		raise X.Unsupported('missing annotation')
	if isinstance(n, ast.Constant):
		if n.value is None:
			return 'None'
		if isinstance(n.value, str):
			return annot_sexp(ast.parse(n.value, mode='eval').body, classes)
		raise X.Unsupported('annotation constant')
	if isinstance(n, ast.Name):
		if n.id in BUILTIN:
			return BUILTIN[n.id]
		if n.id in classes:
			return f'( cls {n.id} )'
		raise X.Unsupported(f'annotation name {n.id}')
	if isinstance(n, ast.BinOp) and isinstance(n.op, ast.BitOr):
		def flat(x: ast.expr) -> list[str]:
			return flat(x.left) + flat(x.right) if isinstance(x, ast.BinOp) and isinstance(x.op, ast.BitOr) else [annot_sexp(x, classes)]
		return '( union ' + ' '.join(flat(n)) + ' )'
	if isinstance(n, ast.Subscript) and isinstance(n.value, ast.Name) and n.value.id == 'Callable':
		# Callable[[A, B], R] -> Callable<A, B, R>
		if isinstance(n.slice, ast.Tuple) and len(n.slice.elts) == 2 and isinstance(n.slice.elts[0], ast.List):
			ps = [annot_sexp(x, classes) for x in n.slice.elts[0].elts]
			return '( cls Callable ' + ' '.join([*ps, annot_sexp(n.slice.elts[1], classes)]) + ' )'
		raise X.Unsupported('Callable form')
	if isinstance(n, ast.Subscript) and isinstance(n.value, ast.Name):
		args = list(n.slice.elts) if isinstance(n.slice, ast.Tuple) else [n.slice]
		a = [annot_sexp(x, classes) for x in args]
		h = n.value.id
		if h == 'list' and len(a) == 1:
			return f'( list {a[0]} )'
		if h == 'dict' and len(a) == 2:
			return f'( dict {a[0]} {a[1]} )'
		if h == 'tuple':
			return '( tuple ' + ' '.join(a) + ' )'
		if h == 'Iterator' and len(a) == 1:
			return f'( cls Iterator {a[0]} )'
		if h == 'ClassVar' and len(a) == 1:
			return a[0]
		raise X.Unsupported(f'generic annotation {h}')
	raise X.Unsupported('annotation form')


def class_table(src: str) -> tuple[str, set[str]]:
	"""the user classes of the program as the driver's `ct` s-expression (top-level classes, bases in the written order; nested classes are not modelled)"""
	tree = ast.parse(src)
	classes = {n.name for n in tree.body if isinstance(n, ast.ClassDef)}
	out = []
	for c in tree.body:
		if not isinstance(c, ast.ClassDef):
			continue
		if any(not isinstance(b, ast.Name) or b.id not in classes for b in c.bases):
			raise X.Unsupported(f'bases of {c.name}')
		members: dict[str, tuple[str, str]] = {}
		for st in c.body:
			if isinstance(st, ast.AnnAssign) and isinstance(st.target, ast.Name):
				is_cv = isinstance(st.annotation, ast.Subscript) and isinstance(st.annotation.value, ast.Name) and st.annotation.value.id == 'ClassVar'
				members[st.target.id] = ('classVar' if is_cv else 'field', annot_sexp(st.annotation, classes))
			elif isinstance(st, ast.FunctionDef):
				decos = {d.id for d in st.decorator_list if isinstance(d, ast.Name)}
				kind = 'property' if 'property' in decos else 'classMethod' if 'classmethod' in decos else 'method'
				if st.name == '__init__':
					for s2 in ast.walk(st):
						if isinstance(s2, ast.AnnAssign) and isinstance(s2.target, ast.Attribute) and isinstance(s2.target.value, ast.Name) and s2.target.value.id == 'self':
							members[s2.target.attr] = ('field', annot_sexp(s2.annotation, classes))
					continue
				members[st.name] = (kind, annot_sexp(st.returns, classes))
			elif isinstance(st, ast.ClassDef):
				raise X.Unsupported('nested class')
		ms = ' '.join(f'( {a} {k} {t} )' for a, (k, t) in members.items())
		bases = [b.id for b in c.bases]  # type: ignore[attr-defined]
		out.append(f"( {c.name} {'-' if not bases else bases[0] if len(bases) == 1 else '( ' + ' '.join(bases) + ' )'} {ms} )")
	return '( ' + ' '.join(out) + ' )', classes


def pretty_sexp(p: str) -> str:
	"""tranp's short notation -> type s-expression (for `bind`)"""
	def go(t: tuple[str, list[Any]]) -> str:
		h, a = t
		if h in ('int', 'float', 'bool', 'str', 'None', 'Unknown') and not a:
			return h
		args = ' '.join(go(x) for x in a)
		if h == 'list' and len(a) == 1:
			return f'( list {args} )'
		if h == 'dict' and len(a) == 2:
			return f'( dict {args} )'
		if h == 'tuple':
			return f'( tuple {args} )'
		if h == 'Union':
			return f'( union {args} )'
		if not all(ch.isalnum() or ch == '_' for ch in h):
			raise X.Unsupported(f'type name {h}')
		return f'( cls {h} {args} )'.replace('  ', ' ')
	try:
		return go(parse_ty(p))
	except ValueError as e:
		raise X.Unsupported(str(e)) from e


def real(refl: Any, node: Any) -> str:
	try:
		return 'ok ' + refl.type_of(node).pretty
	except Exception as e:  # noqa: BLE001
		return exc_enum(e)


class Lambdas:
	"""The lambdas of a program read from the SOURCE with CPython's ast: where each one stands (annotated assignment, call argument
	of a function / closure / method / constructor, return value, immediate call) and what that place declares — the `lamctx` of the
	driver op `lam`. Callees are found by name (generated names are unique; an ambiguous or unknown callee is skipped)."""

	def __init__(self, src: str, classes: set[str]) -> None:
		self.classes = classes
		tree = ast.parse(src)
		self.by_span: dict[tuple[int, int, int, int], tuple[ast.Lambda, ast.AST, ast.FunctionDef | None]] = {}
		self.funcs: dict[str, list[ast.FunctionDef]] = {}
		self.methods: dict[str, list[tuple[str, ast.FunctionDef]]] = {}
		self.ctors: dict[str, ast.FunctionDef] = {}

		def walk(n: ast.AST, parent: ast.AST | None, fn: ast.FunctionDef | None, cls: ast.ClassDef | None) -> None:
			if isinstance(n, ast.Lambda) and parent is not None:
				self.by_span[(n.lineno, n.col_offset, n.end_lineno or 0, n.end_col_offset or 0)] = (n, parent, fn)
			if isinstance(n, ast.FunctionDef):
				if cls is not None and fn is None:
					if n.name == '__init__':
						self.ctors[cls.name] = n
					self.methods.setdefault(n.name, []).append((cls.name, n))
				else:
					self.funcs.setdefault(n.name, []).append(n)
			for c in ast.iter_child_nodes(n):
				walk(c, n, n if isinstance(n, ast.FunctionDef) else fn, n if isinstance(n, ast.ClassDef) else (None if isinstance(n, ast.FunctionDef) else cls))

		walk(tree, None, None, None)

	def signature(self, fn: ast.FunctionDef, self_ty: str | None) -> list[str]:
		prms = fn.args.args[1:] if self_ty is not None else fn.args.args
		ret = annot_sexp(fn.returns, self.classes)
		return [*([self_ty] if self_ty is not None else []), *(annot_sexp(p.annotation, self.classes) for p in prms), ret]

	def ctx(self, lam: ast.Lambda, parent: ast.AST, fn: ast.FunctionDef | None) -> str:
		if isinstance(parent, ast.AnnAssign) and parent.value is lam:
			return f'( anno {annot_sexp(parent.annotation, self.classes)} )'
		if isinstance(parent, ast.Return):
			if fn is None:
				raise X.Unsupported('return outside a function')
			return f'( ret {annot_sexp(fn.returns, self.classes)} )'
		if isinstance(parent, ast.Call) and parent.func is lam:
			if parent.keywords:
				raise X.Unsupported('keywords')
			return '( imm ' + ' '.join(X.ast_sexp(a) for a in parent.args) + ' )'
		if isinstance(parent, ast.Call) and lam in parent.args and not parent.keywords:
			k = parent.args.index(lam)
			f = parent.func
			if isinstance(f, ast.Name) and f.id in self.ctors:
				return f'( meth {k} ' + ' '.join(self.signature(self.ctors[f.id], f'( cls {f.id} )')) + ' )'
			if isinstance(f, ast.Name) and len(self.funcs.get(f.id, [])) == 1 and f.id not in self.classes:
				return f'( fn {k} ' + ' '.join(self.signature(self.funcs[f.id][0], None)) + ' )'
			if isinstance(f, ast.Attribute) and len(self.methods.get(f.attr, [])) == 1:
				cls, m = self.methods[f.attr][0]
				return f'( meth {k} ' + ' '.join(self.signature(m, f'( cls {cls} )')) + ' )'
		raise X.Unsupported('lambda position')


def lambda_ops(refl: Any, st: Any, lams: Lambdas, ops: list[str], out: list[str], descs: list[str]) -> None:
	"""the lambdas inside one statement: parameter types (+ body type) in the env before the statement"""
	import rogw.tranp.syntax.node.definition as defs
	for n in st.procedural():
		if not isinstance(n, defs.Lambda):
			continue
		sm = n.source_map
		key = (sm['begin'][0], sm['begin'][1] - 1, sm['end'][0], sm['end'][1] - 1)
		if key not in lams.by_span:
			continue
		lam, parent, fn = lams.by_span[key]
		try:
			ctx = lams.ctx(lam, parent, fn)
		except X.Unsupported:
			continue
		names = [a.arg for a in lam.args.args]
		try:
			body = X.ast_sexp(lam.body)
		except X.Unsupported:
			body = '-'
		rs = [real(refl, s) for s in n.symbols] + ([real(refl, n.expression)] if body != '-' else [])
		if all(r.startswith('ok ') for r in rs):
			r = 'ok ' + ' | '.join(x[3:] for x in rs)
		else:
			r = next(x for x in rs if not x.startswith('ok '))
		ops.append(f"lam\t{ctx}\t( {' '.join(names)} )\t{body}")
		out.append(r)
		descs.append('lambda:' + ctx.split()[1] + (':body' if body != '-' else ''))


def body_ops(refl: Any, stmts: list[Any], ops: list[str], out: list[str], descs: list[str], lams: Lambdas | None = None) -> None:
	"""statements of one body -> driver ops and the real answers (same order)"""
	import rogw.tranp.syntax.node.definition as defs

	def here(e: Any, what: str) -> None:
		try:
			sx = X.node_sexp(e)
		except X.Unsupported:
			return
		ops.append(f'here\t{sx}')
		out.append(real(refl, e))
		descs.append(what)

	for st in stmts:
		if lams is not None and not isinstance(st, (defs.For, defs.If, defs.Function)):
			lambda_ops(refl, st, lams, ops, out, descs)
		if isinstance(st, defs.MoveAssign) and len(st.receivers) == 1 and isinstance(st.receivers[0], defs.DeclLocalVar):
			name = st.receivers[0].tokens
			r = real(refl, st.receivers[0])
			try:
				sx = X.node_sexp(st.value)
				ops.append(f'decl\t{name}\t{sx}')
				out.append(r)
				descs.append('decl')
			except X.Unsupported:
				if r.startswith('ok '):
					try:
						ops.append(f'bind\t{name}\t{pretty_sexp(r[3:])}')
						out.append('ok')
						descs.append('bind')
					except X.Unsupported:
						return   # nothing after this statement can be typed by the model: stop this body
				else:
					return
		elif isinstance(st, defs.AnnoAssign) and isinstance(st.receiver, defs.DeclLocalVar):
			r = real(refl, st.receiver)
			if not r.startswith('ok '):
				return
			try:
				ops.append(f'bind\t{st.receiver.tokens}\t{pretty_sexp(r[3:])}')
				out.append('ok')
				descs.append('bind')
				here(st.value, 'value')
			except X.Unsupported:
				return
		elif isinstance(st, defs.For):
			try:
				sx = X.node_sexp(st.iterates)
			except X.Unsupported:
				return
			names = [s.tokens for s in st.symbols]
			rs = [real(refl, s) for s in st.symbols]
			if all(r.startswith('ok ') for r in rs):
				r = 'ok ' + ' | '.join(x[3:] for x in rs)
			else:
				r = next(x for x in rs if not x.startswith('ok '))
			ops.append(f"for\t( {' '.join(names)} )\t{sx}")
			out.append(r)
			descs.append('for')
			if not r.startswith('ok '):
				return
			body_ops(refl, list(st.statements), ops, out, descs, lams)
		elif isinstance(st, defs.Return):
			if not isinstance(st.return_value, defs.Empty):
				here(st.return_value, 'return')
		elif isinstance(st, defs.If):
			here(st.condition, 'condition')
			# the branches declare into the same function scope; only straight-line bodies are followed
		elif isinstance(st, defs.FuncCall):
			here(st, 'statement')
		# everything else (augmented / attribute / subscript assignment, raise, pass, …) declares nothing


def program_case(sess: Any, src: str) -> tuple[dict[str, Any], list[str], list[str]] | None:
	"""one program -> (description, op lines, real outputs); None if its classes are outside the model"""
	import rogw.tranp.syntax.node.definition as defs
	try:
		ct, classes = class_table(src)
	except X.Unsupported:
		return None
	refl, mod = sess.module(src)
	X.CLASS_NAMES = classes
	# names whose call the model does not type: functions and closures, and variables / parameters holding a callback
	tree = ast.parse(src)
	X.USER_FUNCS = {n.name for n in ast.walk(tree) if isinstance(n, ast.FunctionDef)} \
		| {n.arg for n in ast.walk(tree) if isinstance(n, ast.arg) and n.annotation is not None and 'Callable' in ast.dump(n.annotation)} \
		| {n.target.id for n in ast.walk(tree) if isinstance(n, ast.AnnAssign) and isinstance(n.target, ast.Name) and 'Callable' in ast.dump(n.annotation)}
	try:
		ops, out, descs = [f'classes\t{ct}'], ['ok'], ['classes']
		lams = Lambdas(src, classes)
		funcs: list[tuple[Any, str | None]] = []
		for st in mod.entrypoint.statements:
			if isinstance(st, defs.Class):
				funcs += [(m, st.domain_name) for m in [*st.methods, *st.class_methods, *([st.constructor] if st.constructor_exists else [])]]
			elif isinstance(st, defs.Function):
				funcs.append((st, None))
		for fn, cls in funcs:
			env = []
			ok = True
			for prm in fn.parameters:
				name = prm.symbol.tokens
				if name in ('self', 'cls'):
					if name == 'self' and cls:
						env.append(f'( self ( cls {cls} ) )')
					continue
				r = real(refl, prm.symbol)
				try:
					if not r.startswith('ok '):
						raise X.Unsupported(r)
					env.append(f'( {name} {pretty_sexp(r[3:])} )')
				except X.Unsupported:
					ok = False
			if not ok:
				continue
			ops.append('env\t( ' + ' '.join(env) + ' )')
			out.append('ok')
			descs.append('env')
			body_ops(refl, list(fn.statements), ops, out, descs, lams)
	finally:
		X.CLASS_NAMES = set()
		X.USER_FUNCS = set()
	hist: dict[str, int] = {}
	for d, r in zip(descs, out):
		k = f"{d}:{'ok' if r.startswith('ok ') else r}" if d.startswith('lambda:') else f"{d}:{r[3:].split('<')[0] if r.startswith('ok ') else r}"
		hist[k] = hist.get(k, 0) + 1
	return {'kind': 'program', 'ops': len(ops), 'hist': hist, 'source': src[:400]}, ops, out
