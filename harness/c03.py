"""C03 — Inferred static types equal the types values have at run time.

Theorems: lean/Tranp/Props/C03.lean over lean/Tranp/Model/{Ty,Infer,PyEval}.lean and the table
lean/Tranp/Generated/Dunder.lean (translated on every run from compatible/libralies/classes.py by translate/gen_dunder.py) and
lean/Tranp/Generated/InferShape.lean (operator token lists, attrs indexes and the statement shape of try_operation / each_binary_operator /
on_spread, by translate/gen_infer_shape.py).
Tie: stream `infer` (real `Reflections.type_of(node).pretty` vs the model's `infer`, well-typed / ill-typed / heterogeneous-list
sessions), stream `infer-programs` (whole function bodies over user classes), stream `infer-operators` (binary operators on instances of
user classes: lean/Tranp/Model/InferOps.lean `foldBinAny` = try_operation incl. its `inherits` loop + each_binary_operator), stream
`infer-spread` (`onSpread`), stream `pytype` (CPython `describe(type(eval(e)))` vs the model's `typeOf ∘ eval`; no tranp involved).
Every real call runs under a CPU-time budget (cpu_budget), every stream and search under a wall deadline whose cuts are counted.
Search (real code only): generated whole programs run under CPython with a recorder around every declaration and a sample
of sub-expressions; `describe(type(v))` is compared with `type_of` of the node at the same source span.
"""
from __future__ import annotations

import ast
import json
import os
import random
from collections import Counter
from typing import Any

from harness import common
from harness import c03_expr as X
from harness.common import Ctx, Finding, SearchResult, Stream, exc_enum

PROP = 'C03'


class CaseTimeout(BaseException):
	"""one real-code / CPython evaluation used up its CPU budget (BaseException: the handlers of tranp that wrap `Exception` must not swallow it)"""


class cpu_budget:
	"""`with cpu_budget(seconds):` raises CaseTimeout in the main thread once the body has used that much CPU time of this process
	(ITIMER_PROF: independent of the load of the machine; re-fires every second until the body is left). A no-op off the main thread."""

	def __init__(self, seconds: float) -> None:
		self.seconds = seconds
		self.armed = False

	def __enter__(self) -> 'cpu_budget':
		import signal
		import threading
		if threading.current_thread() is threading.main_thread() and hasattr(signal, 'setitimer'):
			def fire(signum: int, frame: Any) -> None:
				raise CaseTimeout(f'more than {self.seconds} s of CPU time')
			self.old = signal.signal(signal.SIGPROF, fire)
			signal.setitimer(signal.ITIMER_PROF, self.seconds, 1.0)
			self.armed = True
		return self

	def __exit__(self, *a: Any) -> bool:
		import signal
		if self.armed:
			signal.setitimer(signal.ITIMER_PROF, 0)
			signal.signal(signal.SIGPROF, self.old)
		return False


CPYTHON_BUDGET_S = 10.0     # one generated program under the recorder (normally milliseconds)
TRANP_BUDGET_S = 60.0       # load + every type_of of one program (normally well under a second; the first load of a session about two)


class Deadline:
	"""total wall budget of one stream / search; what it cuts is counted in the evidence, never a finding"""

	def __init__(self, ctx: Ctx, quick_s: float, thorough_s: float) -> None:
		import time
		self.t_end = time.time() + (quick_s if ctx.tier == 'quick' else thorough_s)
		self.cut = 0

	def over(self) -> bool:
		import time
		if time.time() > self.t_end:
			self.cut += 1
			return True
		return False


# ---------------------------------------------------------------------------------------------
# real-code plumbing


class Session:
	"""One tranp App = one session of the inference service (the state `on_list` leaks lives as long as the App)."""

	def __init__(self, ctx: Ctx) -> None:
		from rogw.tranp.semantics.reflections import Reflections
		self.ctx = ctx
		self.app = common.MemApp(ctx.tmpdir())
		self.Reflections = Reflections
		self.history: list[tuple[str, list[Any]]] = []   # programs already analysed in this session (for history-dependent replays)

	def statements(self, src: str, fn_path: str = 'file_input.function_def') -> tuple[Any, list[Any]]:
		mod = self.app.module(src)
		refl = self.app.resolve(self.Reflections)
		fn = mod.entrypoint.whole_by(fn_path)
		return refl, list(fn.statements)

	def module(self, src: str) -> tuple[Any, Any]:
		mod = self.app.module(src)
		return self.app.resolve(self.Reflections), mod


def real_type(refl: Any, node: Any) -> str:
	try:
		with cpu_budget(TRANP_BUDGET_S):
			return 'ok ' + refl.type_of(node).pretty
	except CaseTimeout:
		return 'timeout'
	except Exception as e:  # noqa: BLE001
		return exc_enum(e)


# ---------------------------------------------------------------------------------------------
# stream `infer`

FAULTS = [
	'zz', '(s + a)', '(a + s)', '(p ^ q)', '(e % p)', '(p % e)', '(xs + xs)', '(t * a)', '(None + a)', '(o + a)', '(a + o)',
	'xs.foo()', 's.nope()', 'a.bar(b)', 't[2]', 't[7]', 'foo(a)', '[z0 for z0 in a]', '[z0 for z0 in s]', '[z0 for z0 in t]',
	'(d | d)', '(s * p)', '(xs * e)', '(p * xs)', '(ys % a)', '(s - s)', '(a << e)', '(e >> a)', '(s & s)', '(d + d)',
]
# forms that are accepted but worth pinning (no argument checking, object fallback, receiver fall-through, Union results)
ODDITIES = [
	'len(a)', 's.split()', 'xs.pop("x")', 'xs.mro()', 'a.mro()', 't[a]', 't[-1]', 't[(0)]', 'a[0]', 'p[0]', 'o[0]', 'ol[0]', 'ol[0:1]',
	'ol.pop()', 'ol.copy()', 'd[a:c]', 't[0:1]', 'xs[p]', 'd.keys()', 'd.values()', 'd.items()', 'range(a)', 'reversed(xs)',
	'enumerate(xs)', 'enumerate(ss)', 'list(d)', 'list(d.keys())', 'list(d.items())', 'list(s)', 'abs(p)', 'abs(xs)', 'min(a, e)', 'max(e, a)',
	'-p', '+p', '~p', '-True', 'p | a', 'p & a', 'a | p', 'p << a', 'a >> p', 'a if p else e', 'a if p else o', 'o if p else a',
	'(a if p else e) if q else s', 'a if p else e if q else s', '[o]', '{a: o}', '(o, a)', '[]', '{}', '[[], [a]]', '[[a], []]',
	'[[a], [e]]', '{s: [], "k": [a]}', '{s: []}', 'not xs', 'a and s', 's or a', 'int()', 'str(xs)', 'bool(d)', 'float(s)', 'int(s)',
	'[z0 for z0 in ol]', '[z0 for z0 in d.items()]', '[(z0, z1) for z0, z1 in d.items()]', '[z1 for z0, z1, z2 in d.items()]',
	'[z0 for z0 in enumerate(xs)]', '{z0: z1 for z0, z1 in enumerate(ss)}', '[[z1 for z1 in z0] for z0 in xss]',
	'dd.get(s)[0]', 'dd.pop(s).pop()', 'xss.pop().pop()', 'xss.copy()[0].copy()', 's.split(",")[0].upper()', 'ss[0].join(ss)',
	'xs.sort()', 'xs.remove(a)', 'xs.insert(a, c)', 'xs.extend(xs)', 'd.update(d)', 's.encode()', 'print(a, s)', 'hash(s)',
	'iter(xs)', 'callable(a)', 'issubclass(a, a)', 'getattr(a, s)', 'open(s)',
]
HETERO = ['[a, e]', '[1, "x"]', '[s, None]', '[xs, a]', '[a, s, e]', '[p, a]', '[None, a]', '[a, None]', '[e, a, e]', '[a, [a]]', '[o, a]', '[a, o]']


def gen_infer_expr(rng: random.Random, env: list[tuple[str, X.Ty]], kind: str, depth: int) -> str:
	g = X.Gen(rng, env, 'infer')
	if kind == 'fault':
		g.inject = rng.choice(FAULTS)
	elif kind == 'hetero':
		g.inject = rng.choice(HETERO)
	elif kind == 'odd':
		g.inject = rng.choice(ODDITIES)
		if rng.random() < 0.5:
			return g.inject
	t = g.pick_ty(2)
	src = g.expr(t, depth)
	if g.inject is not None:
		return f'({src.text}, {g.inject})'
	return src.text


def infer_session(ctx: Ctx, rng: random.Random, n_modules: int, per_module: int, mix: dict[str, float]) -> list[tuple[Any, list[str], list[str]]]:
	"""One App; returns correspondence cases (the first one starts with the `new` op)."""
	sess = Session(ctx)
	cases: list[tuple[Any, list[str], list[str]]] = []
	first = True
	kinds = list(mix)
	for _ in range(n_modules):
		# extra parameters: names that are prefixes / extensions of the fixed ones, random (nested) types
		pool = rng.sample(['aa', 'a0', 'pp', 'xs_', 'xsx', 'dd2', 'ss0', 'tt', 'oo', 'w', 'ww', 'b_'], rng.randint(0, 4))
		extra = [(nm, X.Gen(rng, [], 'infer').pick_ty(2)) for nm in pool]
		env = [*X.BASE_ENV, *extra]
		exprs = []
		for _ in range(per_module):
			kind = rng.choices(kinds, [mix[k] for k in kinds])[0]
			exprs.append((kind, gen_infer_expr(rng, env, kind, rng.randint(1, 4))))
		for desc, ops, real in infer_module(sess, env, exprs):
			if first:
				ops, real, first = ['new', *ops], ['ok', *real], False
			cases.append((desc, ops, real))
	if first:
		cases.append(({'kind': 'new', 'expr': '', 'real': 'ok'}, ['new'], ['ok']))
	return cases


def infer_module(sess: Session, env: list[tuple[str, X.Ty]], exprs: list[tuple[str, str]]) -> list[tuple[Any, list[str], list[str]]]:
	src = X.header(env) + ''.join(f'\tv{i} = {e}\n' for i, (_, e) in enumerate(exprs))
	try:
		with cpu_budget(TRANP_BUDGET_S):
			refl, stmts = sess.statements(src)
		assert len(stmts) == len(exprs)
	except (Exception, CaseTimeout):  # noqa: BLE001 - one unparsable statement: fall back to one module per statement
		if len(exprs) == 1:
			return []
		out = []
		for ke in exprs:
			out.extend(infer_module(sess, env, [ke]))
		return out
	out = []
	envx = X.env_sexp(env)
	for (kind, e), st in zip(exprs, stmts):
		try:
			sx = X.node_sexp(st.value)
		except Exception:  # noqa: BLE001 - X.Unsupported, or a node the serialiser cannot read: not a case of this stream (the search still sees the expression)
			continue
		real = real_type(refl, st.value)
		out.append(({'kind': kind, 'expr': e, 'real': real}, [f'infer\t{envx}\t{sx}'], [real]))
	return out


def classify_infer(d: dict[str, Any]) -> str:
	r = d['real']
	head = r[3:].split('<')[0] if r.startswith('ok ') else r
	return f"{d['kind']}:{head}"


def stream_infer(ctx: Ctx) -> Stream:
	rng = ctx.sub_rng('infer')
	cases: list[tuple[Any, list[str], list[str]]] = []
	cases.extend(corpus_cases(ctx))
	n_sessions = ctx.scale(6, 40)
	dl = Deadline(ctx, 40, 600)
	done = 0
	for i in range(n_sessions):
		if i >= 3 and dl.over():     # (one session of each mix always runs)
			break
		done += 1
		if i % 3 == 0:
			mix = {'well': 0.8, 'odd': 0.2}
		elif i % 3 == 1:
			mix = {'well': 0.45, 'fault': 0.3, 'odd': 0.2, 'hetero': 0.05}
		else:
			mix = {'well': 0.4, 'hetero': 0.3, 'fault': 0.15, 'odd': 0.15}
		cases.extend(infer_session(ctx, rng, ctx.scale(5, 12), ctx.scale(24, 30), mix))
	st = common.correspond('infer', cases, 'infer', classify=classify_infer)
	st.histogram['sessions-cut-by-deadline'] = n_sessions - done
	st.note = ('sessions = fresh tranp Apps; per session several modules `def f(<typed params>) -> None:` with one `v = <expr>` per generated '
		'expression; real Reflections.type_of(value node).pretty / exception enum vs model infer (state threaded per session); '
		'kinds: well-typed (type-directed), fault (one ill-typed atom), odd (pinned accepted oddities), hetero (heterogeneous list literal)')
	return st


def corpus_cases(ctx: Ctx) -> list[tuple[Any, list[str], list[str]]]:
	"""corpus/C03/*.json: {"session": [expr, …]} replayed first, each file in its own session."""
	out: list[tuple[Any, list[str], list[str]]] = []
	d = os.path.join(common.CORPUS_DIR, PROP)
	if not os.path.isdir(d):
		return out
	for fn in sorted(os.listdir(d)):
		if not fn.endswith('.json'):
			continue
		with open(os.path.join(d, fn), encoding='utf-8') as f:
			rec = json.load(f)
		if 'session' not in rec:
			continue
		sess = Session(ctx)
		first = True
		for e in rec['session']:
			for desc, ops, real in infer_module(sess, X.BASE_ENV, [('corpus', e)]):
				if first:
					ops, real, first = ['new', *ops], ['ok', *real], False
				out.append((desc, ops, real))
	return out


def stream_programs(ctx: Ctx) -> Stream:
	"""whole function bodies of generated programs with user classes (harness/c03_prog_stream.py)"""
	from harness import c03_progs, c03_prog_stream
	rng = ctx.sub_rng('infer-programs')
	cases: list[tuple[Any, list[str], list[str]]] = []
	skipped = 0
	sess = Session(ctx)
	dl = Deadline(ctx, 25, 400)
	for i in range(ctx.scale(14, 300)):
		if i >= 5 and dl.over():
			break
		if i % 50 == 49:
			sess = Session(ctx)
		try:
			src, _, _, _ = c03_progs.generate(random.Random(rng.random()), allow_hetero=rng.random() < 0.3, modelled=True)
		except Exception:  # noqa: BLE001 - the harness's own generator: counted as skipped, never a crash of the check
			skipped += 1
			continue
		try:
			with cpu_budget(TRANP_BUDGET_S):
				case = c03_prog_stream.program_case(sess, src)
		except (Exception, CaseTimeout):  # noqa: BLE001 - a program tranp cannot load is a search matter (search_typed_programs), not a correspondence case
			case = None
		if case is None:
			skipped += 1
			continue
		desc, ops, real = case
		cases.append((desc, ['new', *ops] if not cases else ops, ['ok', *real] if not cases else real))
	hist: Counter[str] = Counter()
	for d, _, _ in cases:
		hist.update(d['hist'])
	st = common.correspond('infer-programs', cases, 'infer')
	st.histogram = dict(hist)
	st.histogram['cut-by-deadline'] = dl.cut
	st.note = (f'generated programs with user classes (single inheritance, instance / class variables, properties, methods, classmethods, '
		f'both iterator protocol forms): per function body `env`, then decl / for / here ops over a growing environment; class table read from '
		f'the source with CPython ast; skipped programs: {skipped}')
	return st


def operator_case(sess: Session, src: str) -> tuple[Any, list[str], list[str]] | None:
	"""one program of user classes overloading operators -> `classes`, `opparams`, then one `binop` line per declaration of the
	entry function whose value is a flat chain over instance variables / scalar literals"""
	from harness import c03_prog_stream as PS
	from harness.c03_search import BINOP_DUNDER
	tree = ast.parse(src)
	ct, classes = PS.class_table(src)
	dunders = set(BINOP_DUNDER.values())
	rows = []
	for c in tree.body:
		if isinstance(c, ast.ClassDef):
			for m in c.body:
				if isinstance(m, ast.FunctionDef) and m.name in dunders and len(m.args.args) == 2:
					rows.append(f'( {c.name} {m.name} {PS.annot_sexp(m.args.args[1].annotation, classes)} )')
	fn = next(n for n in tree.body if isinstance(n, ast.FunctionDef))
	with cpu_budget(TRANP_BUDGET_S):
		refl, stmts = sess.statements(src)
	assigns = [st for st in fn.body if isinstance(st, ast.Assign)]
	if len(assigns) != len(fn.body) or len(stmts) != len(assigns):
		return None
	var_ty: dict[str, str] = {}
	tok = {'Add': '+', 'Sub': '-', 'Mult': '*', 'Div': '/', 'Mod': '%', 'BitOr': '|', 'BitAnd': '&', 'BitXor': '^', 'LShift': '<<', 'RShift': '>>'}

	def operand(n: ast.expr) -> str | None:
		if isinstance(n, ast.Name):
			return var_ty.get(n.id)
		if isinstance(n, ast.Constant) and type(n.value) in (int, float, str):
			return type(n.value).__name__
		return None

	def flat(n: ast.expr) -> list[str] | None:
		"""[type, op, type, …] of a left-nested chain without parentheses"""
		if not isinstance(n, ast.BinOp) or type(n.op).__name__ not in tok:
			t = operand(n)
			return [t] if t else None
		if isinstance(n.left, ast.BinOp) and n.left.col_offset != n.col_offset:
			return None   # a parenthesised left operand is a Group node
		l, r = flat(n.left), operand(n.right)
		return [*l, tok[type(n.op).__name__], r] if l and r else None
	ops = [f'classes\t{ct}', f"opparams\t( {' '.join(rows)} )"]
	real = ['ok', 'ok']
	hist: Counter[str] = Counter()
	for a, st in zip(assigns, stmts):
		tgt = a.targets[0]
		if not isinstance(tgt, ast.Name):
			continue
		v = a.value
		if isinstance(v, ast.Call) and isinstance(v.func, ast.Name) and v.func.id in classes:
			var_ty[tgt.id] = f'( cls {v.func.id} )'
			continue
		ch = flat(v) if isinstance(v, ast.BinOp) else None
		if ch is None:
			continue
		r = real_type(refl, st.value)
		ops.append('binop\t' + '\t'.join(ch))
		real.append(r)
		hist[f"{len(ch) // 2} step(s):{'ok' if r.startswith('ok ') else r}"] += 1
	if len(ops) == 2:
		return None
	return {'program': src, 'hist': dict(hist)}, ops, real


def stream_operators(ctx: Ctx) -> Stream:
	"""binary operators over instances of user classes (try_operation incl. the `inherits` loop, each_binary_operator)"""
	from harness import c03_progs
	rng = ctx.sub_rng('infer-operators')
	cases: list[tuple[Any, list[str], list[str]]] = []
	skipped = 0
	sess = Session(ctx)
	hist: Counter[str] = Counter()
	dl = Deadline(ctx, 15, 200)
	for i in range(ctx.scale(7, 150)):
		if i >= 3 and dl.over():
			break
		g = c03_progs.ProgGen(random.Random(rng.random()))
		g.known_rate = 1.0     # the listed forms are what the model has to reproduce too
		try:
			d, b = g.operator_block()
			src = '\n'.join(d[2:]) + '\n\n\ndef main() -> None:\n' + '\n'.join(b) + '\n'
			case = operator_case(sess, src)
		except (Exception, CaseTimeout):  # noqa: BLE001 - a program tranp cannot load / an annotation outside the driver's vocabulary: not a case
			case = None
		if case is None:
			skipped += 1
			continue
		desc, ops, real = case
		hist.update(desc['hist'])
		cases.append((desc, ['new', *ops] if not cases else ops, ['ok', *real] if not cases else real))
	st = common.correspond('infer-operators', cases, 'infer')
	st.histogram = dict(hist)
	st.histogram['cut-by-deadline'] = dl.cut
	st.note = ('generated hierarchies of user classes overloading binary operators (overrides with the subclass as result, non-overriding '
		f'siblings, grandchildren, scalar parameters with reflected methods, unrelated classes over each other): per program the class table and the operator parameter '
		f'types read with CPython ast, then every flat chain `x op y [op z]` of the entry function: real type_of vs model foldBinAny; skipped programs: {skipped}')
	return st


def generic_attr_case(sess: Session, src: str) -> tuple[Any, list[str], list[str]] | None:
	"""one program of generic_deep_block -> one `gattr` line per read `v = o.attr` of an instance built in the entry function"""
	tree = ast.parse(src)
	tvars = {t.id for n in tree.body if isinstance(n, ast.Assign) and isinstance(n.value, ast.Call) and isinstance(n.value.func, ast.Name)
		and n.value.func.id == 'TypeVar' for t in n.targets if isinstance(t, ast.Name)}

	def ty(n: ast.expr) -> str:
		if isinstance(n, ast.Name):
			if n.id in tvars:
				return f'( tvar {n.id} )'
			if n.id in ('int', 'float', 'bool', 'str'):
				return n.id
		if isinstance(n, ast.Subscript) and isinstance(n.value, ast.Name) and n.value.id in ('list', 'dict', 'tuple'):
			args = n.slice.elts if isinstance(n.slice, ast.Tuple) else [n.slice]
			return f"( {n.value.id} {' '.join(ty(a) for a in args)} )"
		raise X.Unsupported(f'annotation {ast.unparse(n)}')

	def val_ty(n: ast.expr) -> str:
		if isinstance(n, ast.Constant) and type(n.value) in (int, float, bool, str):
			return type(n.value).__name__
		if isinstance(n, ast.Name) and n.id in ('a', 's', 'b', 'p'):
			return {'a': 'int', 's': 'str', 'b': 'float', 'p': 'bool'}[n.id]
		if isinstance(n, ast.List) and n.elts:
			return f'( list {val_ty(n.elts[0])} )'
		raise X.Unsupported(f'argument {ast.unparse(n)}')
	classes: dict[str, tuple[str, dict[str, str]]] = {}
	for c in tree.body:
		if isinstance(c, ast.ClassDef) and len(c.bases) == 1 and isinstance(c.bases[0], ast.Subscript) and ast.unparse(c.bases[0].value) == 'Generic':
			ps = c.bases[0].slice.elts if isinstance(c.bases[0].slice, ast.Tuple) else [c.bases[0].slice]
			schema = f"( cls {c.name} {' '.join(ty(q) for q in ps)} )"
			classes[c.name] = (schema, {st.target.id: ty(st.annotation) for st in c.body if isinstance(st, ast.AnnAssign) and isinstance(st.target, ast.Name)})
	fn = next(n for n in tree.body if isinstance(n, ast.FunctionDef))
	with cpu_budget(TRANP_BUDGET_S):
		refl, stmts = sess.statements(src)
	if len(stmts) != len(fn.body) or not all(isinstance(st, ast.Assign) for st in fn.body):
		return None
	inst: dict[str, tuple[str, str]] = {}
	ops: list[str] = []
	real: list[str] = []
	hist: Counter[str] = Counter()
	for a, st in zip(fn.body, stmts):
		tgt, v = a.targets[0], a.value  # type: ignore[attr-defined]
		if not isinstance(tgt, ast.Name):
			continue
		if isinstance(v, ast.Call) and isinstance(v.func, ast.Name) and v.func.id in classes and not v.keywords:
			inst[tgt.id] = (v.func.id, f"( cls {v.func.id} {' '.join(val_ty(x) for x in v.args)} )")
			continue
		if isinstance(v, ast.Attribute) and isinstance(v.value, ast.Name) and v.value.id in inst and v.attr in classes[inst[v.value.id][0]][1]:
			cname, actual = inst[v.value.id]
			schema, attrs = classes[cname]
			r = real_type(refl, st.value)
			ops.append(f'gattr\t{schema}\t{attrs[v.attr]}\t{actual}')
			real.append(r)
			hist[v.attr] += 1
	if not ops:
		return None
	return {'program': src, 'hist': dict(hist)}, ops, real


def stream_generic_attrs(ctx: Ctx) -> Stream:
	"""attributes of user generic classes with nested type variables, read through several instantiations in one session"""
	from harness import c03_progs
	rng = ctx.sub_rng('infer-generic-attrs')
	cases: list[tuple[Any, list[str], list[str]]] = []
	skipped = 0
	sess = Session(ctx)
	hist: Counter[str] = Counter()
	dl = Deadline(ctx, 15, 200)
	for i in range(ctx.scale(10, 150)):
		if i >= 3 and dl.over():
			break
		g = c03_progs.ProgGen(random.Random(rng.random()))
		try:
			d, b = g.generic_deep_block()
			src = 'from typing import Generic, TypeVar\n' + '\n'.join(d) + '\n\n\ndef main(a: int, p: bool, s: str, b: float) -> None:\n' + '\n'.join(b) + '\n'
			case = generic_attr_case(sess, src)
		except (Exception, CaseTimeout):  # noqa: BLE001 - a program tranp cannot load / a form outside the driver's vocabulary: not a case
			case = None
		if case is None:
			skipped += 1
			continue
		desc, ops, real = case
		hist.update(desc['hist'])
		cases.append((desc, ['new', *ops] if not cases else ops, ['ok', *real] if not cases else real))
	st = common.correspond('infer-generic-attrs', cases, 'infer')
	st.histogram = dict(hist)
	st.histogram['cut-by-deadline'] = dl.cut
	st.note = ('generated generic classes over two type variables with attributes mentioning them up to three levels deep, instantiated two or three times with '
		f'different arguments in ONE session, the attributes read through every instance in a random interleaved order: real type_of(read) vs model propOf (templates.Class.prop over the TemplateManipulator port); skipped programs: {skipped}')
	return st


SPREAD_SOURCES = ['xs', 'ys', 'ss', 'xss', 'd', 'dd', 't', 'o', 'ol', 'a', 's', 'd.keys()', 'd.values()', 'd.items()', 'dd.values()', 'range(a)', 'reversed(xs)', 'enumerate(ss)',
	'[a, c]', '[a, e]', '(a, s)', '{s: a}', 'xss[0]', 'dd[s]', 'xs.copy()', '[z0 for z0 in ys]', 's.split()', 'xs if p else ys', 'on', 'oln', 'odn', 'od', 'otn', 'zz']


def stream_spread(ctx: Ctx) -> Stream:
	"""on_spread: the type of the Spread node of `[*e]` for generated and pinned expressions e (also ill-typed / optional / scalar ones)"""
	rng = ctx.sub_rng('infer-spread')
	sess = Session(ctx)
	exprs: list[str] = list(SPREAD_SOURCES)
	for _ in range(ctx.scale(40, 400)):
		g = X.Gen(rng, X.BASE_ENV, 'infer')
		t = g.pick_ty(2)
		if t[0] not in ('list', 'dict', 'tuple'):
			t = ('list', t)
		exprs.append(g.expr(t, rng.randint(0, 2)).text)
	cases: list[tuple[Any, list[str], list[str]]] = []
	envx = X.env_sexp(X.BASE_ENV)
	for lo in range(0, len(exprs), 20):
		chunk = exprs[lo:lo + 20]
		src = X.header(X.BASE_ENV) + ''.join(f'\tv{i} = [*{e}]\n' for i, e in enumerate(chunk))
		try:
			with cpu_budget(TRANP_BUDGET_S):
				refl, stmts = sess.statements(src)
			assert len(stmts) == len(chunk)
		except (Exception, CaseTimeout):  # noqa: BLE001 - an unparsable chunk is not a case
			continue
		for e, st in zip(chunk, stmts):
			try:
				sp = st.value.values[0]
				sx = X.node_sexp(sp.expression)
			except Exception:  # noqa: BLE001 - X.Unsupported / not a spread node
				continue
			r = real_type(refl, sp)
			cases.append(({'expr': e, 'real': r}, ['new', f'spread\t{envx}\t{sx}'] if not cases else [f'spread\t{envx}\t{sx}'], ['ok', r] if not cases else [r]))
	# whole literals mixing spread and plain items: how on_list combines the spread element types with the other items
	import rogw.tranp.syntax.node.definition as defs
	lits: list[str] = []
	for _ in range(ctx.scale(40, 400)):
		items = []
		for _ in range(rng.randint(1, 3)):
			g = X.Gen(rng, X.BASE_ENV, 'infer')
			if rng.random() < 0.6:
				items.append('*' + (rng.choice(SPREAD_SOURCES[:26]) if rng.random() < 0.6 else g.expr(('list', g.pick_ty(1)), rng.randint(0, 1)).at(X.P_ATOM)))
			else:
				items.append(g.expr(g.pick_ty(1), rng.randint(0, 2)).text)
		lits.append('[' + ', '.join(items) + ']')
	n_lit = 0
	for lo in range(0, len(lits), 20):
		chunk = lits[lo:lo + 20]
		src = X.header(X.BASE_ENV) + ''.join(f'\tv{i} = {e}\n' for i, e in enumerate(chunk))
		try:
			with cpu_budget(TRANP_BUDGET_S):
				refl, stmts = sess.statements(src)
			assert len(stmts) == len(chunk)
		except (Exception, CaseTimeout):  # noqa: BLE001 - an unparsable chunk is not a case
			continue
		for e, st in zip(chunk, stmts):
			try:
				sx = '( ' + ' '.join(f'( star {X.node_sexp(v.expression)} )' if isinstance(v, defs.Spread) else X.node_sexp(v) for v in st.value.values) + ' )'
			except Exception:  # noqa: BLE001 - X.Unsupported / not a list literal
				continue
			r = real_type(refl, st.value)
			n_lit += 1
			cases.append(({'expr': e, 'real': r}, ['new', f'listspread\t{envx}\t{sx}'] if not cases else [f'listspread\t{envx}\t{sx}'], ['ok', r] if not cases else [r]))
	st = common.correspond('infer-spread', cases, 'infer', classify=lambda d: d['real'][3:].split('<')[0] if d['real'].startswith('ok ') else d['real'])
	st.note = (f'the Spread node of `v = [*e]` in a typed function: real type_of(spread node) vs model onSpread(infer e); then {n_lit} whole literals mixing spread and '
		'plain items `[*e1, x, *e2]`: real type_of(list node) vs model onListSpread')
	return st


# ---------------------------------------------------------------------------------------------
# stream `pytype`


class OutOfDomain(Exception):
	pass


def _chk(v: Any) -> Any:
	"""every intermediate value stays inside the domain on which Tranp/Model/PyEval.lean is exact"""
	t = type(v)
	if t is int and abs(v) >= 2 ** 50:
		raise OutOfDomain('int magnitude')
	if t is float and (v != v or abs(v) > 1e15 or (v != 0 and abs(v) < 1e-9)):
		raise OutOfDomain('float magnitude')
	if t in (str, list, tuple, dict) and len(v) > 64:
		raise OutOfDomain('container size')
	return v


class _Wrap(ast.NodeTransformer):
	def generic_visit(self, node: ast.AST) -> ast.AST:
		node = super().generic_visit(node)
		if isinstance(node, (ast.BinOp, ast.UnaryOp, ast.Call, ast.Subscript)) and isinstance(getattr(node, 'ctx', ast.Load()), ast.Load):
			return ast.copy_location(ast.Call(ast.Name('_chk', ast.Load()), [node], []), node)
		return node


def py_eval(src: str, env: dict[str, Any]) -> str:
	tree = ast.parse(src, mode='eval')
	tree = ast.fix_missing_locations(_Wrap().visit(tree))
	code = compile(tree, '<c03>', 'eval')
	try:
		v = eval(code, {'_chk': _chk, '__builtins__': __builtins__}, dict(env))  # noqa: S307 - generated expressions only
	except OutOfDomain:
		raise
	except (ZeroDivisionError, IndexError, KeyError, TypeError, ValueError) as e:
		return type(e).__name__
	_chk(v)
	return 'ok ' + X.describe(v) + '\t' + X.val_show(v)


def stream_pytype(ctx: Ctx) -> Stream:
	rng = ctx.sub_rng('pytype')
	n = ctx.scale(1500, 15000)
	cases: list[tuple[Any, list[str], list[str]]] = []
	skipped: Counter[str] = Counter()
	env_tys = X.BASE_ENV
	dl = Deadline(ctx, 20, 300)
	while len(cases) < n and not (len(cases) >= 300 and dl.over()):
		g = X.Gen(rng, env_tys, 'pytype')
		t = g.pick_ty(2)
		src = g.expr(t, rng.randint(1, 4)).text
		env = {name: X.gen_value(rng, ty) for name, ty in env_tys}
		try:
			sx = X.ast_sexp(ast.parse(src, mode='eval').body)
			with cpu_budget(CPYTHON_BUDGET_S):
				real = py_eval(src, env)
			envx = '( ' + ' '.join(f'( {k} {X.val_sexp(v)} )' for k, v in env.items()) + ' )'
		except OutOfDomain as e:
			skipped[f'domain:{e}'] += 1
			continue
		except X.Unsupported as e:
			skipped[f'unsupported:{e}'] += 1
			continue
		except (CaseTimeout, RecursionError, MemoryError, OverflowError):
			skipped['cpython-budget'] += 1
			continue
		cases.append(({'expr': src, 'real': real}, [f'pytype\t{envx}\t{sx}'], [real]))
	st = common.correspond('pytype', cases, 'infer', classify=lambda d: d['real'][3:].split('\t')[0].split('<')[0] if d['real'].startswith('ok ') else d['real'])
	st.note = f'CPython eval of generated core expressions under random environments vs model typeOf∘eval; skipped (outside the exact domain): {dict(skipped)}; cut by the wall deadline: {n - len(cases)} of {n}'
	return st


# ---------------------------------------------------------------------------------------------
# search: the property's own oracle on the real code (harness/c03_search.py)

SEARCH_ENV: list[tuple[str, X.Ty]] = [
	*X.BASE_ENV,
	('xo', ('list', ('opt', X.INT))), ('do', ('dict', X.STR, ('opt', X.INT))), ('so', ('list', ('opt', X.STR))),
	('tt', ('tuple', X.FLOAT, X.BOOL, X.INT)), ('di', ('dict', X.INT, X.STR)),
]


def ctx_of(sess: 'Session') -> Ctx:
	return sess.ctx


def finding_of(dis: dict[str, Any], src: str, call: Any, session: str) -> Finding:
	what = (f"{dis['why']}: `{dis['text']}` inferred {dis['real']} but CPython computed {dis['runtime']}"
		if dis['why'] == 'type' else f"{dis['why']}: `{dis['text']}` -> {dis['real']} although CPython computed {dis['runtime']}")
	return Finding(key=dis['key'], what=what, replay={'program': src, 'call': [[c[0], repr(list(c[1]))] for c in call], 'span': dis['span'], 'text': dis['text'],
		'inferred': dis['real'], 'runtime': dis['runtime'], 'raw_key': dis['raw_key'], 'session': session})


def check_program(sess: Session, src: str, calls: list[tuple[str, list[Any]]], res: SearchResult, session: str, label: str) -> None:
	"""run one program under the recorder and compare every observed expression with the real inference"""
	from harness import c03_search as S
	try:
		run = S.Run(src)
	except (SyntaxError, ValueError, RecursionError):
		res.histogram['skipped:not-python'] = res.histogram.get('skipped:not-python', 0) + 1
		return
	try:
		with cpu_budget(CPYTHON_BUDGET_S):
			err = run.load()
			if err is None:
				for fn, args in calls:
					run.call(fn, args)
	except CaseTimeout:
		res.histogram['skipped:cpython-budget'] = res.histogram.get('skipped:cpython-budget', 0) + 1
		return
	if err is not None:
		res.histogram['skipped:load-error'] = res.histogram.get('skipped:load-error', 0) + 1
		return
	res.cases += 1
	try:
		with cpu_budget(TRANP_BUDGET_S):
			try:
				refl, mod = sess.module(src)
			except Exception as e:  # noqa: BLE001 - CPython ran the program: the real code must accept it
				res.findings.append(Finding(key=f'raises:{exc_enum(e)}:load', what=f'tranp cannot load a program CPython runs: {exc_enum(e)}: {str(e)[:200]}',
					replay={'program': src, 'session': session}))
				return
			dis, stats = S.compare(run, refl, mod)
	except CaseTimeout as e:
		# CPython ran the program in milliseconds: inference that does not come back is a totality failure (CPU time, not wall time)
		res.findings.append(Finding(key='timeout:inference', what=f'loading / typing a program CPython runs used {e}', replay={'program': src, 'session': session}))
		return
	except Exception as e:  # noqa: BLE001 - the comparison itself must not end the check: an unreadable answer of the real code is a finding
		res.findings.append(Finding(key=f'raises:{exc_enum(e)}:compare', what=f'the answers of the real code could not be compared: {exc_enum(e)}: {str(e)[:200]}',
			replay={'program': src, 'session': session}))
		return
	for k, v in stats.items():
		res.histogram[f'{label}:{k}'] = res.histogram.get(f'{label}:{k}', 0) + v
	history = None
	if dis and sess.history and label != 'replay' and res.histogram.get('history-checks', 0) < 3:
		# does the failure need the session's history? (re-check alone in a fresh session; if it vanishes the replay carries the history)
		res.histogram['history-checks'] = res.histogram.get('history-checks', 0) + 1
		alone = SearchResult('alone')
		check_program(Session(ctx_of(sess)), src, calls, alone, session, 'replay')
		if {f.key for f in alone.findings} != {d['key'] for d in dis}:
			history = [{'program': p, 'call': [[x[0], repr(list(x[1]))] for x in c]} for p, c in sess.history]
	# the replay carries the calls of the module-level function the failing site stands in (else the first three)
	spans = [(n.lineno, n.end_lineno or n.lineno, n.name) for n in ast.parse(src).body if isinstance(n, (ast.FunctionDef, ast.ClassDef))] if dis else []
	for d in dis:
		inside = {nm for lo, hi, nm in spans if lo <= d['span'][0] <= hi}
		own = [c for c in calls if c[0] in inside][:3]
		fd = finding_of(d, src, own or calls[:3], session)
		if history is not None:
			fd.replay['history'] = history
		res.findings.append(fd)
	sess.history.append((src, calls[:3]))
	if len(res.samples) < 2 and stats['compared'] > 3:
		res.samples.append({'program': src[:600], 'stats': stats})


def search_witnesses(ctx: Ctx) -> SearchResult:
	"""corpus/C03/*.json with a "witness": regression cases of the repaired defects (must pass: any finding is a violation under the
	old key, which known_findings lists as fixed) and the witnesses of the known findings; regression cases each in a fresh session,
	the known witnesses in one session, plus once all together in one session in reverse order (history)"""
	res = SearchResult('corpus regression cases / known-finding witnesses: real type_of vs CPython run-time type')
	d = os.path.join(common.CORPUS_DIR, PROP)
	recs = []
	for fn in sorted(os.listdir(d)) if os.path.isdir(d) else []:
		if fn.endswith('.json'):
			with open(os.path.join(d, fn), encoding='utf-8') as f:
				rec = json.load(f)
			if rec.get('witness'):
				recs.append((fn, rec['witness']))
	shared, known_sess, regr_sess = Session(ctx), Session(ctx), Session(ctx)
	each_fresh = ctx.tier != 'quick'   # quick: the regression cases share one session too (an App costs about a second)
	# (quick: the second, reversed pass replays the known witnesses and every second regression case, alternating with the seed)
	second = [r for i, r in enumerate(recs) if each_fresh or r[1].get('expect') != 'pass' or i % 2 == ctx.seed % 2]
	for fresh, items in ((True, recs), (False, list(reversed(second)))):
		for fn, w in items:
			calls = [(c[0], [tuple(a) if w.get('tuple_args') and isinstance(a, list) else a for a in c[1]]) for c in w['calls']]
			before = len(res.findings)
			# first pass: every regression case in a session of its own (quick tier: in one session, in order), the known-finding
			# witnesses in one session in order;
			# second pass: everything in one session in reverse order
			sess = shared if not fresh else known_sess if w.get('expect') != 'pass' else Session(ctx) if each_fresh else regr_sess
			check_program(sess, w['program'], calls, res, fn, 'witness')
			got = sorted({f.key for f in res.findings[before:]})
			name = w.get('regression_of') or w.get('expect_key')
			if w.get('expect') == 'pass':
				# the listed known findings a regression program cannot avoid (an explicit super().__init__() call) are not its verdict
				from harness.c03_search import UNDERSTOOD
				got = [k for k in got if k not in UNDERSTOOD]
				res.histogram[f"regression:{name}:{'pass' if not got else 'FAIL ' + ','.join(got)}"] = 1
			else:
				res.histogram[f"known:{name}:{'reproduced' if name in got else 'NOT-reproduced'}"] = 1
	res.distinct = len(recs)
	return res


def search_exprs(ctx: Ctx) -> SearchResult:
	"""typed functions around generated expressions, called with generated arguments"""
	rng = ctx.sub_rng('search-exprs')
	res = SearchResult('expression sites of typed functions: real type_of vs CPython run-time type (shared and fresh sessions)')
	seen: set[str] = set()
	n_sessions = ctx.scale(2, 8)
	dl = Deadline(ctx, 35, 500)
	for si in range(n_sessions):
		sess = Session(ctx)
		for pi in range(ctx.scale(8, 40)):
			if (si, pi) >= (0, 4) and dl.over():
				continue
			fns = []
			for i in range(8):
				g = X.Gen(rng, SEARCH_ENV, 'search')
				t = g.pick_ty(2) if rng.random() < 0.8 else ('list', ('opt', X.INT))
				if i == 1:
					# one slice of a tuple per program. Omitted, literal and SIGNED literal bounds are the repaired domain (c5f6dc1, da8b916, key
					# tuple-slice: a mismatch is a violation): every combination of omitted / in-range / out-of-range / crossing / negative
					# bounds over tuples of 2..5 elements, as a parameter, a literal, a call result or an element of a list. Computed
					# bounds are what is left of the known finding tuple-slice-nonliteral-bounds (low rate).
					tv, n = rng.choice([('t', 2), ('tt', 3), ('(a, s, b, p)', 4), ('(s, a)', 2), ('(b, s, a, p, s)', 5), ('[tt, tt][0]', 3), ('(a, (s, b), xs)', 3)])
					if rng.random() < 0.08:
						lo, hi = rng.choice(['', '0', '1', 'a', 'c', 'a - 1', '1 - 1']), rng.choice(['', '1', '2', 'a', 'c + 1', '1 + 1'])
						if lo in ('', '0', '1') and hi in ('', '1', '2'):
							lo = 'a'
						fns.append(f'{tv}[{lo}:{hi}]')   # the known form stands alone: its value is not used again
						continue
					else:
						def bound(p_omit: float) -> str:
							r2 = rng.random()
							if r2 < p_omit:
								return ''
							k = rng.randint(0, n + 1)
							return str(k) if r2 < p_omit + 0.35 else f'-{k}' if r2 < 0.93 else f'+{k}'
						lo, hi = bound(0.3), bound(0.4)
					e1 = f'{tv}[{lo}:{hi}]'
					r = rng.random()
					fns.append(e1 if r < 0.5 else f'[{e1}, {e1}]' if r < 0.7 else f'{e1} if p else {e1}' if r < 0.8 else f'{{s: {e1}}}' if r < 0.9 else f'[z for z in [{e1}]]')
					continue
				if i == 2 and rng.random() < 0.35:
					# a ternary whose branches share the generic class but differ in its arguments (the inferred type has to cover the
					# branch that runs; the calls below take both branches). Nothing is applied to it: an operator on such a Union of
					# containers is the known finding ternary-union-of-containers, which has its own generated forms
					t1, t2 = rng.choice([(('list', X.INT), ('list', X.FLOAT)), (('list', X.STR), ('list', X.INT)), (('dict', X.STR, X.INT), ('dict', X.STR, X.STR)),
						(('tuple', X.INT, X.STR), ('tuple', X.STR, X.INT)), (('list', ('list', X.INT)), ('list', ('list', X.FLOAT))), (('dict', X.INT, ('list', X.INT)), ('dict', X.INT, ('list', X.STR)))])
					if rng.random() < 0.5:
						t1, t2 = t2, t1
					fns.append(f"{g.expr(t1, 1).at(X.P_OR)} if {rng.choice(['p', 'q', 'not p', 'a > 1'])} else {g.expr(t2, 1).at(X.P_TERN)}")
					continue
				if i == 3 and rng.random() < 0.6:
					# an optional inferred from a ternary with None in either branch, or declared with None on either side, used as the value
					# it holds (tranp unwraps an optional whichever side None stands on; calls whose optional is None raise in CPython and
					# record nothing further)
					val, uses = rng.choice([('xs', ['w[0]', 'w.copy()', '[z + 1 for z in w]', 'w[0:1]']), ('d', ['w["k"]', '[k2 for k2 in w.keys()]', 'w.get(s)']),
						('t', ['w[0]', 'w[1]', 'w[1:]']), ('s', ['w.upper()', 'w[0]']), ('[a, c]', ['w[1]', '[z for z in w]']), ('{s: b}', ['w[s]', 'w.values()'])])
					cnd = rng.choice(['p', 'q', 'not p', 'a > 1'])
					w = rng.choice([f'None if {cnd} else {val}', f'{val} if {cnd} else None', rng.choice(['oln', 'ol']) if val == 'xs' else rng.choice(['odn', 'od']) if val == 'd'
						else 'otn' if val == 't' else 'osn' if val == 's' else f'None if {cnd} else {val}'])
					if w in ('odn', 'od'):
						uses = ['w["k"]', '[k2 for k2 in w.keys()]', 'w.get(s)', '{k2: v2 for k2, v2 in w.items()}']
					fns.append(f'0\n\tw = {w}\n\tu = {rng.choice(uses)}')
					continue
				if i == 4 and rng.random() < 0.85:
					# one literal with spread items per program (on_spread, reflections.py:722: the items of `*e` are typed by the FIRST type
					# argument of e's type): lists, dicts (= their keys) with different key / value types, views, ranges, nested lists, in
					# every position of the literal, alone, doubled, indexed, and the dict form `{**d, k: v}`. A heterogeneous tuple and
					# `d.items()` are typed by their first member (known finding spread-first-type-argument): low rate, alone.
					if rng.random() < 0.08:
						fns.append(rng.choice(['[*t]', '[*tt]', '[*d.items()]', '[*di.items()]']))
						continue
					by_el = {
						'int': (['xs', 'di', 'di.keys()', 'd.values()', 'range(3)', 'range(a % 3 + 1)', 'reversed(xs)', 'xss[0]', '[a, c]'], ['a', 'c', '7']),
						'str': (['d', 'dd', 'do', 'ss', 'd.keys()', 'dd.keys()', 'di.values()', '[s]', 's.split(",")'], ['s', '"w"']),
						'float': (['ys', '[b, e]', 'reversed(ys)', '{s: b}.values()'], ['b', 'e', '0.5']),
						'list[int]': (['xss', 'dd.values()', '[xs]', 'xss.copy()'], ['xs', '[a]']),
					}
					el = rng.choice(['int', 'str', 'str', 'float', 'list[int]'])
					srcs, plain = by_el[el]
					items = ['*' + rng.choice(srcs) for _ in range(rng.randint(1, 2))] + [rng.choice(plain) for _ in range(rng.randint(0, 2))]
					# mostly: at least one source whose type has two DIFFERENT type arguments (a dict: the items are its keys)
					two = {'int': ['di'], 'str': ['d', 'dd', 'do']}.get(el)
					if two and rng.random() < 0.75:
						# (alone or with other dicts: next to an item of the right type a wrongly typed spread only widens the element type to a
						# Union, which still denotes the run-time type)
						items = ['*' + rng.choice(two) for _ in range(rng.randint(1, 2))] + ([rng.choice(plain)] if rng.random() < 0.25 else [])
						rng.shuffle(items)
					rng.shuffle(items)
					e1 = '[' + ', '.join(items) + ']'
					r = rng.random()
					if r < 0.15:
						kt, dsrc, k, v = rng.choice([('str', ['d'], 's', 'a'), ('int', ['di'], 'a', 's'), ('str', ['dd'], 's', 'xs')])
						e1 = rng.choice(['{{**{d}, {k}: {v}}}', '{{{k}: {v}, **{d}}}', '{{**{d}}}']).format(d=rng.choice(dsrc), k=k, v=v)
					fns.append(e1 if r < 0.6 else f'{e1}[0]' if r < 0.75 else f'[z for z in {e1}]' if r < 0.85 else f'({e1}, a)')
					continue
				if i == 5 and rng.random() < 0.85:
					# one list literal per program whose EARLIER items carry less type information than a later item of the same container
					# class (empty list / dict / nested empties first): on_list (reflections.py:690-700) keeps one element type per class,
					# the last one, so these are typed by the informative item. The opposite order (the empty one last) is typed
					# list<list<Unknown>> (known finding list-literal-class-dedup), a dict literal whose FIRST value is an empty container
					# dict<K, list<Unknown>> (known finding dict-literal-empty-first-value): low rate, alone.
					empty, fulls = rng.choice([('[]', ['[a]', 'xs', '[a, c]', 'xs.copy()', '[s]', 'ys']), ('{}', ['{s: a}', 'd', '{"k": b}']), ('[[]]', ['[[a]]', 'xss', '[xs]']),
						('{}', ['{s: [a]}', 'dd']), ('[]', ['[t]', '[(a, s)]']), ('[{}]', ['[d]', '[{s: a}]']), ('(a, [])', ['(c, [s])', '(a, ss)'])])
					full = rng.choice(fulls)
					r = rng.random()
					if r < 0.1:
						fns.append(rng.choice([f'[{full}, {empty}]', f'[{empty}, {full}, {empty}]']))
						continue
					if r < 0.17 and empty in ('[]', '{}'):
						fns.append(f'{{s: {empty}, "zz": {full}}}')
						continue
					items = [empty] * rng.randint(1, 2) + [full] + ([full] if rng.random() < 0.3 else [])
					e1 = '[' + ', '.join(items) + ']'
					if r < 0.3:
						e1 = f'{{s + "q": {full}, s: {empty}}}'       # the informative value first: right
					fns.append(e1 if r < 0.65 else f'{e1}[{len(items) - 1}]' if r < 0.75 and e1[0] == '[' else f'[z for z in {e1}]' if r < 0.85 and e1[0] == '[' else f'({e1}, a)')
					continue
				if i == 0:
					# one flat arithmetic chain per program (mixed operators of one precedence level, mixed int/bool/float operands)
					fns.append(g.arith(rng.choice([X.FLOAT, X.INT]), 1).text)
					continue
				fns.append(g.expr(t, rng.randint(1, 4)).text)
			src = ''.join(X.header(SEARCH_ENV).replace('def f(', f'def f{i}(') + f'\tv = {e}\n\n' for i, e in enumerate(fns))
			calls = []
			for i in range(8):
				for _ in range(3):
					calls.append((f'f{i}', [X.gen_value(rng, t) for _, t in SEARCH_ENV]))
			seen.update(fns)
			check_program(sess, src, calls, res, f'session{si}:program{pi}', 'exprs')
	res.distinct = len(seen)
	res.histogram['programs-cut-by-deadline'] = dl.cut
	res.note = 'session = one tranp App reused for all its programs (history effects of the inference service are part of the quantifier)'
	return res


def search_programs(ctx: Ctx) -> SearchResult:
	"""whole programs of harness/gen_prog.py (functions, classes, loops, containers) with their argument vectors"""
	from harness import gen_prog
	rng = ctx.sub_rng('search-programs')
	res = SearchResult('whole generated programs: every declaration and expression site, real type_of vs CPython run-time type')
	sess = Session(ctx)
	seen: set[str] = set()
	dl = Deadline(ctx, 25, 300)
	for pi in range(ctx.scale(18, 400)):
		if pi >= 6 and dl.over():
			break
		if pi % 60 == 59:
			sess = Session(ctx)
		try:
			p, _ = gen_prog.generate(random.Random(rng.random()), rng.choice([2, 3, 3, 4]), rng.choice(['stmt', 'class', 'stmt', 'expr']))
			src = gen_prog.print_prog(p)
			calls = [(fn, list(args)) for fn, vecs in p.args.items() for args in vecs[:3]]
		except Exception:  # noqa: BLE001 - the generator belongs to another check; a failure there is not a C03 case
			res.histogram['skipped:generator'] = res.histogram.get('skipped:generator', 0) + 1
			continue
		seen.add(src)
		check_program(sess, src, calls, res, f'program{pi}', 'programs')
	res.distinct = len(seen)
	res.histogram['cut-by-deadline'] = dl.cut
	return res


def search_typed_programs(ctx: Ctx) -> SearchResult:
	"""whole programs of harness/c03_progs.py: classes, inheritance, Enum, Generic, optionals, containers of objects"""
	from harness import c03_progs
	rng = ctx.sub_rng('search-typed-programs')
	res = SearchResult('typed whole programs (classes, Enum, Generic, optionals, containers of objects): real type_of vs CPython run-time type')
	sess = Session(ctx)
	seen: set[str] = set()
	dl = Deadline(ctx, 40, 500)
	for pi in range(ctx.scale(10, 250)):
		if pi >= 6 and dl.over():
			break
		if pi % 40 == 39:
			sess = Session(ctx)
		try:
			src, entry, args, hist = c03_progs.generate(random.Random(rng.random()), allow_hetero=rng.random() < 0.7)
		except Exception as e:  # noqa: BLE001 - a failure of the harness's own generator is not a case (counted, never a crash of the check)
			res.histogram[f'skipped:generator:{type(e).__name__}'] = res.histogram.get(f'skipped:generator:{type(e).__name__}', 0) + 1
			continue
		for k, v in hist.items():
			res.histogram[f'feature:{k}'] = res.histogram.get(f'feature:{k}', 0) + v
		seen.add(src)
		check_program(sess, src, [(entry, a) for a in args], res, f'program{pi}', 'typed')
	res.distinct = len(seen)
	res.histogram['cut-by-deadline'] = dl.cut
	return res


def search_order(ctx: Ctx) -> SearchResult:
	"""The history law on the real code, without CPython: the type of every expression of a program does not depend on the ORDER in which
	the expressions are queried, nor on the session — session A answers the sites first to last, session B (another App) last to first;
	both sessions are reused for all programs (so each also carries the history of the earlier programs). Programs: the typed
	whole-program generator (generic classes instantiated with different arguments, user operators, optionals, …)."""
	from harness import c03_progs
	from harness import c03_search as S
	rng = ctx.sub_rng('search-order')
	res = SearchResult('query-order / session independence of type_of on typed whole programs (two sessions, opposite query orders)')
	sess_a, sess_b = Session(ctx), Session(ctx)
	dl = Deadline(ctx, 25, 300)
	seen: set[str] = set()
	for pi in range(ctx.scale(3, 40)):
		if pi >= 2 and dl.over():
			break
		try:
			src, _, _, _ = c03_progs.generate(random.Random(rng.random()), allow_hetero=False)
		except Exception as e:  # noqa: BLE001 - the harness's own generator: counted, never a crash of the check
			res.histogram[f'skipped:generator:{type(e).__name__}'] = res.histogram.get(f'skipped:generator:{type(e).__name__}', 0) + 1
			continue
		seen.add(src)
		answers: list[dict[Any, str]] = []
		try:
			with cpu_budget(2 * TRANP_BUDGET_S):
				for sess, rev in ((sess_a, False), (sess_b, True)):
					refl, mod = sess.module(src)
					sites = sorted(S.expression_nodes(mod).items(), reverse=rev)
					ans: dict[Any, str] = {}
					for span, cands in sites:
						node = S.pick(cands, 'expr')
						try:
							ans[span] = 'ok ' + refl.type_of(node).pretty
						except Exception as e:  # noqa: BLE001
							ans[span] = exc_enum(e)
					answers.append(ans)
		except CaseTimeout as e:
			res.findings.append(Finding(key='timeout:inference', what=f'loading / typing a generated program used {e}', replay={'program': src}))
			continue
		except Exception as e:  # noqa: BLE001 - the generator emits programs CPython runs and tranp loads (search_typed_programs reports a load failure)
			res.histogram[f'skipped:{exc_enum(e)}'] = res.histogram.get(f'skipped:{exc_enum(e)}', 0) + 1
			continue
		res.cases += 1
		a, b = answers
		res.histogram['sites'] = res.histogram.get('sites', 0) + len(a)
		lines = src.split('\n')
		for span in sorted(a):
			if a[span] != b.get(span):
				l0, c0, l1, c1 = span
				text = lines[l0 - 1][c0:c1] if l0 == l1 else lines[l0 - 1][c0:]
				res.findings.append(Finding(key='order:type_of-depends-on-query-order',
					what=f'`{text}` (line {l0}) is typed {a[span]} when the sites are queried first to last, {b.get(span)} when queried last to first in another session',
					replay={'program': src, 'span': list(span), 'forward': a[span], 'backward': b.get(span)}))
				break
		if len(res.samples) < 2:
			res.samples.append({'program': src[:600], 'sites': len(a)})
	res.distinct = len(seen)
	res.histogram['cut-by-deadline'] = dl.cut
	return res


STATEMENTS: dict[str, str] = {
	'dunder': 'every scalar binary-operator row (class, dunder, argument type) -> return type of the table generated from classes.py states CPython\'s result type (all operand values; 56 rows today, decided over the whole table)',
	'dunder_unary': 'the __neg__/__pos__ rows state CPython\'s result type',
	'step_agreement': 'on scalar operands one step of each_binary_operator gives CPython\'s type whenever CPython accepts the operands (no scalar disagreement left since 4f4a122)',
	'sound_conf': 'THE property sentence on the model: on Core (incl. unary on bool, bool|int, tuple slices with omitted / literal / signed literal bounds, stub calls, comprehensions) infer succeeds from every session state, leaves it untouched, and the inferred type denotes the value CPython computes (induction over expressions)',
	'sound': 'same hypotheses + determined value + plain inferred type: infer Γ e = ok (typeOf v)',
	'total': 'on Core inference never fails and the inferred type contains no Unknown (env without Unknown)',
	'session_independent': 'for EVERY expression (also ill-typed ones): infer Γ e s = ((infer Γ e false).1, s) — no handler reads or writes the session state (false before 401dc97)',
	'template': 'list[T].pop() is typed T for EVERY type T (Unions, nested generics): proved on the step-by-step port of TemplateManipulator by induction on T (false before e9f8d3f)',
	'chain_type / chain_left_nested': 'for a flat operator chain in Core with a scalar value the inferred (= emitted) type is the type of the left-nested CPython evaluation, each step with its own operator',
	'sound_decl / sound_for': 'a declaration takes its value\'s type and the extended environment still conforms after CPython executed it; the targets of a for clause are bound to types denoting every item',
	'sound_iter / iter_type / iterates_user': 'the loop-variable type (IteratorTrait: __next__ before __iter__, Iterator<T> unwrapped) denotes every value the variable takes: list/dict/Iterator sources for EVERY element type (proved through the TemplateManipulator port), views, and user classes following either iterator-protocol form',
	'sound_attr': 'r.a on an instance of a user class (instance variable, class variable, property) through the single-inheritance chain: inferred = declared type of the first member on the chain, and it denotes the value CPython reads (instance dict, then class); method calls and constructors are part of sound_conf',
	'var_at / class_scope_rule': 'the Var handler over the environment induced by C08\'s symbol-table model (find_by_symbolic, allow_scope) answers the type of the symbol found; on the nested-class program a bare name in the nested class body / a method is the module-level symbol, directly in the class body the class variable',
	'nullable_order_irrelevant / nullable_order_handlers': 'unwrapping an optional (_actualize_nullable) does not depend on the side None is written on: T | None and None | T both unwrap to T, so subscript, slice, attribute access and iteration answer the same for both spellings',
	'member_depth_first': 'member lookup through several base classes (__resolve_raw_recursive) is depth-first, left to right: what the first base reaches, itself or through its own bases, wins over anything a later base declares; only when its whole ancestry has nothing the next base is searched. For tree-shaped hierarchies (no diamonds; what the generators build) this is the order of the MRO of CPython',
	'lambda_param_callable': 'resolve_lambda_param on the model: for C = Callable[[A...], R] the i-th lambda parameter is A_i when the lambda is assigned under the annotation C, returned from a function declared -> C, or passed where the parameter of the function / closure / method / constructor is C, C | None or None | C',
	'sound_lambda_param': 'applied to values of the types its parameters were given, the lambda body runs in an environment conforming to the one it is typed in: the inferred body type denotes the returned value, and the lambda is typed Callable<parameter types..., body type> (on_lambda)',
	'sound_lambda_immediate': '(lambda x...: body)(args...) without any assumption on a callee: parameters typed by the inferred argument types, argument values conform to them, the body type denotes the value of the call',
	'user_operator_left_decides': 'one step of each_binary_operator on the model: once the LEFT operand\'s try_operation answers, that is the type — whatever the right operand\'s class declares for the operator (the swapped attempt is a fallback only)',
	'user_operator_partial': 'x op y with x an instance of a user class whose operator method (found through the chain) takes the class P, y an instance of P or of a class with P among the classes try_operation compares (operandCandidates: the DIRECT bases as the source reads today): typed by the declared result of type(x).<dunder>, the method CPython calls (tryOpUser = try_operation incl. the inherits loop, traits.py:178-225)',
	'sound_user_operator': 'the same at the level of VALUES: whatever CPython\'s call type(x).<dunder>(x, y) returns (World.call under WorldConf: a method returns a value of its declared type, also when a subclass override runs) is denoted by the type one step of each_binary_operator infers',
	'user_operator_counterexample': 'known finding operator-operand-indirect-subclass: while try_operation compares the operand\'s DIRECT bases only (InferShape.operandBasesDirect, read from the source on every run; operandCandidates of the model follows it) the full sentence (y of ANY descendant of P: user_operator_statement) is false on the code — nu + b2 with Big2(Big(Num)) is typed Big, CPython: Num (corpus witness 44)',
	'user_operator_full_when_repaired': 'once the source compares ALL ancestors of the operand (proposed/C03-operator-operand-indirect-subclass.diff; the translator then reads operandBasesDirect = false) the model of the code satisfies the full sentence user_operator_statement',
	'user_operator_step / user_chain_type': 'a flat chain x op1 y op2 z … over instances of user classes, every step within the decidable form (directOk) of the hypotheses above: each_binary_operator (left to right, the previous RESULT as receiver) answers the type CPython\'s left-nested evaluation dispatches to (induction on the chain)',
	'user_operator_repaired': 'on the model of try_operation with proposed/C03-operator-operand-indirect-subclass.diff applied (all ancestors of the operand compared) the FULL sentence user_operator_statement holds: an operand of any descendant class is typed by the left operand\'s method',
	'shape_operators': 'BOp.arith / BOp.selects of the model are exactly the literal operator lists of Operations.arthmetical (accessible.py) and of try_operation (traits.py), read from the source by translate/gen_infer_shape.py on every run, for every operator token; the translator pins the statement sequence of try_operation and each_binary_operator (another shape = broken tie)',
	'shape_attr_indexes': 'the attrs positions the handlers read (on_spread 0, on_indexer 0 / 1, on_dict 1, IteratorTrait.iterates 0 — generated from the source; no other handler of ProceduralResolver indexes attrs by a constant) are the ones onSpread / onIndex / onDict use',
	'handlers_accounted': 'every on_… handler ProceduralResolver defines (68 today; list generated from reflections.py on every run) has an arm of infer (32), is modelled beside it (on_spread, on_lambda) or is listed as outside the Lean model (34: declarations / statements — tied through the decl / for ops of stream infer-programs —, type annotations, arguments, imports, class / this / super references); a handler added, removed or renamed breaks the theorem',
	'generic_attr_partial': 'an attribute of a generic class read on an instance (propOf = templates.Class.prop over the TemplateManipulator port, a pure function of declaration and receiver: no answer can depend on an earlier one) is the declared type with every class type variable replaced by the receiver\'s argument — proved for the nine declared shapes (variables up to three levels deep) × 5 × 5 arguments the generators build; generic_attr_statement (every declared type) is not proved',
	'spread_items / sound_spread': 'on_spread (first type argument) equals the loop-variable type iterates answers for a list, a dict (keys) and Iterator<T> sources, for EVERY element type; hence the items CPython spreads conform to it (through sound_iter)',
	'spread_tuple_counterexample': 'known finding spread-first-type-argument: for t = (1, "a") : tuple[int, str] on_spread answers int, CPython spreads a str too',
	'on_list_last_of_class': 'on_list over items that all have one class keeps the LAST item\'s type (not the first, not the most informative), for every non-empty list of item types: [[], [n]] is typed by [n], [[n], []] by [] (the known finding)',
	'dict_literal_counterexample': 'known finding dict-literal-empty-first-value: {"s": [], "z": [1]} is typed dict<str, list<Unknown>> — on_dict takes the first item whose value is not of CLASS Unknown (outside Core)',
	'list_literal_counterexample': 'known finding list-literal-class-dedup: [[None], [1]] is typed list<list<int>> (outside Core)',
	'dict_get_counterexample': 'known finding dict-get-missing-key: d.get("z") typed int, CPython returns None (outside Core)',
	'abs_bool_counterexample': 'known finding abs-of-bool: abs(True) typed bool, CPython: int',
	'list_items_counterexample': 'known finding list-of-dict-items: list(d.items()) typed list<str>, CPython: list of (key, value) tuples',
	'boolop_counterexample': 'known finding boolop-nonbool-operands: 1 and 2 typed bool, CPython: int 2',
	'tuple_slice_computed_counterexample': 'known finding tuple-slice-nonliteral-bounds (computed bounds only since da8b916; signed literal bounds are in Core and proved sound): t[0 + 1:] keeps the whole tuple type',
	'ternary_union_counterexample': 'known finding ternary-union-of-containers: ([a] if p else [None]) * 2 — inference fails (OperationNotAllowed) on an expression CPython evaluates',
}

PARTIAL = {
	'proved': 'int/float/bool/str, list[T], dict[K,V], tuple[...], optionals (as denotation of a Union), stub generics with their arguments (list/dict/str methods, len/abs/min/max/int/float/bool/str/list/range/reversed/enumerate), '
		'literals, variables, unary/binary operators, comparisons, and/or/not, ternary, subscripts, slices, groups, list/dict comprehensions: soundness and totality on the model, by induction on expressions; '
		'session independence for all expressions; template substitution of list.pop for all element types',
	'correspondence_only': 'that the model IS the code: ProceduralResolver handlers, try_operation, TemplateManipulator path matching (stream infer, shared sessions = history), try_operation / each_binary_operator on user classes (stream infer-operators), on_spread / on_list over spread items (stream infer-spread), templates.Class.prop for attributes of user generic classes (stream infer-generic-attrs), member lookup through the inheritance chain, on_relay, constructors, IteratorTrait, declaration typing of whole function bodies (stream infer-programs); CPython semantics of the core (stream pytype)',
	'modelled_separately': 'operators on instances of user classes and spread items are modelled beside the expression model (Model/InferOps.lean: foldBinAny, onSpread; streams infer-operators, infer-spread), not as constructors of Expr: sound_conf does not range over them, user_operator_* / user_chain_type / spread_* do',
	'search_only': 'that the class-scope visibility rule equals CPython\'s scoping (LEGB) — the Lean side states the rule on C08\'s Scope model and checks it on the nested-class program, the equality with CPython is exhibited by the recorder search (shadowing through nested classes); diamond-shaped hierarchies (chainOf is the depth-first walk of the code, not C3), Enum, user generic FUNCTIONS and methods, attributes typed by a type variable read on DESCENDANTS of a generic class (attributes read on an instance of the generic class itself: stream infer-generic-attrs + generic_attr_partial; query-order / session independence of every answer: search_order) (generic_chain_block; two known findings for METHODS there) (the template port is proved for stub methods; the position rule of 68f934e is checked on examples), nested classes, imports, resolve_unknown laziness, type aliases (as element / value / parameter types, destructured by for statements, comprehensions and assignments: alias_block, corpus 52), factory classmethods of generic classes called on the bare / subscripted class (classmethod_block, corpus 53), while/try/with, augmented and attribute assignments',
	'assumed_of_callees (sound_lambda_param)': 'a callee applies a callback declared Callable[[A...], R] to values of the types A (hypothesis ArgsConf; the typing obligation of the callee body, exhibited by the recorder search which observes the parameters inside lambda bodies); discharged for immediate calls',
	'assumed_of_user_code (user operators)': 'pyUserOpTy: an operator method returns a value of its declared type, and no class declares a REFLECTED method for class operands with another result type than the forward method (CPython asks a subclass operand first only through a reflected method); hierarchies are tree-shaped',
	'assumed_of_user_code (WorldConf)': 'constructor / method / property / class-variable / __next__ results conform to their DECLARED types (each method body\'s own typing obligation; method bodies are typed statement by statement by sound_decl / sound_conf but not executed by the model)',
	'still_false_on_the_code (known findings)': 'list-literal-class-dedup, dict-literal-empty-first-value, dict-get-missing-key, abs-of-bool, list-of-dict-items, boolop-nonbool-operands, tuple-slice-nonliteral-bounds, ternary-union-of-containers (each with a proved counterexample outside Core), min-max-mixed-numeric, union-of-subclasses-attribute, explicit-init-call, generic-method-on-indirect-subclass, generic-method-nested-type-argument, shift-reflected-user-operand (floats / user classes / lambdas are outside the model: corpus witness only), spread-first-type-argument (proved counterexample); operator-operand-indirect-subclass is repaired (435b7a5: the translator reads operandBasesDirect = false, user_operator_full_when_repaired applies; operands up to five levels below the parameter class are ordinary generated forms, corpus 54); every one is generated at a low rate and replayed from corpus/C03 first',
}

ASSUMPTIONS = [
	'stub classes have fewer than ten attributes per symbol (dotted-path prefix test of template.py = list prefix)',
	'comprehension targets do not shadow parameters; a referenced unpacking target beyond the item arity is not generated (raw IndexError / Errors.Fatal depending on context)',
	'at most one ill-typed atom per generated expression (error precedence between two faults inside a comprehension is not modelled)',
	'outside the quantifier (not generated by the search; the infer stream still pins what the code answers): programs CPython rejects at run time although the stub accepts them (a | 1.5, a << 1.5, "s" & a: not well-typed); operations the stub library does not declare (list + list, bool ^ bool, float % bool, str * bool, iteration over str / tuple, list(str)): tranp refuses them with OperationNotAllowed / UnresolvedSymbol = outside the supported subset; assigning the result of list.remove (typed T_Value by the stub, None in CPython: Python type checkers reject the use of that value)',
	'pytype domain: |int| < 2^50, finite floats of moderate magnitude, containers up to 64 items, ASCII strings (enforced at run time by a checker around every intermediate value; outside cases are discarded, not compared)',
	'search oracle: a type printed through an alias (`P=tuple<int, str>`) is read as the aliased type; only determined run-time types are compared (an empty container among the items of a container counts as an instance of its siblings\' type: [[], [1]] is a list of int lists); the value of an expression statement is not compared; type arguments of user generics are erased at run time and not compared; instances of a subclass are accepted for the declared base class',
]

TRUSTED = [
	'CPython 3.12 as the oracle of run-time types (streams pytype and every search)',
	'Lean `Float` = IEEE binary64 with the C operations CPython uses (only the value flow through conditions depends on it)',
	'tranp source spans (C16) to pair CPython ast nodes with tranp nodes in the search',
]


def run(ctx: Ctx) -> int:
	from translate import gen_dunder, gen_infer_shape
	translate_ok, translate_msg = True, ''
	for gen in (gen_dunder, gen_infer_shape):
		try:
			ctx.generated_tables.extend(gen.generate())
		except Exception as e:  # noqa: BLE001 - the tie to classes.py / to the handlers' constants is broken: reported by finish, never a silent success
			translate_ok, translate_msg = False, (translate_msg + '; ' if translate_msg else '') + f'{gen.__name__}: {type(e).__name__}: {str(e)[:600]}'
	proof = common.prove(ctx, PROP, leanchecker=ctx.thorough)
	with ctx.timed('correspondence'):
		streams = [stream_infer(ctx), stream_programs(ctx), stream_operators(ctx), stream_generic_attrs(ctx), stream_spread(ctx), stream_pytype(ctx)]
	with ctx.timed('search'):
		searches = [search_witnesses(ctx), search_exprs(ctx), search_programs(ctx), search_typed_programs(ctx), search_order(ctx)]
	# findings outside the understood failing-input classes first (finish prints at most five VIOLATION lines)
	from harness.c03_search import UNDERSTOOD
	for sr in searches:
		sr.findings.sort(key=lambda fd: fd.key in UNDERSTOOD)
	return common.finish(ctx, proof, streams, searches, statements=STATEMENTS, partial=PARTIAL, assumptions=ASSUMPTIONS, trusted=TRUSTED,
		translate_ok=translate_ok, translate_msg=translate_msg)


def replay(ctx: Ctx, path: str) -> int:
	"""--replay FILE: a failing-input file is re-checked on the real code alone; any other replay file re-runs the check with its seed"""
	with open(path, encoding='utf-8') as f:
		rec = json.load(f)
	inp = rec.get('input') or {}
	if rec.get('kind') == 'failing-input' and 'program' in inp:
		res = SearchResult('replay')
		def parse_calls(cs: Any) -> list[tuple[str, list[Any]]]:
			return [(c[0], ast.literal_eval(c[1]) if isinstance(c[1], str) else c[1]) for c in cs or []]
		calls = parse_calls(inp.get('call'))
		print(inp['program'])
		sess = Session(ctx)
		for h in inp.get('history') or []:
			check_program(sess, h['program'], parse_calls(h.get('call')), SearchResult('history'), 'history', 'replay')
		check_program(sess, inp['program'], calls, res, 'replay', 'replay')
		for fd in res.findings:
			print(f'REPRODUCED key={fd.key}: {fd.what}')
		if not res.findings:
			print('not reproduced in a fresh session (history-dependent findings need the recorded session: see "session" in the file)')
		ctx.cleanup()
		return 1 if res.findings else 0
	print(json.dumps(rec, indent=1)[:4000])
	ctx2 = Ctx(PROP, rec.get('tier', 'quick'), int(rec.get('seed', 0)))
	return run(ctx2)
