"""Temporary tranp projects driven through the real command-line application (shared by C05 and C06).

A project is a directory with `config.yml` (absolute /repo/data paths), an input package (default `app/`) with generated
modules, its own cache directory `.cache/tranp` (tranp's default CacheSetting is relative to the cwd, DESIGN.md §1) and
output directories. A *run* builds a fresh `App(TranspileApp.definitions(Args(argv)))` exactly as
rogw/tranp/bin/transpile.py:__main__ does and invokes `TranspileApp.run` in-process with cwd = project directory; every
run therefore has the state of a fresh CLI process as far as tranp's own objects are concerned (App, DI container, loaders,
CacheProvider memo, Modules, SymbolDB). `run_subprocess` starts the real CLI in a fresh interpreter.

File modification times are set from a virtual, strictly increasing clock (`os.utime`), so identities that contain an
mtime are reproducible and every edit changes the mtime (the property quantifies over edits that change content and mtime).
"""
from __future__ import annotations

import contextlib
import hashlib
import io
import os
import shutil
import signal
import subprocess
import sys
import threading
import time
from collections.abc import Iterator, Sequence
from dataclasses import dataclass, field
from typing import Any

from harness import common

REPO = common.REPO
CACHE_REL = os.path.join('.cache', 'tranp')
CLOCK_BASE = 1_600_000_000

CONFIG_TEMPLATE = '''grammar: {grammar}
template_dirs:
  - {repo}/data/cpp/template
trans_mapping: {repo}/data/i18n.yml
input_globs:
{input_globs}
output_dirs:
{output_dirs}
output_language: {output_language}
exclude_patterns: []
env:
  transpiler:
    include_dirs: []
  view:
    immutable_param_types: []
{extra}'''


# ---------------------------------------------------------------------------------------------
# audit hook: which files under a watched directory are opened for reading / writing, removed, listed


class _Audit:
	"""One process-wide audit hook (hooks cannot be removed); records only while a watch is active."""

	def __init__(self) -> None:
		self.installed = False
		self.root: str | None = None
		self.events: list[tuple[str, str]] = []
		self.lock = threading.Lock()

	def install(self) -> None:
		if self.installed:
			return
		self.installed = True
		sys.addaudithook(self._hook)

	def _hook(self, event: str, args: tuple[Any, ...]) -> None:
		root = self.root
		if root is None:
			return
		try:
			if event == 'open':
				path, mode, flags = args[0], args[1], args[2]
				if not isinstance(path, (str, bytes)):
					return
				p = os.fsdecode(path)
				if not os.path.isabs(p):
					p = os.path.abspath(p)
				if not p.startswith(root):
					return
				write = (isinstance(flags, int) and flags & (os.O_WRONLY | os.O_RDWR | os.O_CREAT | os.O_TRUNC | os.O_APPEND)) or \
					(isinstance(mode, str) and any(c in mode for c in 'wax+'))
				self.events.append(('w' if write else 'r', p))
			elif event in ('os.remove', 'os.unlink'):
				p = os.path.abspath(os.fsdecode(args[0]))
				if p.startswith(root):
					self.events.append(('d', p))
			elif event in ('os.rename', 'os.replace', 'shutil.move'):
				for a in args[:2]:
					if isinstance(a, (str, bytes)):
						p = os.path.abspath(os.fsdecode(a))
						if p.startswith(root):
							self.events.append(('w', p))
			elif event in ('os.mkdir',):
				p = os.path.abspath(os.fsdecode(args[0]))
				if p.startswith(root) or root.startswith(p + os.sep):
					self.events.append(('m', p))
		except Exception:  # noqa: BLE001 - an audit hook must never raise into the audited code
			return

	@contextlib.contextmanager
	def watch(self, root: str) -> Iterator[list[tuple[str, str]]]:
		self.install()
		root = os.path.abspath(root)
		self.events = []
		self.root = root if root.endswith(os.sep) else root + os.sep
		try:
			yield self.events
		finally:
			self.root = None


AUDIT = _Audit()


# ---------------------------------------------------------------------------------------------
# budgets: one real run, and a whole stream / search (a slow or non-terminating case is a result, never a hang)

RUN_CPU_S = float(os.environ.get('VERIF_RUN_CPU_S', '') or 60.0)		# CPU time of the harness process per real run (a run takes ≈ 0.3–1 s): immune to machine load
RUN_WALL_S = float(os.environ.get('VERIF_RUN_WALL_S', '') or 600.0)		# wall-clock safety net (a run stuck in I/O or sleep)
BUDGET_HITS: dict[str, int] = {}		# how many real runs were cut by the budget (reported in the evidence notes)


class RunBudgetExceeded(BaseException):
	"""Raised by the interval timers inside a real run (BaseException: tranp's `except Exception` does not swallow it)."""


class RunDoesNotEnd(Exception):
	"""What a RunResult carries as `exc` when the run was cut by the budget (never raised)."""


def _on_timer(_sig: int, _frm: Any) -> None:
	raise RunBudgetExceeded()


@contextlib.contextmanager
def run_budget(cpu_s: float | None = None, wall_s: float | None = None) -> Iterator[None]:
	"""`with run_budget():` — RunBudgetExceeded is raised in the main thread once the body used more than `cpu_s` of CPU time or
	`wall_s` of wall time (a no-op outside the main thread)."""
	if threading.current_thread() is not threading.main_thread() or not hasattr(signal, 'setitimer'):
		yield
		return
	old_prof = signal.signal(signal.SIGPROF, _on_timer)
	old_alrm = signal.signal(signal.SIGALRM, _on_timer)
	signal.setitimer(signal.ITIMER_PROF, RUN_CPU_S if cpu_s is None else cpu_s)
	signal.setitimer(signal.ITIMER_REAL, RUN_WALL_S if wall_s is None else wall_s)
	try:
		yield
	finally:
		signal.setitimer(signal.ITIMER_PROF, 0)
		signal.setitimer(signal.ITIMER_REAL, 0)
		signal.signal(signal.SIGPROF, old_prof)
		signal.signal(signal.SIGALRM, old_alrm)


def budget_hit(res: 'RunResult', where: str) -> None:
	"""Marks `res` as a run that did not end within the budget."""
	BUDGET_HITS[where] = BUDGET_HITS.get(where, 0) + 1
	res.ok = False
	res.error = 'RunDoesNotEnd'
	res.message = f'the run did not end within {RUN_CPU_S:.0f} s of CPU time / {RUN_WALL_S:.0f} s of wall time (a run takes about 1 s)'
	res.exc = RunDoesNotEnd(res.message)


class Deadline:
	"""Total wall deadline of a stream / search: once over, the remaining cases are skipped and COUNTED (evidence notes) — a
	deadline never produces a finding and never a verdict."""

	def __init__(self, name: str, seconds: float) -> None:
		self.name = name
		self.seconds = seconds
		self.end = time.time() + seconds
		self.skipped = 0

	def over(self, n: int = 1) -> bool:
		if time.time() >= self.end:
			self.skipped += n
			return True
		return False

	def note(self) -> str:
		return f'{self.name}: wall deadline of {self.seconds:.0f} s reached, {self.skipped} generated case(s) skipped' if self.skipped else ''


def fork_map(ctx: Any, jobs: Sequence[tuple[str, Any]], max_parallel: int = 4) -> list[Any]:
	"""Runs the independent jobs `(name, thunk)` in forked children (at most `max_parallel` at a time) and returns their results in
	order. Every job draws its random choices from its own `ctx.sub_rng(name)`, works in its own temporary projects and returns a
	picklable value, so the results do not depend on the scheduling. A child that dies without a result is an infrastructure failure
	(exit 2), never a verdict. `VERIF_NO_FORK=1` runs the jobs one after the other in this process."""
	import pickle
	import tempfile
	if os.environ.get('VERIF_NO_FORK') or not hasattr(os, 'fork') or len(jobs) < 2:
		return [thunk() for _, thunk in jobs]
	outdir = ctx.tmpdir('tranp-fork-')
	results: list[Any] = [None] * len(jobs)
	running: dict[int, int] = {}
	todo = list(range(len(jobs)))

	def start(i: int) -> None:
		sys.stdout.flush()
		sys.stderr.flush()
		pid = os.fork()
		if pid:
			running[pid] = i
			return
		code = 1
		try:
			n0 = len(ctx._tmpdirs)
			t0 = time.time()
			try:
				payload = ('ok', jobs[i][1](), round(time.time() - t0, 3))
			except BaseException as e:  # noqa: BLE001 - carried to the parent, re-raised there
				import traceback
				payload = ('error', (type(e).__name__, str(e), traceback.format_exc()), round(time.time() - t0, 3))
			tmp = os.path.join(outdir, f'{i}.tmp')
			with open(tmp, 'wb') as f:
				pickle.dump(payload, f)
			os.replace(tmp, os.path.join(outdir, f'{i}.pkl'))
			for d in ctx._tmpdirs[n0:]:
				shutil.rmtree(d, ignore_errors=True)
			code = 0
		finally:
			sys.stdout.flush()
			sys.stderr.flush()
			os._exit(code)

	while todo or running:
		while todo and len(running) < max_parallel:
			start(todo.pop(0))
		pid, _status = os.wait()
		if pid not in running:
			continue
		i = running.pop(pid)
		path = os.path.join(outdir, f'{i}.pkl')
		if not os.path.exists(path):
			raise common.InfraError(f'the child process of job {jobs[i][0]!r} ended without a result (status {_status})')
		with open(path, 'rb') as f:
			kind, value, wall = pickle.load(f)
		ctx.timings[f'job:{jobs[i][0]}'] = wall
		if kind == 'error':
			name, msg, tb = value
			if name == 'InfraError':
				raise common.InfraError(msg)
			sys.stderr.write(tb)
			raise common.InfraError(f'job {jobs[i][0]!r} crashed: {name}: {msg}')
		results[i] = value
	return results


def budget_notes() -> list[str]:
	return [f'{n} real run(s) cut by the per-run budget in {w}' for w, n in sorted(BUDGET_HITS.items())]


# ---------------------------------------------------------------------------------------------


@dataclass
class RunResult:
	ok: bool
	error: str = ''		# exc_enum of the escaped exception ('' when ok)
	message: str = ''
	events: list[tuple[str, str]] = field(default_factory=list)		# audit events under the cache directory (relative paths)
	wall: float = 0.0
	exc: BaseException | None = None


class Project:
	def __init__(self, root: str, package: str = 'app', output_dirs: Sequence[str] = ('./out',), output_language: str = 'cpp:h',
			input_globs: Sequence[str] | None = None, config_extra: str = '') -> None:
		self.root = os.path.abspath(root)
		self.package = package
		self.output_dirs = list(output_dirs)
		self.output_language = output_language
		self.input_globs = list(input_globs) if input_globs is not None else [f'{package}/**/*.py']
		self.config_extra = config_extra
		self.grammar_path = f'{REPO}/data/grammar.lark'		# may be replaced by a project-relative copy (set_grammar_copy)
		self.tick = 0
		os.makedirs(self.root, exist_ok=True)
		self.write_config()

	# ---- files

	@property
	def cache_dir(self) -> str:
		return os.path.join(self.root, CACHE_REL)

	def write_config(self) -> None:
		text = CONFIG_TEMPLATE.format(
			repo=REPO,
			grammar=self.grammar_path,
			input_globs='\n'.join(f'  - {g}' for g in self.input_globs),
			output_dirs='\n'.join(f"  - '{d}'" for d in self.output_dirs),
			output_language=self.output_language,
			extra=self.config_extra)
		with open(os.path.join(self.root, 'config.yml'), 'w', encoding='utf-8') as f:
			f.write(text)

	def next_mtime(self) -> float:
		"""Strictly increasing virtual clock in steps of 0.25 s (exact in binary): consecutive edits fall into the same
		integer second, so an identity that truncates the mtime is exposed."""
		self.tick += 1
		return CLOCK_BASE + self.tick * 0.25

	def module_file(self, module: str) -> str:
		"""`module` is a dotted module path starting with the package, or a (dotted) name inside the package."""
		dotted = module if not self.package or module.startswith(f'{self.package}.') else f'{self.package}.{module}'
		return os.path.join(self.root, *dotted.split('.')) + '.py'

	def write_module(self, module: str, source: str) -> float:
		path = self.module_file(module)
		os.makedirs(os.path.dirname(path), exist_ok=True)
		with open(path, 'w', encoding='utf-8') as f:
			f.write(source)
		t = self.next_mtime()
		ns = int(CLOCK_BASE) * 1_000_000_000 + self.tick * 250_000_000
		os.utime(path, ns=(ns, ns))
		return t

	def write_module_at(self, module: str, source: str, tick: int) -> None:
		"""Like write_module, but the file gets the virtual mtime of an EARLIER tick (a restored backup, `cp -p`, an extracted
		archive: content and mtime change, the new mtime is one that was in use before); the clock itself is not advanced."""
		path = self.module_file(module)
		os.makedirs(os.path.dirname(path), exist_ok=True)
		with open(path, 'w', encoding='utf-8') as f:
			f.write(source)
		ns = int(CLOCK_BASE) * 1_000_000_000 + tick * 250_000_000
		os.utime(path, ns=(ns, ns))

	def set_grammar_copy(self, name: str) -> float:
		"""Point the configuration at a copy of the shipped grammar inside the project (another path, fresh virtual mtime)."""
		path = os.path.join(self.root, name)
		shutil.copyfile(f'{REPO}/data/grammar.lark', path)
		t = self.next_mtime()
		ns = int(CLOCK_BASE) * 1_000_000_000 + self.tick * 250_000_000
		os.utime(path, ns=(ns, ns))
		self.grammar_path = name
		self.write_config()
		return t

	def remove_module(self, module: str) -> None:
		os.unlink(self.module_file(module))

	def clear_cache(self) -> None:
		shutil.rmtree(os.path.join(self.root, '.cache'), ignore_errors=True)

	def cache_files(self) -> list[str]:
		out = []
		base = self.cache_dir
		for r, _, files in os.walk(base):
			for fn in files:
				out.append(os.path.relpath(os.path.join(r, fn), base))
		return sorted(out)

	def output_files(self) -> dict[str, bytes]:
		"""All files of the project that are neither sources, config nor cache (i.e. everything the Writer produced)."""
		out: dict[str, bytes] = {}
		for r, dirs, files in os.walk(self.root):
			if r == self.root:
				dirs[:] = [d for d in dirs if d != '.cache']
			for fn in files:
				p = os.path.join(r, fn)
				rel = os.path.relpath(p, self.root)
				if rel == 'config.yml' or rel.endswith('.py') or rel.endswith('.lark'):
					continue
				with open(p, 'rb') as f:
					out[rel] = f.read()
		return out

	def output_mtimes(self) -> dict[str, int]:
		out: dict[str, int] = {}
		for rel in self.output_files():
			out[rel] = os.stat(os.path.join(self.root, rel)).st_mtime_ns
		return out

	def clone(self, dest: str) -> 'Project':
		"""Copy of the whole project state (sources with mtimes, cache, outputs) into another directory."""
		shutil.copytree(self.root, dest, symlinks=True, dirs_exist_ok=True, copy_function=shutil.copy2)
		p = Project.__new__(Project)
		p.__dict__.update(self.__dict__)
		p.root = os.path.abspath(dest)
		p.output_dirs = list(self.output_dirs)
		p.input_globs = list(self.input_globs)
		return p

	# ---- running

	def run(self, force: bool = False, cache_enabled: bool | None = None, argv_extra: Sequence[str] = ()) -> RunResult:
		"""One in-process command-line run (bin/transpile.py:__main__ without the catch-all `print(ErrorRender(e))`)."""
		from rogw.tranp.app.app import App
		from rogw.tranp.bin.transpile import Args, TranspileApp
		from rogw.tranp.cache.cache import CacheSetting
		from rogw.tranp.lang.module import to_fullyname

		argv = ['-c', 'config.yml', *(['-f'] if force else []), *argv_extra]
		old = os.getcwd()
		os.chdir(self.root)
		t0 = time.time()
		res = RunResult(True)
		try:
			with AUDIT.watch(self.cache_dir) as events, contextlib.redirect_stdout(io.StringIO()):
				try:
					with run_budget():
						defs = TranspileApp.definitions(Args(list(argv)))
						if cache_enabled is not None:
							enabled = cache_enabled
							defs = {**defs, to_fullyname(CacheSetting): lambda: CacheSetting(basedir=CACHE_REL, enabled=enabled)}
						App(defs).run(TranspileApp.run)
				except RunBudgetExceeded:
					budget_hit(res, 'Project.run')
				except Exception as e:  # noqa: BLE001 - the outcome class is the observation
					res.ok = False
					res.error = common.exc_enum(e)
					res.message = f'{type(e).__name__}: {e}'[:300]
					res.exc = e
			base = self.cache_dir + os.sep
			res.events = [(k, p[len(base):] if p.startswith(base) else p) for k, p in events]
		finally:
			os.chdir(old)
		res.wall = time.time() - t0
		return res

	def run_subprocess(self, force: bool = False, timeout: float = 120) -> tuple[int, str]:
		"""The real CLI in a fresh interpreter (used where a fresh process matters)."""
		env = dict(os.environ)
		env['PYTHONPATH'] = f"{os.path.join(common.VERIF, 'compat')}:{REPO}:{common.VERIF}"
		env['PYTHONDONTWRITEBYTECODE'] = '1'
		cmd = ['/venv/bin/python', '-m', 'rogw.tranp.bin.transpile', '-c', 'config.yml', *(['-f'] if force else [])]
		p = subprocess.run(cmd, cwd=self.root, env=env, capture_output=True, text=True, timeout=timeout)
		return p.returncode, p.stdout + p.stderr


def md5_hex(b: bytes) -> str:
	return hashlib.md5(b).hexdigest()


# ---------------------------------------------------------------------------------------------
# correspondence with a canonicalising step on both sides


def correspond_canon(name: str, cases: Sequence[tuple[Any, list[str], list[str]]], family: str, canon: Any,
		classify: Any = None, max_report: int = 5) -> common.Stream:
	"""Like common.correspond, but `canon(lines) -> lines` is applied per case to the real and to the model lines before the
	diff (used to rename digests by first appearance: the model's identifiers are not md5 values)."""
	from collections import Counter
	st = common.Stream(name)
	all_lines: list[str] = []
	for _, ops, real in cases:
		assert len(ops) == len(real), (name, len(ops), len(real))
		all_lines.extend(ops)
	model = common.lean_driver(family, all_lines) if all_lines else []
	pos = 0
	seen: set[str] = set()
	hist: Counter[str] = Counter()
	for desc, ops, real in cases:
		mod = canon(model[pos:pos + len(ops)])
		real_c = canon(real)
		pos += len(ops)
		st.cases += 1
		seen.add(hashlib.sha1('\n'.join(ops).encode()).hexdigest())
		if classify:
			for k in classify(desc):
				hist[k] += 1
		for i, (o, r, m) in enumerate(zip(ops, real_c, mod)):
			if r != m:
				if len(st.disagreements) < max_report:
					st.disagreements.append({'case': desc, 'op_index': i, 'op': o, 'real': r, 'model': m, 'ops': ops, 'real_raw': real[i]})
				else:
					st.disagreements.append({'op': o[:200], 'real': r[:200], 'model': m[:200]})
				break
		if len(st.samples) < 3:
			st.samples.append({'ops': ops[:8], 'real': real_c[:8]})
	st.distinct = len(seen)
	st.histogram = dict(hist)
	return st
